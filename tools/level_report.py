import sys, collections
sys.path.insert(0,'/verif')
from pyspike_sa.main import Context
from pyspike_sa.props import PROPS
from pyspike_sa.report import KnownFindings
root = sys.argv[1]; level = int(sys.argv[2]); props = sys.argv[3:] or sorted(PROPS)
known = KnownFindings()
seen = set()
for p in props:
    try:
        ctx = Context(root, level)
        from pyspike_sa.main import run_rules
        obs = run_rules(p, PROPS[p], ctx)
    except Exception as e:
        import traceback; traceback.print_exc()
        print(p, 'CRASH', repr(e)); continue
    bad = [o for o in obs if o.status=='inconclusive' or (o.status=='violation' and known.match(p,o) is None)]
    per = collections.Counter(o.rule for o in bad)
    print(p, dict(per))
    for o in bad:
        k = (o.rule, o.title[:80])
        if k in seen: continue
        seen.add(k)
        print('   ', o.status[:4], o.rule, o.title[:110], '@', o.where[:60], '|', o.detail[:230].replace('\n',' / '))
