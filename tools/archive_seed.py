#!/venv/bin/python
"""usage: tools/archive_seed.py <seed dir with patch.diff, demo.py[, meta.json]> <seed id> <property id>
Verifies a seeded change in a scratch worktree of /repo (demo passes on the unchanged tree, pinned suite passes with the
change, demo fails with the change), runs every registered check against the changed worktree, and - if the change is
confirmed - stores it under /verif/seeded/<seed id>/ with a meta.json recording what was run and which checks report it."""
import json, os, re, shutil, subprocess, sys, tempfile

seed, sid, prop = os.path.abspath(sys.argv[1]), sys.argv[2], sys.argv[3]
wt = tempfile.mkdtemp(prefix='seedwt.')
os.rmdir(wt)
subprocess.check_call(['git', '-C', '/repo', 'worktree', 'add', '-q', '--detach', wt, 'HEAD'])
ran = []
try:
    env = dict(os.environ, PYTHONPATH=wt)
    def run(cmd, timeout=900):
        p = subprocess.run(cmd, cwd=wt, env=env, capture_output=True, text=True, timeout=timeout)
        return p.returncode, (p.stdout + p.stderr)
    rc0, out0 = run(['/venv/bin/python', os.path.join(seed, 'demo.py')])
    ran.append(f"demo.py on the unchanged tree: exit {rc0}")
    rc = subprocess.run(['git', 'apply', os.path.join(seed, 'patch.diff')], cwd=wt).returncode
    if rc != 0:
        print('PATCH DOES NOT APPLY'); sys.exit(4)
    rct, outt = run(['/venv/bin/python', '-m', 'pytest', '-q', '-p', 'no:cacheprovider', '--timeout=900'])
    tail = outt.strip().splitlines()[-1]
    ran.append(f"pinned suite with the change: {tail}")
    rc1, out1 = run(['/venv/bin/python', os.path.join(seed, 'demo.py')])
    ran.append(f"demo.py with the change: exit {rc1}")
    checks = [c['property_id'] for c in json.load(open('/verif/MANIFEST.json'))['checks']]
    detected = {}
    for p in checks:
        q = subprocess.run(['bin/check', p, '--repo', wt], cwd='/verif', capture_output=True, text=True)
        if q.returncode != 0:
            rules = sorted(set(re.findall(r"^  (R[\w.\-]+):", q.stdout, re.M)))
            detected[p] = {'exit': q.returncode, 'rules': rules,
                           'first': next((l.strip()[:200] for l in q.stdout.splitlines() if l.startswith('  R') or l.startswith('ANALYSIS-ERROR')), '')}
    ok_suite = bool(re.search(r"\b49 passed\b", tail)) and '1 failed' in tail
    confirmed = rc0 == 0 and rc1 != 0 and ok_suite
    print(json.dumps({'confirmed': confirmed, 'ran': ran, 'target_detected': prop in detected and detected[prop]['exit'] == 1,
                      'detected_by': {k: v['rules'] or v['exit'] for k, v in detected.items()}}, indent=1))
    if prop in detected:
        print('target first report:', detected[prop]['first'])
    if confirmed:
        dst = f"/verif/seeded/{sid}"
        os.makedirs(dst, exist_ok=True)
        shutil.copy(os.path.join(seed, 'patch.diff'), dst)
        shutil.copy(os.path.join(seed, 'demo.py'), dst)
        meta = {}
        mp = os.path.join(seed, 'meta.json')
        if os.path.isfile(mp):
            try:
                meta = json.load(open(mp))
            except Exception:
                meta = {'note': 'author meta.json unreadable'}
        meta.update({'property': prop, 'seed_id': sid,
                     'confirmed_by_verifier': ran,
                     'checks_reporting_it': {k: v['rules'] or [f"exit {v['exit']}"] for k, v in detected.items()},
                     'target_check_reports_it': prop in detected and detected[prop]['exit'] == 1})
        json.dump(meta, open(os.path.join(dst, 'meta.json'), 'w'), indent=1)
finally:
    subprocess.run(['git', '-C', '/repo', 'worktree', 'remove', '--force', wt], capture_output=True)
    shutil.rmtree(wt, ignore_errors=True)
