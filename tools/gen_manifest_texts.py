#!/venv/bin/python
"""Regenerates the `level_claimed.text` of every check in MANIFEST.json from the explanations in pyspike_sa/props.py
(prefix + explanation + decision procedure), so that the manifest says what the registered rules decide."""
import json, sys
sys.path.insert(0, '/verif')
from pyspike_sa.props import PROPS
m = json.load(open('/verif/MANIFEST.json'))
t0 = next(c for c in m['checks'] if c['property_id'] == 'C01')['level_claimed']['text']
prefix = t0[:t0.index('Structural clauses of the ISI-profile')]
suffix = (" Decision procedure: every rule runs on the source as written; a rule that is violated or undecided there is re-run on the "
          "value-equivalent normal form (engine G) and counts as discharged if it holds there - as a whole, or else for each function "
          "(pair of functions) whose obligations all hold there; a VIOLATION is printed only for a definite disagreement (on both forms, "
          "or on the normal form when the source form is undecided and the rule is not a bare equivalence proof), obligations violated on "
          "the source but only undecided on the normal form are undecided; unrecognised shapes give ANALYSIS-ERROR (exit 2).")
for c in m['checks']:
    pid = c['property_id']
    c['level_claimed']['text'] = prefix + PROPS[pid]['explanation'] + suffix
json.dump(m, open('/verif/MANIFEST.json', 'w'), indent=1)
print('updated', len(m['checks']), 'checks')
