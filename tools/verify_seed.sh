#!/bin/bash
# usage: tools/verify_seed.sh <seed dir containing patch.diff and demo.py> <property id>
# Verifies a seeded change in a scratch worktree of /repo: demo passes without the patch, the pinned suite still
# passes with it, the demo fails with it; then runs every registered check against the patched worktree.
set -u
SEED="$(cd "$1" && pwd)"; PROP="$2"
WT=$(mktemp -d /tmp/seedwt.XXXXXX)
rmdir "$WT"
git -C /repo worktree add -q --detach "$WT" HEAD || exit 3
cleanup() { git -C /repo worktree remove --force "$WT" >/dev/null 2>&1; rm -rf "$WT"; }
trap cleanup EXIT
cd "$WT"
echo "== demo on unchanged tree (must pass)"
PYTHONPATH="$WT" timeout 300 /venv/bin/python "$SEED/demo.py" >/tmp/seed_demo0.log 2>&1; D0=$?
echo "   exit=$D0"
git apply "$SEED/patch.diff" || { echo "PATCH DOES NOT APPLY"; exit 4; }
echo "== pinned suite with the change"
PYTHONPATH="$WT" timeout 900 /venv/bin/python -m pytest -q -p no:cacheprovider --timeout=900 2>&1 | tail -2
echo "== demo with the change (must fail)"
PYTHONPATH="$WT" timeout 300 /venv/bin/python "$SEED/demo.py" >/tmp/seed_demo1.log 2>&1; D1=$?
echo "   exit=$D1"; tail -3 /tmp/seed_demo1.log
echo "== checks against the changed tree"
cd /verif
for p in $(/venv/bin/python -c "import json;print(' '.join(c['property_id'] for c in json.load(open('/verif/MANIFEST.json'))['checks']))"); do
  out=$(PYSPIKE_NO_EVIDENCE=1 bin/check $p --repo "$WT" 2>&1); rc=$?
  if [ $rc -ne 0 ]; then
    mark=""; [ "$p" = "$PROP" ] && mark="  <== target property"
    echo "  $p exit=$rc$mark"
    echo "$out" | grep -E "^(VIOLATION|ANALYSIS-ERROR|  R[0-9])" | head -4 | cut -c1-220
  fi
done
echo "== summary: demo0=$D0 demo1=$D1"
