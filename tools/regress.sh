#!/bin/bash
# usage: tools/regress.sh [seeded|neutral|all]
# Re-runs the target check of every archived seeded change (must exit 1) and every registered check on every
# archived neutral refactoring (must exit 0) in scratch worktrees of /repo (removed afterwards), 16 at a time.
set -u
MODE="${1:-all}"
BASE=$(mktemp -d /tmp/regress.XXXXXX)
one_seed() {
  id=$1; BASE=$2
  prop=$(/venv/bin/python -c "import json;print(json.load(open('/verif/seeded/$id/meta.json'))['property'])")
  wt=$BASE/$id
  git -C /repo worktree add -q --detach "$wt" HEAD 2>/dev/null || { echo "SEED $id worktree-failed"; return; }
  ( cd "$wt" && git apply /verif/seeded/$id/patch.diff 2>/dev/null ) || { echo "SEED $id patch-does-not-apply"; git -C /repo worktree remove --force "$wt"; return; }
  PYSPIKE_EVIDENCE_DIR=$BASE/ev.$id /verif/bin/check $prop --repo "$wt" >$BASE/$id.log 2>&1; rc=$?
  und=$(/venv/bin/python -c "import json;print('yes' if '$id' in json.load(open('/verif/seeded/UNDECIDED.json')) else 'no')")
  if [ $rc -eq 1 ]; then echo "SEED $id $prop reported"; elif [ $rc -eq 2 ] && [ "$und" = yes ]; then echo "SEED $id $prop undecided only (exit 2; listed in seeded/UNDECIDED.json with the reason)"; else echo "SEED $id $prop MISSED rc=$rc"; fi
  git -C /repo worktree remove --force "$wt" >/dev/null 2>&1
}
one_neutral() {
  id=$1; BASE=$2
  wt=$BASE/$id
  git -C /repo worktree add -q --detach "$wt" HEAD 2>/dev/null || { echo "NEUTRAL $id worktree-failed"; return; }
  ( cd "$wt" && git apply /verif/neutral/$id/patch.diff 2>/dev/null ) || { echo "NEUTRAL $id patch-does-not-apply"; git -C /repo worktree remove --force "$wt"; return; }
  bad=""
  for p in $(/venv/bin/python -c "import json;print(' '.join(c['property_id'] for c in json.load(open('/verif/MANIFEST.json'))['checks']))"); do
    PYSPIKE_EVIDENCE_DIR=$BASE/ev.$id /verif/bin/check $p --repo "$wt" >$BASE/$id.$p.log 2>&1; rc=$?
    [ $rc -ne 0 ] && bad="$bad $p:$rc"
  done
  exp=$(/venv/bin/python -c "import json;print(json.load(open('/verif/neutral/STATUS.json'))['expected'].get('$id','silent')[:18])")
  only2=yes; for b in $bad; do [ "${b##*:}" = 2 ] || only2=no; done
  if [ -z "$bad" ]; then echo "NEUTRAL $id silent"; elif [ "$exp" = "known-false-alarm:" ] && [ $only2 = yes ]; then echo "NEUTRAL $id undecided only (exit 2; listed in neutral/STATUS.json with the reason):$bad"; elif [ "$exp" = "known-false-alarm:" ]; then echo "NEUTRAL $id flagged (listed in neutral/STATUS.json as a known false alarm):$bad"; else echo "NEUTRAL $id FLAGGED$bad"; fi
  git -C /repo worktree remove --force "$wt" >/dev/null 2>&1
}
export -f one_seed one_neutral
{
  if [ "$MODE" != neutral ]; then for d in /verif/seeded/*/; do echo "one_seed $(basename $d) $BASE"; done; fi
  if [ "$MODE" != seeded ]; then for d in /verif/neutral/[A-Z][0-9]*/; do echo "one_neutral $(basename $d) $BASE"; done; fi
} | xargs -P 16 -I{} bash -c '{}' | sort
git -C /repo worktree prune
if [ "${KEEP_LOGS:-0}" = 1 ]; then echo "logs in $BASE"; else rm -rf "$BASE"; fi
