#!/venv/bin/python
"""usage: tools/coverage_audit.py [root]
Dev-time audit of blind spots: for every property, the library functions reachable from its entry points (by resolved
calls, function-valued arguments and method names) that carry NO obligation of that property's check (no obligation is
located inside them or names them).  A function on a property's dependency chain without any obligation is a place where
a change cannot be noticed by that check."""
import ast, re, sys
sys.path.insert(0, '/verif')
from pyspike_sa.main import Context, run_rules
from pyspike_sa.props import PROPS

root = sys.argv[1] if len(sys.argv) > 1 else '/repo'
ENTRY = {
    'C01': ['isi_profile', 'isi_distance'],
    'C02': ['spike_profile', 'spike_distance'],
    'C03': ['spike_sync_profile', 'spike_sync', 'filter_by_spike_sync'],
    'C04': ['spike_train_order_profile', 'spike_train_order', 'spike_directionality', 'spike_directionality_values',
            'spike_directionality_matrix', 'optimal_spike_train_sorting'],
    'C05': ['isi_distance', 'spike_distance', 'spike_sync', 'spike_train_order', 'isi_profile', 'spike_profile', 'spike_sync_profile',
            'spike_train_order_profile'],
    'C06': ['isi_profile', 'spike_profile', 'spike_sync_profile', 'isi_distance', 'spike_distance', 'spike_sync',
            'isi_distance_matrix', 'spike_distance_matrix', 'spike_sync_matrix'],
    'C07': ['isi_profile', 'spike_profile', 'spike_sync_profile', 'isi_distance', 'spike_distance', 'spike_sync', 'spike_train_order',
            'spike_directionality'],
    'C08': ['isi_profile', 'spike_profile', 'spike_sync_profile', 'spike_train_order_profile', 'isi_distance', 'spike_distance',
            'spike_sync', 'spike_train_order'],
    'C09': ['PieceWiseConstFunc.add', 'PieceWiseLinFunc.add', 'PieceWiseConstFunc.mul_scalar', 'PieceWiseLinFunc.mul_scalar',
            'PieceWiseConstFunc.copy', 'PieceWiseLinFunc.copy', 'PieceWiseConstFunc.__init__', 'PieceWiseLinFunc.__init__', 'average_profile'],
    'C10': [f"{c}.{m}" for c in ('PieceWiseConstFunc', 'PieceWiseLinFunc') for m in ('integral', 'avrg', '__call__', 'get_plottable_data', '__init__', 'copy')],
    'C11': [f"DiscreteFunc.{m}" for m in ('integral', 'avrg', 'add', 'mul_scalar', 'copy', '__init__', 'get_plottable_data')],
    'C12': ['isi_profile', 'spike_profile', 'spike_sync_profile', 'spike_train_order_profile', 'isi_distance', 'spike_distance', 'spike_sync',
            'spike_train_order', 'spike_directionality', 'spike_directionality_values', 'filter_by_spike_sync'],
    'C13': ['isi_profile', 'spike_profile', 'spike_sync_profile', 'spike_train_order_profile', 'isi_distance', 'spike_distance', 'spike_sync',
            'spike_train_order', 'spike_directionality', 'reconcile_spike_trains', 'reconcile_spike_trains_bi', 'isi_distance_matrix',
            'spike_distance_matrix', 'spike_sync_matrix', 'spike_directionality_matrix', 'filter_by_spike_sync', 'merge_spike_trains'],
    'C14': ['isi_profile', 'spike_profile', 'spike_sync_profile', 'spike_train_order_profile', 'isi_distance', 'spike_distance', 'spike_sync',
            'spike_train_order', 'isi_distance_matrix', 'spike_distance_matrix', 'spike_sync_matrix', 'spike_directionality_matrix',
            'spike_directionality_values'],
    'C15': ['isi_profile', 'spike_profile', 'spike_sync_profile', 'spike_train_order_profile', 'isi_distance', 'spike_distance', 'spike_sync',
            'spike_train_order', 'default_thresh', 'isi_lengths'],
    'C16': ['spike_sync_profile', 'spike_sync', 'spike_train_order_profile', 'spike_train_order', 'spike_directionality', 'filter_by_spike_sync'],
    'C17': ['filter_by_spike_sync'],
    'C18': ['isi_profile', 'spike_profile', 'spike_sync_profile', 'spike_train_order_profile', 'isi_distance', 'spike_distance', 'spike_sync',
            'spike_train_order', 'spike_directionality', 'isi_distance_matrix', 'spike_distance_matrix', 'spike_sync_matrix'],
    'C20': ['merge_spike_trains', 'psth', 'generate_poisson_spikes'],
}
ctx = Context(root)
repo = ctx.repo
funcs = [f for f in repo.all_functions(pyx=False)]
by_last = {}
for f in funcs:
    by_last.setdefault(f.name.split('.')[-1], []).append(f)
by_name = {f.name: f for f in funcs}


def callees(f):
    out = set()
    for n in ast.walk(f.node):
        if isinstance(n, ast.Call):
            if isinstance(n.func, ast.Name):
                out.add(n.func.id)
            elif isinstance(n.func, ast.Attribute):
                out.add(n.func.attr)
        elif isinstance(n, ast.Name) and isinstance(n.ctx, ast.Load):
            out.add(n.id)
    return out


def reach(entries):
    seen = {}
    work = []
    for e in entries:
        work += [by_name[e]] if e in by_name else by_last.get(e.split('.')[-1], [])
    while work:
        f = work.pop()
        if f.qual in seen or f.module.startswith('pyspike.cython.cython_'):
            continue
        seen[f.qual] = f
        for nm in callees(f):
            for g in by_last.get(nm, []):
                if nm in ('add', 'copy', 'integral', 'avrg', 'mul_scalar', '__init__', 'sort', '__call__') and g.cls is None:
                    continue
                work.append(g)
    return list(seen.values())


def span(f):
    return f.node.lineno, max(getattr(n, 'end_lineno', f.node.lineno) or f.node.lineno for n in ast.walk(f.node))


for pid in sorted(ENTRY):
    obs = run_rules(pid, PROPS[pid], ctx)
    located = set()
    for o in obs:
        for m in re.finditer(r"(pyspike/[\w/]+\.pyx?):(\d+)", o.where or ''):
            located.add((m.group(1), int(m.group(2))))
    texts = ' '.join((o.title or '') + ' ' + (o.key or '') + ' ' + (o.construct or '') for o in obs)
    blind = []
    for f in reach(ENTRY[pid]):
        a, b = span(f)
        hit = any(p == f.path and a <= ln <= b for p, ln in located)
        named = re.search(r"\b" + re.escape(f.name.split('.')[-1]) + r"\b", texts) is not None
        if not hit and not named:
            blind.append(f"{f.path}::{f.name}")
    print(pid, f"{len(obs)} obligations; reachable functions without any obligation:")
    for b in sorted(blind):
        print('    ', b)
