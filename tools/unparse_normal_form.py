# build a scratch copy of a tree whose .py modules are replaced by their normal form (dev-time validation of normalize.py)
import ast, os, shutil, sys
sys.path.insert(0, '/verif')
from pyspike_sa.frontend import Repo
src, dst = sys.argv[1], sys.argv[2]
if os.path.exists(dst): shutil.rmtree(dst)
shutil.copytree(src, dst, ignore=shutil.ignore_patterns('.git', '__pycache__', '_seed'))
r = Repo(src, 1)
for m in r.modules.values():
    if m.is_pyx or m.name == 'setup': continue
    open(os.path.join(dst, m.path), 'w').write(ast.unparse(m.tree) + '\n')
print('normalised copy in', dst)
