#!/venv/bin/python
"""usage: tools/refresh_seed_meta.py [seed ids ...]
Re-runs every registered check on every archived seeded change (scratch worktrees of /repo, removed afterwards) and records
in its meta.json which checks report it NOW (`checks_reporting_it`: property -> rules, `target_check_reports_it`)."""
import json, os, re, subprocess, sys, tempfile
from concurrent.futures import ThreadPoolExecutor
ids = sys.argv[1:] or sorted(os.listdir('/verif/seeded'))
checks = [c['property_id'] for c in json.load(open('/verif/MANIFEST.json'))['checks']]
base = tempfile.mkdtemp(prefix='refresh.')


def one(sid):
    d = f'/verif/seeded/{sid}'
    meta = json.load(open(d + '/meta.json'))
    wt = f'{base}/{sid}'
    subprocess.run(['git', '-C', '/repo', 'worktree', 'add', '-q', '--detach', wt, 'HEAD'], check=True)
    try:
        if subprocess.run(['git', 'apply', d + '/patch.diff'], cwd=wt).returncode != 0:
            return sid, 'patch does not apply'
        det = {}
        for p in checks:
            q = subprocess.run(['bin/check', p, '--repo', wt], cwd='/verif', capture_output=True, text=True,
                               env=dict(os.environ, PYSPIKE_EVIDENCE_DIR=f'{base}/ev.{sid}'))
            if q.returncode != 0:
                rules = sorted(set(re.findall(r"^  (R[\w.\-]+):", q.stdout, re.M)))
                det[p] = rules if q.returncode == 1 else ['exit 2']
        meta['checks_reporting_it'] = det
        meta['target_check_reports_it'] = meta['property'] in det and det[meta['property']] != ['exit 2']
        json.dump(meta, open(d + '/meta.json', 'w'), indent=1)
        return sid, 'target' if meta['target_check_reports_it'] else 'MISSED'
    finally:
        subprocess.run(['git', '-C', '/repo', 'worktree', 'remove', '--force', wt], capture_output=True)


with ThreadPoolExecutor(max_workers=8) as ex:
    for sid, res in ex.map(one, ids):
        print(sid, res, flush=True)
subprocess.run(['git', '-C', '/repo', 'worktree', 'prune'])
subprocess.run(['rm', '-rf', base])
