#!/venv/bin/python
"""usage: tools/archive_neutral.py <worktree of the author with _seed/{patch.diff,record.py,compare.py[,meta.json]}> <id>
Confirms a behaviour-preserving refactoring in a scratch worktree of /repo (record.py on the unchanged tree, the patch,
compare.py bit-for-bit, pinned suite), runs every registered check against the changed tree and stores the change under
/verif/neutral/<id>/ together with what was run and which checks (if any) report it."""
import json, os, re, shutil, subprocess, sys, tempfile

src, nid = os.path.abspath(sys.argv[1]), sys.argv[2]
seed = os.path.join(src, '_seed')
wt = tempfile.mkdtemp(prefix='neutralwt.')
os.rmdir(wt)
subprocess.check_call(['git', '-C', '/repo', 'worktree', 'add', '-q', '--detach', wt, 'HEAD'])
ran = []
try:
    env = dict(os.environ, PYTHONPATH=wt)
    def run(cmd, timeout=1800):
        p = subprocess.run(cmd, cwd=wt, env=env, capture_output=True, text=True, timeout=timeout)
        return p.returncode, (p.stdout + p.stderr)
    # the author's scripts name their own worktree: run them on a copy that names the scratch tree
    os.makedirs(os.path.join(wt, '_seed'), exist_ok=True)
    pys = [f for f in os.listdir(seed) if f.endswith('.py')]
    for f in pys:
        txt = open(os.path.join(seed, f)).read().replace(src, wt)
        open(os.path.join(wt, '_seed', f), 'w').write(txt)
    rc0, out0 = run(['/venv/bin/python', '_seed/record.py'])
    ran.append(f"record.py on the unchanged tree: exit {rc0}")
    rc = subprocess.run(['git', 'apply', os.path.join(seed, 'patch.diff')], cwd=wt).returncode
    if rc != 0:
        print('PATCH DOES NOT APPLY'); sys.exit(4)
    rc1, out1 = run(['/venv/bin/python', '_seed/compare.py'])
    ran.append(f"compare.py with the change (bit-for-bit): exit {rc1}")
    rct, outt = run(['/venv/bin/python', '-m', 'pytest', '-q', '-p', 'no:cacheprovider', '--timeout=900'])
    tail = outt.strip().splitlines()[-1]
    ran.append(f"pinned suite with the change: {tail}")
    confirmed = rc0 == 0 and rc1 == 0 and bool(re.search(r"\b49 passed\b", tail)) and '1 failed' in tail
    checks = [c['property_id'] for c in json.load(open('/verif/MANIFEST.json'))['checks']]
    def one(p):
        q = subprocess.run(['bin/check', p, '--repo', wt], cwd='/verif', capture_output=True, text=True,
                           env=dict(os.environ, PYSPIKE_EVIDENCE_DIR=tempfile.mkdtemp(prefix='ev.')))
        return p, q
    from concurrent.futures import ThreadPoolExecutor
    flagged = {}
    with ThreadPoolExecutor(8) as ex:
        for p, q in ex.map(one, checks):
            if q.returncode != 0:
                lines = [l.strip()[:260] for l in q.stdout.splitlines() if re.match(r"\s+R[\w.\-]+:", l) or l.startswith('ANALYSIS-ERROR')]
                flagged[p] = {'exit': q.returncode, 'reports': lines[:12]}
    print(json.dumps({'confirmed': confirmed, 'ran': ran, 'flagged': {k: v['exit'] for k, v in flagged.items()}}, indent=1))
    for p, v in flagged.items():
        print('==', p, 'exit', v['exit'])
        for l in v['reports'][:6]:
            print('   ', l)
    if confirmed:
        dst = f"/verif/neutral/{nid}"
        os.makedirs(dst, exist_ok=True)
        for f in ['patch.diff'] + pys:
            shutil.copy(os.path.join(seed, f), dst)
        meta = {}
        mp = os.path.join(seed, 'meta.json')
        if os.path.isfile(mp):
            try:
                meta = json.load(open(mp))
            except Exception:
                meta = {'note': 'author meta.json unreadable'}
        meta.update({'neutral_id': nid, 'confirmed_by_verifier': ran,
                     'checks_not_silent_when_archived': {k: v['exit'] for k, v in flagged.items()}})
        json.dump(meta, open(os.path.join(dst, 'meta.json'), 'w'), indent=1)
finally:
    subprocess.run(['git', '-C', '/repo', 'worktree', 'remove', '--force', wt], capture_output=True)
    for d in os.listdir(tempfile.gettempdir()):
        if d.startswith('ev.'):
            shutil.rmtree(os.path.join(tempfile.gettempdir(), d), ignore_errors=True)
