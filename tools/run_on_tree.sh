#!/bin/bash
# usage: runall.sh <worktree>
wt=$1
export PYSPIKE_EVIDENCE_DIR=$(mktemp -d /tmp/pyspike_sa_ev.XXXXXX)
run1() { p=$1; out=$(/verif/bin/check $p --repo $wt --tier quick 2>&1); rc=$?; echo "$p rc=$rc"; if [ $rc -ne 0 ]; then echo "$out" | grep -E "VIOLATION|ANALYSIS-ERROR|violation|inconclusive" | head -8 | cut -c1-400; fi; }
export -f run1; export wt
for p in C01 C02 C03 C04 C05 C06 C07 C08 C09 C10 C11 C12 C13 C14 C15 C16 C17 C18 C20; do echo $p; done | xargs -P 16 -I{} bash -c 'run1 {}' 
rm -rf $PYSPIKE_EVIDENCE_DIR
