import ast, sys
sys.path.insert(0,'/verif')
from pyspike_sa.frontend import Repo
a = Repo(sys.argv[1], 1); b = Repo(sys.argv[2], 1)
only = sys.argv[3] if len(sys.argv) > 3 else None
import difflib
for name, m in a.modules.items():
    if name not in b.modules: continue
    for fn, fi in m.functions.items():
        if only and only not in fn: continue
        if '.' in fn and fn.split('.')[0] in m.functions: continue
        fb = b.modules[name].functions.get(fn)
        if fb is None: print('MISSING', name, fn); continue
        ua, ub = ast.unparse(fi.node), ast.unparse(fb.node)
        if ua != ub:
            print('====', name, fn)
            for l in difflib.unified_diff(ua.split('\n'), ub.split('\n'), lineterm='', n=1):
                print(l)
