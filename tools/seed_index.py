#!/venv/bin/python
"""Writes /verif/seeded/INDEX.md: one row per archived seeded violation (what was changed, which checks report it), from
the meta.json files (kept current by tools/refresh_seed_meta.py)."""
import json, os
rows = []
for sid in sorted(os.listdir('/verif/seeded'), key=lambda s: (s[3:], s[:3])):
    mp = f'/verif/seeded/{sid}/meta.json'
    if not os.path.isfile(mp):
        continue
    m = json.load(open(mp))
    det = m.get('checks_reporting_it') or {}
    if isinstance(det, list):
        det = {k: [] for k in det}
    rep = ', '.join(f"{p}:{'/'.join(r) if isinstance(r, list) and r else 'x'}" for p, r in sorted(det.items()))
    what = ' '.join(str(m.get('what', '')).split())[:210].replace('|', '/')
    rows.append(f"| {sid} | {m.get('property')} | {', '.join(m.get('files_changed', []))[:70]} | {what} | "
                f"{'yes' if m.get('target_check_reports_it') else 'NO'} | {rep[:260]} |")
with open('/verif/seeded/INDEX.md', 'w') as f:
    f.write("# Seeded violations (written by independent sub-agents, confirmed in scratch worktrees)\n\n"
            "Rounds: a plain bugs, b/c hidden in refactoring, d consistent in all copies, e library / language semantics, f-i off the "
            "beaten path (four successive sets of sites), j off the beaten path inside a clean-up, k two-site interactions, l library / language traps, "
            "m non-default options, n optimisations gone wrong, o well-meant fixes gone wrong, p side effects of a small feature.  `target` = reported by the check "
            "of the property the change was written against.  Regenerate with tools/refresh_seed_meta.py + tools/seed_index.py.\n\n"
            "| id | property | files | what | target | reported by (check:rules) |\n|---|---|---|---|---|---|\n")
    f.write('\n'.join(rows) + '\n')
print(len(rows), 'rows')
