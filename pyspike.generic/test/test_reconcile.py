import numpy as np
from numpy.testing import assert_allclose
from pyspike import SpikeTrain
from pyspike.spikes import reconcile_spike_trains
import pdb

def test_reconcile():
    ##input:
    tr1 = np.array([1,3,2,5])
    tr2 = np.array([1,4,4,10])

    edges1=[0,5]
    edges2=[3,9]

    ##expected output:
    edges=[0,9]
    trOut = [np.array([1,2,3,5]),
             np.array([1,4])]

    spike_trains = [SpikeTrain(tr1, edges1), SpikeTrain(tr2,edges2)]
    st_fixed = reconcile_spike_trains(spike_trains)

    assert len(st_fixed) == 2
    assert(st_fixed[0].t_start==edges[0])
    assert(st_fixed[0].t_end  ==edges[1])
    for i in range(2):
        assert_allclose(st_fixed[i].spikes, trOut[i])
        assert_allclose(st_fixed[i].t_start, 0)
        assert_allclose(st_fixed[i].t_end, 9)

if __name__ == "__main__":
    test_reconcile()