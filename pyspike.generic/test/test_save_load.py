""" test_save_load.py

Tests saving and loading of spike trains

Copyright 2016, Mario Mulansky <mario.mulansky@gmx.net>

Distributed under the BSD License

"""

from __future__ import print_function
from numpy.testing import assert_array_equal

import tempfile
import os.path

import pyspike as spk


def test_save_load():
    file_name = os.path.join(tempfile.mkdtemp(prefix='pyspike_'),
                             "save_load.txt")

    N = 10
    # generate some spike trains
    spike_trains = []
    for n in range(N):
        spike_trains.append(spk.generate_poisson_spikes(1.0, [0, 100]))

    # save them into txt file
    spk.save_spike_trains_to_txt(spike_trains, file_name, precision=17)

    # load again
    spike_trains_loaded = spk.load_spike_trains_from_txt(file_name, [0, 100])

    for n in range(N):
        assert_array_equal(spike_trains[n].spikes,
                           spike_trains_loaded[n].spikes)


if __name__ == "__main__":
    test_save_load()
