""" regression benchmark

Copyright 2015, Mario Mulansky <mario.mulansky@gmx.net>

Distributed under the BSD License
"""
from __future__ import print_function

import os
import numpy as np
from scipy.io import loadmat
import pyspike as spk

from numpy.testing import assert_almost_equal

spk.disable_backend_warning = True

max_trr_trials = 100  # speed things up

def test_regression_random():

    spike_file = os.path.join("test", "numeric", "regression_random_spikes.mat")
    spikes_name = "spikes"
    result_name = "Distances"
    result_file = os.path.join("test", "numeric", "regression_random_results_cSPIKY.mat")

    spike_train_sets = loadmat(spike_file)[spikes_name][0]
    results_cSPIKY = loadmat(result_file)[result_name]

    for i, spike_train_data in enumerate(spike_train_sets):
        if i >= max_trr_trials:
            break
        spike_trains = []
        for spikes in spike_train_data[0]:
            spike_trains.append(spk.SpikeTrain(spikes.flatten(), 100.0))

        isi = spk.isi_distance_multi(spike_trains)
        isi_prof = spk.isi_profile_multi(spike_trains).avrg()

        spike = spk.spike_distance_multi(spike_trains)
        spike_prof = spk.spike_profile_multi(spike_trains).avrg()

        spike_sync = spk.spike_sync_multi(spike_trains)
        spike_sync_prof = spk.spike_sync_profile_multi(spike_trains).avrg()

        assert_almost_equal(isi, results_cSPIKY[i][0], decimal=14,
                            err_msg="Index: %d, ISI" % i)
        assert_almost_equal(isi_prof, results_cSPIKY[i][0], decimal=14,
                            err_msg="Index: %d, ISI" % i)

        assert_almost_equal(spike, results_cSPIKY[i][1], decimal=14,
                            err_msg="Index: %d, SPIKE" % i)
        assert_almost_equal(spike_prof, results_cSPIKY[i][1], decimal=14,
                            err_msg="Index: %d, SPIKE" % i)

        assert_almost_equal(spike_sync, spike_sync_prof, decimal=14,
                            err_msg="Index: %d, SPIKE-Sync" % i)


def check_regression_dataset(spike_file="benchmark.mat",
                             spikes_name="spikes",
                             result_file="results_cSPIKY.mat",
                             result_name="Distances"):
    """ Debuging function """
    np.set_printoptions(precision=15)

    spike_train_sets = loadmat(spike_file)[spikes_name][0]

    results_cSPIKY = loadmat(result_file)[result_name]

    err_max = 0.0
    err_max_ind = -1
    err_count = 0

    for i, spike_train_data in enumerate(spike_train_sets):
        if i >= max_trr_trials:
            break
        spike_trains = []
        for spikes in spike_train_data[0]:
            spike_trains.append(spk.SpikeTrain(spikes.flatten(), 100.0))

        isi = spk.isi_distance_multi(spike_trains)
        spike = spk.spike_distance_multi(spike_trains)
        # spike_sync = spk.spike_sync_multi(spike_trains)

        if abs(isi - results_cSPIKY[i][0]) > 1E-14:
            print("Error in ISI:", i, isi, results_cSPIKY[i][0])
            print("Spike trains:")
            for st in spike_trains:
                print(st.spikes)

        err = abs(spike - results_cSPIKY[i][1])
        if err > 1E-14:
            err_count += 1
        if err > err_max:
            err_max = err
            err_max_ind = i

    print("Total Errors:", err_count)

    if err_max_ind > -1:
        print("Max SPIKE distance error:", err_max, "at index:", err_max_ind)
        spike_train_data = spike_train_sets[err_max_ind]
        for spikes in spike_train_data[0]:
            print(spikes.flatten())


def check_single_spike_train_set(index):
    """ Debuging function """
    np.set_printoptions(precision=15)
    spike_file = os.path.join("test", "numeric", "regression_random_spikes.mat")
    spikes_name = "spikes"
    result_name = "Distances"
    result_file = os.path.join("test", "numeric", "regression_random_results_cSPIKY.mat")

    spike_train_sets = loadmat(spike_file)[spikes_name][0]

    results_cSPIKY = loadmat(result_file)[result_name]

    spike_train_data = spike_train_sets[index]

    spike_trains = []
    N = 0
    for spikes in spike_train_data[0]:
        N += len(spikes.flatten())
        print("Spikes:", len(spikes.flatten()))
        spikes_array = spikes.flatten()
        if len(spikes_array > 0) and (spikes_array[-1] > 100.0):
            spikes_array[-1] = 100.0
        spike_trains.append(spk.SpikeTrain(spikes_array, 100.0))
        print(spike_trains[-1].spikes)

    print(N)

    print(spk.spike_sync_multi(spike_trains))

    print(spk.spike_sync_profile_multi(spike_trains).integral())


if __name__ == "__main__":

    test_regression_random()
    check_regression_dataset()
    check_single_spike_train_set(4)
