""" test_regression_15.py

Regression test for Issue #15

Copyright 2015, Mario Mulansky <mario.mulansky@gmx.net>

Distributed under the BSD License

"""

from __future__ import division

import numpy as np
from numpy.testing import assert_allclose, assert_almost_equal, \
    assert_array_almost_equal

import pyspike as spk

import os
TEST_PATH = os.path.dirname(os.path.realpath(__file__))
TEST_DATA = os.path.join(TEST_PATH, "..", "SPIKE_Sync_Test.txt")


def test_regression_15_isi():
    # load spike trains
    spike_trains = spk.load_spike_trains_from_txt(TEST_DATA, edges=[0, 4000])

    N = len(spike_trains)

    dist_mat = spk.isi_distance_matrix(spike_trains)
    assert_allclose(dist_mat.shape, (N, N))

    ind = np.arange(N//2)
    dist_mat = spk.isi_distance_matrix(spike_trains, ind)
    assert_allclose(dist_mat.shape, (N//2, N//2))

    ind = np.arange(N//2, N)
    dist_mat = spk.isi_distance_matrix(spike_trains, ind)
    assert_allclose(dist_mat.shape, (N//2, N//2))


def test_regression_15_spike():
    # load spike trains
    spike_trains = spk.load_spike_trains_from_txt(TEST_DATA, edges=[0, 4000])

    N = len(spike_trains)

    dist_mat = spk.spike_distance_matrix(spike_trains)
    assert_allclose(dist_mat.shape, (N, N))

    ind = np.arange(N//2)
    dist_mat = spk.spike_distance_matrix(spike_trains, ind)
    assert_allclose(dist_mat.shape, (N//2, N//2))

    ind = np.arange(N//2, N)
    dist_mat = spk.spike_distance_matrix(spike_trains, ind)
    assert_allclose(dist_mat.shape, (N//2, N//2))


def test_regression_15_sync():
    # load spike trains
    spike_trains = spk.load_spike_trains_from_txt(TEST_DATA, edges=[0, 4000])

    N = len(spike_trains)

    dist_mat = spk.spike_sync_matrix(spike_trains)
    assert_allclose(dist_mat.shape, (N, N))

    ind = np.arange(N//2)
    dist_mat = spk.spike_sync_matrix(spike_trains, ind)
    assert_allclose(dist_mat.shape, (N//2, N//2))

    ind = np.arange(N//2, N)
    dist_mat = spk.spike_sync_matrix(spike_trains, ind)
    assert_allclose(dist_mat.shape, (N//2, N//2))


if __name__ == "__main__":
    test_regression_15_isi()
    test_regression_15_spike()
    test_regression_15_sync()
