# dummy
