""" test_directionality.py

Tests the directionality functions

Copyright 2015, Mario Mulansky <mario.mulansky@gmx.net>

Distributed under the BSD License

"""

import numpy as np
from numpy.testing import assert_equal, assert_almost_equal, \
    assert_array_equal

import pyspike as spk
from pyspike import SpikeTrain, DiscreteFunc

def test_spike_directionality():
    
    st1 = SpikeTrain([100, 200, 300], [0, 1000])
    st2 = SpikeTrain([105, 205, 300], [0, 1000])
    assert_almost_equal(spk.spike_directionality(st1, st2), 2.0/3.0)
    assert_almost_equal(spk.spike_directionality(st1, st2, normalize=False),
                        2.0)

    # exchange order of spike trains should give exact negative profile
    assert_almost_equal(spk.spike_directionality(st2, st1), -2.0/3.0)
    assert_almost_equal(spk.spike_directionality(st2, st1, normalize=False),
                        -2.0)

    st3 = SpikeTrain([105, 195, 500], [0, 1000])
    assert_almost_equal(spk.spike_directionality(st1, st3), 0.0)
    assert_almost_equal(spk.spike_directionality(st1, st3, normalize=False),
                        0.0)
    assert_almost_equal(spk.spike_directionality(st3, st1), 0.0)

    D = spk.spike_directionality_matrix([st1, st2, st3], normalize=False)
    D_expected = np.array([[0, 2.0, 0.0], [-2.0, 0.0, -1.0], [0.0, 1.0, 0.0]])
    assert_array_equal(D, D_expected)

    dir_profs = spk.spike_directionality_values([st1, st2, st3])
    assert_array_equal(dir_profs[0], [1.0, 0.0, 0.0])
    assert_array_equal(dir_profs[1], [-0.5, -1.0, 0.0])


def test_spike_train_order():
    st1 = SpikeTrain([100, 200, 300], [0, 1000])
    st2 = SpikeTrain([105, 205, 300], [0, 1000])
    st3 = SpikeTrain([105, 195, 500], [0, 1000])

    expected_x12 = np.array([0, 100, 105, 200, 205, 300, 1000])
    expected_y12 = np.array([1, 1, 1, 1, 1, 0, 0])
    expected_mp12 = np.array([1, 1, 1, 1, 1, 2, 2])

    f = spk.spike_train_order_profile(st1, st2)

    assert f.almost_equal(DiscreteFunc(expected_x12, expected_y12,
                                       expected_mp12))
    assert_almost_equal(f.avrg(), 2.0/3.0)
    assert_almost_equal(f.avrg(normalize=False), 4.0)
    assert_almost_equal(spk.spike_train_order(st1, st2), 2.0/3.0)
    assert_almost_equal(spk.spike_train_order(st1, st2, normalize=False), 4.0)

    expected_x23 = np.array([0, 105, 195, 205, 300, 500, 1000])
    expected_y23 = np.array([0, 0, -1, -1, 0, 0, 0])
    expected_mp23 = np.array([2, 2, 1, 1, 1, 1, 1])

    f = spk.spike_train_order_profile(st2, st3)

    assert_array_equal(f.x, expected_x23)
    assert_array_equal(f.y, expected_y23)
    assert_array_equal(f.mp, expected_mp23)
    assert f.almost_equal(DiscreteFunc(expected_x23, expected_y23,
                                       expected_mp23))
    assert_almost_equal(f.avrg(), -1.0/3.0)
    assert_almost_equal(f.avrg(normalize=False), -2.0)
    assert_almost_equal(spk.spike_train_order(st2, st3), -1.0/3.0)
    assert_almost_equal(spk.spike_train_order(st2, st3, normalize=False), -2.0)

    f = spk.spike_train_order_profile_multi([st1, st2, st3])

    expected_x = np.array([0, 100, 105, 195, 200, 205, 300, 500, 1000])
    expected_y = np.array([2, 2, 2, -2, 0, 0, 0, 0, 0])
    expected_mp = np.array([2, 2, 4, 2, 2, 2, 4, 2, 2])

    assert_array_equal(f.x, expected_x)
    assert_array_equal(f.y, expected_y)
    assert_array_equal(f.mp, expected_mp)

    # Averaging the profile should be the same as computing the synfire indicator directly.
    assert_almost_equal(f.avrg(), spk.spike_train_order([st1, st2, st3]))

    # We can also compute the synfire indicator from the Directionality Matrix:
    D_matrix = spk.spike_directionality_matrix([st1, st2, st3], normalize=False)
    num_spikes = sum(len(st) for st in [st1, st2, st3])
    syn_fire = np.sum(np.triu(D_matrix)) / num_spikes
    assert_almost_equal(f.avrg(), syn_fire)
