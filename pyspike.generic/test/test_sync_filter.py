""" test_sync_filter.py

Tests the spike sync based filtering

Copyright 2015, Mario Mulansky <mario.mulansky@gmx.net>

Distributed under the BSD License

"""

from __future__ import print_function
import numpy as np
from numpy.testing import assert_allclose, assert_almost_equal, \
    assert_array_almost_equal

import pyspike as spk
from pyspike import SpikeTrain


def test_single_prof():
    st1 = np.array([1.0, 2.0, 3.0, 4.0])
    st2 = np.array([1.1, 2.1, 3.8])
    st3 = np.array([0.9, 3.1, 4.1])

    # cython implementation
    try:
        from pyspike.cython.cython_profiles import \
            coincidence_single_profile_cython as coincidence_impl
    except ImportError:
        from pyspike.cython.python_backend import \
            coincidence_single_python as coincidence_impl

    sync_prof = spk.spike_sync_profile(SpikeTrain(st1, 5.0),
                                       SpikeTrain(st2, 5.0))

    coincidences = np.array(coincidence_impl(st1, st2, 0, 5.0, 0.0))
    print(coincidences)
    for i, t in enumerate(st1):
        assert_allclose(coincidences[i], sync_prof.y[sync_prof.x == t],
                     err_msg="At index %d" % i)

    coincidences = np.array(coincidence_impl(st2, st1, 0, 5.0, 0.0))
    for i, t in enumerate(st2):
        assert_allclose(coincidences[i], sync_prof.y[sync_prof.x == t],
                     err_msg="At index %d" % i)

    sync_prof = spk.spike_sync_profile(SpikeTrain(st1, 5.0),
                                       SpikeTrain(st3, 5.0))

    coincidences = np.array(coincidence_impl(st1, st3, 0, 5.0, 0.0))
    for i, t in enumerate(st1):
        assert_allclose(coincidences[i], sync_prof.y[sync_prof.x == t],
                     err_msg="At index %d" % i)

    st1 = np.array([1.0, 2.0, 3.0, 4.0])
    st2 = np.array([1.0, 2.0, 4.0])

    sync_prof = spk.spike_sync_profile(SpikeTrain(st1, 5.0),
                                       SpikeTrain(st2, 5.0))

    coincidences = np.array(coincidence_impl(st1, st2, 0, 5.0, 0.0))
    for i, t in enumerate(st1):
        expected = sync_prof.y[sync_prof.x == t]/sync_prof.mp[sync_prof.x == t]
        assert_allclose(coincidences[i], expected,
                     err_msg="At index %d" % i)


def test_filter():
    st1 = SpikeTrain(np.array([1.0, 2.0, 3.0, 4.0]), 5.0)
    st2 = SpikeTrain(np.array([1.1, 2.1, 3.8]), 5.0)
    st3 = SpikeTrain(np.array([0.9, 3.1, 4.1]), 5.0)

    # filtered_spike_trains = spk.filter_by_spike_sync([st1, st2], 0.5)

    # assert_allclose(filtered_spike_trains[0].spikes, [1.0, 2.0, 4.0])
    # assert_allclose(filtered_spike_trains[1].spikes, [1.1, 2.1, 3.8])

    # filtered_spike_trains = spk.filter_by_spike_sync([st2, st1], 0.5)

    # assert_allclose(filtered_spike_trains[0].spikes, [1.1, 2.1, 3.8])
    # assert_allclose(filtered_spike_trains[1].spikes, [1.0, 2.0, 4.0])

    filtered_spike_trains = spk.filter_by_spike_sync([st1, st2, st3], 0.75)

    for st in filtered_spike_trains:
        print(st.spikes)

    assert_allclose(filtered_spike_trains[0].spikes, [1.0, 4.0])
    assert_allclose(filtered_spike_trains[1].spikes, [1.1, 3.8])
    assert_allclose(filtered_spike_trains[2].spikes, [0.9, 4.1])


if __name__ == "__main__":
    test_single_prof()
    test_filter()
