""" test_empty.py

Tests the distance measure for empty spike trains

Copyright 2015, Mario Mulansky <mario.mulansky@gmx.net>

Distributed under the BSD License

"""

from __future__ import print_function
import numpy as np
from numpy.testing import assert_allclose, assert_almost_equal, \
    assert_array_equal, assert_array_almost_equal

import pyspike as spk
from pyspike import SpikeTrain


def test_get_non_empty():
    st = SpikeTrain([], edges=(0.0, 1.0))
    spikes = st.get_spikes_non_empty()
    assert_array_equal(spikes, [0.0, 1.0])

    st = SpikeTrain([0.5, ], edges=(0.0, 1.0))
    spikes = st.get_spikes_non_empty()
    # assert_array_equal(spikes, [0.0, 0.5, 1.0])
    # spike trains with one spike don't get edge spikes anymore
    assert_array_equal(spikes, [0.5, ])


def test_isi_empty():
    st1 = SpikeTrain([], edges=(0.0, 1.0))
    st2 = SpikeTrain([], edges=(0.0, 1.0))
    d = spk.isi_distance(st1, st2)
    assert_allclose(d, 0.0)
    prof = spk.isi_profile(st1, st2)
    assert_allclose(d, prof.avrg())
    assert_array_equal(prof.x, [0.0, 1.0])
    assert_array_equal(prof.y, [0.0, ])

    st1 = SpikeTrain([], edges=(0.0, 1.0))
    st2 = SpikeTrain([0.4, ], edges=(0.0, 1.0))
    d = spk.isi_distance(st1, st2)
    assert_allclose(d, 0.6*0.4+0.4*0.6)
    prof = spk.isi_profile(st1, st2)
    assert_allclose(d, prof.avrg())
    assert_array_equal(prof.x, [0.0, 0.4, 1.0])
    assert_array_equal(prof.y, [0.6, 0.4])

    st1 = SpikeTrain([0.6, ], edges=(0.0, 1.0))
    st2 = SpikeTrain([0.4, ], edges=(0.0, 1.0))
    d = spk.isi_distance(st1, st2)
    assert_almost_equal(d, 0.2/0.6*0.4 + 0.0 + 0.2/0.6*0.4, decimal=15)
    prof = spk.isi_profile(st1, st2)
    assert_allclose(d, prof.avrg())
    assert_array_almost_equal(prof.x, [0.0, 0.4, 0.6, 1.0], decimal=15)
    assert_array_almost_equal(prof.y, [0.2/0.6, 0.0, 0.2/0.6], decimal=15)


def test_spike_empty():
    st1 = SpikeTrain([], edges=(0.0, 1.0))
    st2 = SpikeTrain([], edges=(0.0, 1.0))
    d = spk.spike_distance(st1, st2)
    assert_allclose(d, 0.0)
    prof = spk.spike_profile(st1, st2)
    assert_allclose(d, prof.avrg())
    assert_array_equal(prof.x, [0.0, 1.0])
    assert_array_equal(prof.y1, [0.0, ])
    assert_array_equal(prof.y2, [0.0, ])

    st1 = SpikeTrain([], edges=(0.0, 1.0))
    st2 = SpikeTrain([0.4, ], edges=(0.0, 1.0))
    d = spk.spike_distance(st1, st2)
    d_expect = 2*0.4*0.4*1.0/(0.4+1.0)**2 + 2*0.6*0.4*1.0/(0.6+1.0)**2
    assert_almost_equal(d, d_expect, decimal=15)
    prof = spk.spike_profile(st1, st2)
    assert_allclose(d, prof.avrg())
    assert_array_equal(prof.x, [0.0, 0.4, 1.0])
    assert_array_almost_equal(prof.y1, [2*0.4*1.0/(0.4+1.0)**2,
                                        2*0.4*1.0/(0.6+1.0)**2],
                              decimal=15)
    assert_array_almost_equal(prof.y2, [2*0.4*1.0/(0.4+1.0)**2,
                                        2*0.4*1.0/(0.6+1.0)**2],
                              decimal=15)

    st1 = SpikeTrain([0.6, ], edges=(0.0, 1.0))
    st2 = SpikeTrain([0.4, ], edges=(0.0, 1.0))
    d = spk.spike_distance(st1, st2)
    s1 = np.array([0.2, 0.2, 0.2, 0.2])
    s2 = np.array([0.2, 0.2, 0.2, 0.2])
    isi1 = np.array([0.6, 0.6, 0.4])
    isi2 = np.array([0.4, 0.6, 0.6])
    expected_y1 = (s1[:-1]*isi2+s2[:-1]*isi1) / (0.5*(isi1+isi2)**2)
    expected_y2 = (s1[1:]*isi2+s2[1:]*isi1) / (0.5*(isi1+isi2)**2)
    expected_times = np.array([0.0, 0.4, 0.6, 1.0])
    expected_spike_val = sum((expected_times[1:] - expected_times[:-1]) *
                             (expected_y1+expected_y2)/2)
    expected_spike_val /= (expected_times[-1]-expected_times[0])

    assert_almost_equal(d, expected_spike_val, decimal=15)
    prof = spk.spike_profile(st1, st2)
    assert_allclose(d, prof.avrg())
    assert_array_almost_equal(prof.x, [0.0, 0.4, 0.6, 1.0], decimal=15)
    assert_array_almost_equal(prof.y1, expected_y1, decimal=15)
    assert_array_almost_equal(prof.y2, expected_y2, decimal=15)


def test_spike_sync_empty():
    st1 = SpikeTrain([], edges=(0.0, 1.0))
    st2 = SpikeTrain([], edges=(0.0, 1.0))
    d = spk.spike_sync(st1, st2)
    assert_allclose(d, 1.0)
    prof = spk.spike_sync_profile(st1, st2)
    assert_allclose(d, prof.avrg())
    assert_array_equal(prof.x, [0.0, 1.0])
    assert_array_equal(prof.y, [1.0, 1.0])

    st1 = SpikeTrain([], edges=(0.0, 1.0))
    st2 = SpikeTrain([0.4, ], edges=(0.0, 1.0))
    d = spk.spike_sync(st1, st2)
    assert_allclose(d, 0.0)
    prof = spk.spike_sync_profile(st1, st2)
    assert_allclose(d, prof.avrg())
    assert_array_equal(prof.x, [0.0, 0.4, 1.0])
    assert_array_equal(prof.y, [0.0, 0.0, 0.0])

    st1 = SpikeTrain([0.6, ], edges=(0.0, 1.0))
    st2 = SpikeTrain([0.4, ], edges=(0.0, 1.0))
    d = spk.spike_sync(st1, st2)
    assert_almost_equal(d, 1.0, decimal=15)
    prof = spk.spike_sync_profile(st1, st2)
    assert_allclose(d, prof.avrg())
    assert_array_almost_equal(prof.x, [0.0, 0.4, 0.6, 1.0], decimal=15)
    assert_array_almost_equal(prof.y, [1.0, 1.0, 1.0, 1.0], decimal=15)

    st1 = SpikeTrain([0.2, ], edges=(0.0, 1.0))
    st2 = SpikeTrain([0.8, ], edges=(0.0, 1.0))
    d = spk.spike_sync(st1, st2)
    assert_almost_equal(d, 0.0, decimal=15)
    prof = spk.spike_sync_profile(st1, st2)
    assert_allclose(d, prof.avrg())
    assert_array_almost_equal(prof.x, [0.0, 0.2, 0.8, 1.0], decimal=15)
    assert_array_almost_equal(prof.y, [0.0, 0.0, 0.0, 0.0], decimal=15)

    # test with empty intervals
    st1 = SpikeTrain([2.0, 5.0], [0, 10.0])
    st2 = SpikeTrain([2.1, 7.0], [0, 10.0])
    st3 = SpikeTrain([5.1, 6.0], [0, 10.0])
    res = spk.spike_sync_profile(st1, st2).avrg(interval=[3.0, 4.0])
    assert_allclose(res, 1.0)
    res = spk.spike_sync(st1, st2, interval=[3.0, 4.0])
    assert_allclose(res, 1.0)

    sync_matrix = spk.spike_sync_matrix([st1, st2, st3], interval=[3.0, 4.0])
    assert_array_equal(sync_matrix, np.ones((3, 3)))


if __name__ == "__main__":
    test_get_non_empty()
    test_isi_empty()
    test_spike_empty()
    test_spike_sync_empty()
