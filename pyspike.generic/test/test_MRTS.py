""" test_MRTS.py

Tests the MRTS logic in all distances
Also, test automatic generation of the threshold

Copyright 2023, Thomas Kreuz
Distributed under the BSD License
"""
import numpy as np
import pyspike as spk
from pyspike import SpikeTrain
from pyspike.isi_lengths import default_thresh

def test_MRTS():
    """ single testcase for all 4 algorithms changing MRTS:
    """
    v1 = [12.0000, 16.0000, 28.0000, 32.0000, 44.0000, 48.0000, 60.0000, 64.0000, 76.0000, 80.0000, ];
    v2 = [7.5376, 19.9131, 24.2137, 35.7255, 40.0961, 51.7076, 55.9124, 68.1017, 71.9863, 83.5994, ];
    edges=[0, 300]
    max_tau=1000

    sp1 = spk.SpikeTrain(v1, edges)
    sp2 = spk.SpikeTrain(v2, edges)

    ## SPIKE-SYNC
    Results1 = {14:0., 15:.3, 16:.6, 17:.9, 18:1.}
    for r in Results1:
        c = spk.spike_sync(sp1, sp2, MRTS=r)
        np.testing.assert_almost_equal(c, Results1[r])

    ## SPIKE
    Results2 = {
        0 : 0.12095,
        1 : 0.12095,
        2 : 0.12095,
        3 : 0.12095,
        4 : 0.12095,
        5 : 0.12095,
        6 : 0.12095,
        7 : 0.12095,
        8 : 0.12039,
        9 : 0.11434,
        10 : 0.10900,
        11 : 0.10464,
        12 : 0.10064,
        13 : 0.09418,
        14 : 0.08833,
        15 : 0.08326,
        16 : 0.07882,
        17 : 0.07491,
        18 : 0.07143,
        19 : 0.06832,
        20 : 0.06551,
        21 : 0.06298,
        22 : 0.06067,
        23 : 0.05857,
        24 : 0.05664,
        25 : 0.05487,
        26 : 0.05323,
        27 : 0.05171,
        28 : 0.05030,
        29 : 0.04899,
        30 : 0.04777,
        31 : 0.04662,
        32 : 0.04555,
        33 : 0.04454,
        34 : 0.04359,
        35 : 0.04270,
        36 : 0.04185,
        37 : 0.04105,
        38 : 0.04030,
        39 : 0.03958,
        40 : 0.03890,
        41 : 0.03825,
        42 : 0.03763,
        43 : 0.03704,
        44 : 0.03648,
        45 : 0.03594,
        46 : 0.03542,
        47 : 0.03493,
        48 : 0.03446,
        49 : 0.03401,
        50 : 0.03357,
    }
    for r in Results2:
        d = spk.spike_distance(sp1, sp2, MRTS=r)
        np.testing.assert_almost_equal(d, Results2[r], decimal=5)


    ## RI
    Results3 = {
        0 : 0.12094,
        1 : 0.12094,
        2 : 0.12094,
        3 : 0.12094,
        4 : 0.12094,
        5 : 0.12094,
        6 : 0.12094,
        7 : 0.12094,
        8 : 0.12038,
        9 : 0.11432,
        10 : 0.10899,
        11 : 0.10463,
        12 : 0.10063,
        13 : 0.09417,
        14 : 0.08832,
        15 : 0.08325,
        16 : 0.07882,
        17 : 0.07490,
        18 : 0.07142,
        19 : 0.06831,
        20 : 0.06551,
        21 : 0.06297,
        22 : 0.06067,
        23 : 0.05856,
        24 : 0.05664,
        25 : 0.05486,
        26 : 0.05322,
        27 : 0.05171,
        28 : 0.05030,
        29 : 0.04899,
        30 : 0.04776,
        31 : 0.04662,
        32 : 0.04555,
        33 : 0.04454,
        34 : 0.04359,
        35 : 0.04269,
        36 : 0.04185,
        37 : 0.04105,
        38 : 0.04029,
        39 : 0.03957,
        40 : 0.03889,
        41 : 0.03824,
        42 : 0.03762,
        43 : 0.03703,
        44 : 0.03647,
        45 : 0.03593,
        46 : 0.03542,
        47 : 0.03493,
        48 : 0.03446,
        49 : 0.03400,
        50 : 0.03357,
    }

    for r in Results3:
        d = spk.spike_distance(sp1, sp2, MRTS=r, RI=True)
        #print('%d : %.5f,'%(r, d))
        np.testing.assert_almost_equal(d, Results3[r], decimal=5)

    ## ISI
    Results4 = {
        0 : 0.10796,
        1 : 0.10796,
        2 : 0.10796,
        3 : 0.10796,
        4 : 0.10796,
        5 : 0.10796,
        6 : 0.10796,
        7 : 0.10796,
        8 : 0.10796,
        9 : 0.10796,
        10 : 0.10796,
        11 : 0.10796,
        12 : 0.10704,
        13 : 0.10103,
        14 : 0.09547,
        15 : 0.09065,
        16 : 0.08643,
        17 : 0.08271,
        18 : 0.07940,
        19 : 0.07644,
        20 : 0.07378,
        21 : 0.07137,
        22 : 0.06918,
        23 : 0.06718,
        24 : 0.06534,
        25 : 0.06366,
        26 : 0.06210,
        27 : 0.06066,
        28 : 0.05932,
        29 : 0.05807,
        30 : 0.05691,
        31 : 0.05582,
        32 : 0.05480,
        33 : 0.05384,
        34 : 0.05294,
        35 : 0.05209,
        36 : 0.05128,
        37 : 0.05052,
        38 : 0.04980,
        39 : 0.04912,
        40 : 0.04847,
        41 : 0.04785,
        42 : 0.04727,
        43 : 0.04671,
        44 : 0.04617,
        45 : 0.04566,
        46 : 0.04517,
        47 : 0.04470,
        48 : 0.04425,
        49 : 0.04382,
        50 : 0.04341,    
    }    

    for r in Results4:
        d = spk.isi_distance(sp1, sp2, MRTS=r)
        np.testing.assert_almost_equal(d, Results4[r], decimal=5)

    print('OK1')

def test_autoThresh():
    """ Automatic determination of MRTS
    """
    edges = [0, 1000]
    spikes1 = SpikeTrain([64.88600, 305.81000, 696.00000, 800.0000], edges)
    spikes2 = SpikeTrain([67.88600, 302.81000, 699.00000], edges)
    spikes3 = SpikeTrain([164.88600, 205.81000, 796.00000, 900.0000], edges)
    spikes4 = SpikeTrain([263.76400, 418.45000, 997.48000], edges)
    spike_train_list = [spikes1, spikes2, spikes3, spikes4]

    Thresh = default_thresh(spike_train_list)
    print('default_thresh got %.4f'%Thresh)
    np.testing.assert_almost_equal(Thresh, 325.4342, decimal=4, err_msg="default_thresh")

    c1 = spk.spike_sync(spikes1, spikes2, MRTS=Thresh)
    c2 = spk.spike_sync(spikes1, spikes2, MRTS='auto')
    np.testing.assert_almost_equal(c1, c2, err_msg="spike_sync")

    # apply it to the first example avove
    v1 = [12.0000, 16.0000, 28.0000, 32.0000, 44.0000, 48.0000, 60.0000, 64.0000, 76.0000, 80.0000, ];
    v2 = [7.5376, 19.9131, 24.2137, 35.7255, 40.0961, 51.7076, 55.9124, 68.1017, 71.9863, 83.5994, ];
    edges=[0, 300]

    sp1 = spk.SpikeTrain(v1, edges)
    sp2 = spk.SpikeTrain(v2, edges)

    t = default_thresh([sp1, sp2])
    ## Look at all 4 algorithms

    c1 = spk.spike_sync(sp1, sp2, MRTS=t)
    c2 = spk.spike_sync(sp1, sp2, MRTS='auto')
    np.testing.assert_almost_equal(c1, c2, err_msg="spike_sync2")
    print('SS thresh %.3f, results %.3f'%(t,c1))
    # compare with: {14:0., 15:.3, 16:.6, 17:.9, 18:1.}

    c1 = spk.spike_distance(sp1, sp2, MRTS=t)
    c2 = spk.spike_distance(sp1, sp2, MRTS='auto')
    np.testing.assert_almost_equal(c1, c2, err_msg="spike_distance")

    c1 = spk.spike_distance(sp1, sp2, MRTS=t, RI=True)
    c2 = spk.spike_distance(sp1, sp2, MRTS='auto', RI=True)
    np.testing.assert_almost_equal(c1, c2, err_msg="RI")

    c1 = spk.isi_distance(sp1, sp2, MRTS=t)
    c2 = spk.isi_distance(sp1, sp2, MRTS='auto')
    np.testing.assert_almost_equal(c1, c2, err_msg="ISI")

    c1 = spk.spike_directionality(sp1, sp2, MRTS=t)
    c2 = spk.spike_directionality(sp1, sp2, MRTS='auto')
    np.testing.assert_almost_equal(c1, c2, err_msg="directionality")

    print('OK2')

if __name__ == "__main__":
    test_MRTS()
    test_autoThresh()