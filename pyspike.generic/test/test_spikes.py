""" test_load.py

Test loading of spike trains from text files

Copyright 2014, Mario Mulansky <mario.mulansky@gmx.net>

Distributed under the BSD License
"""

from __future__ import print_function
import numpy as np
from numpy.testing import assert_allclose

import pyspike as spk

import os
TEST_PATH = os.path.dirname(os.path.realpath(__file__))
TEST_DATA = os.path.join(TEST_PATH, "PySpike_testdata.txt")

TIME_SERIES_DATA = os.path.join(TEST_PATH, "time_series.txt")
TIME_SERIES_SPIKES = os.path.join(TEST_PATH, "time_series_spike_trains.txt")


def test_load_from_txt():
    spike_trains = spk.load_spike_trains_from_txt(TEST_DATA, edges=(0, 4000))
    assert len(spike_trains) == 40

    # check the first spike train
    spike_times = [64.886, 305.81, 696, 937.77, 1059.7, 1322.2, 1576.1,
                   1808.1, 2121.5, 2381.1, 2728.6, 2966.9, 3223.7, 3473.7,
                   3644.3, 3936.3]
    assert_allclose(spike_times, spike_trains[0].spikes)

    # check auxiliary spikes
    for spike_train in spike_trains:
        assert spike_train.t_start == 0.0
        assert spike_train.t_end == 4000


def test_load_time_series():
    spike_trains = spk.import_spike_trains_from_time_series(TIME_SERIES_DATA,
                                                            start_time=0,
                                                            time_bin=1)
    assert len(spike_trains) == 40
    spike_trains_check = spk.load_spike_trains_from_txt(TIME_SERIES_SPIKES,
                                                        edges=(0, 4000))

    # check spike trains
    for n in range(len(spike_trains)):
        assert_allclose(spike_trains[n].spikes, spike_trains_check[n].spikes)
        assert_allclose(spike_trains[n].t_start, 0)
        assert_allclose(spike_trains[n].t_end, 4000)


def check_merged_spikes(merged_spikes, spike_trains):
    # create a flat array with all spike events
    all_spikes = np.array([])
    for spike_train in spike_trains:
        all_spikes = np.append(all_spikes, spike_train)
    indices = np.zeros_like(all_spikes, dtype='bool')
    # check if we find all the spike events in the original spike trains
    for x in merged_spikes:
        i = np.where(all_spikes == x)[0][0]  # first axis and first entry
        # change to something impossible so we dont find this event again
        all_spikes[i] = -1.0
        indices[i] = True
    assert indices.all()


def test_merge_spike_trains():
    # first load the data
    spike_trains = spk.load_spike_trains_from_txt(TEST_DATA, edges=(0, 4000))

    merged_spikes = spk.merge_spike_trains([spike_trains[0], spike_trains[1]])
    # test if result is sorted
    assert((merged_spikes.spikes == np.sort(merged_spikes.spikes)).all())
    # check merging
    check_merged_spikes(merged_spikes.spikes, [spike_trains[0].spikes,
                                               spike_trains[1].spikes])

    merged_spikes = spk.merge_spike_trains(spike_trains)
    # test if result is sorted
    assert((merged_spikes.spikes == np.sort(merged_spikes.spikes)).all())
    # check merging
    check_merged_spikes(merged_spikes.spikes,
                        [st.spikes for st in spike_trains])

def test_merge_empty_spike_trains():
    # first load the data
    spike_trains = spk.load_spike_trains_from_txt(TEST_DATA, edges=(0, 4000))
    # take two non-empty trains, and one empty one
    empty = spk.SpikeTrain([],[spike_trains[0].t_start,spike_trains[0].t_end])
    merged_spikes = spk.merge_spike_trains([spike_trains[0], empty, spike_trains[1]])
    # test if result is sorted
    assert((merged_spikes.spikes == np.sort(merged_spikes.spikes)).all())
    # we don't need to check more, that's done by test_merge_spike_trains


if __name__ == "__main__":
    test_load_from_txt()
    test_merge_spike_trains()
