""" test_distance.py

Tests the isi- and spike-distance computation

Copyright 2014, Mario Mulansky <mario.mulansky@gmx.net>

Distributed under the BSD License

"""

from __future__ import print_function
import numpy as np
from copy import copy
from numpy.testing import assert_allclose, assert_almost_equal, \
    assert_array_almost_equal

import pyspike as spk
from pyspike import SpikeTrain

import os
TEST_PATH = os.path.dirname(os.path.realpath(__file__))


def test_isi():
    # generate two spike trains:
    t1 = SpikeTrain([0.2, 0.4, 0.6, 0.7], 1.0)
    t2 = SpikeTrain([0.3, 0.45, 0.8, 0.9, 0.95], 1.0)

    # pen&paper calculation of the isi distance
    expected_times = [0.0, 0.2, 0.3, 0.4, 0.45, 0.6, 0.7, 0.8, 0.9, 0.95, 1.0]
    expected_isi = [0.1/0.3, 0.1/0.3, 0.05/0.2, 0.05/0.2, 0.15/0.35,
                    0.25/0.35, 0.05/0.35, 0.2/0.3, 0.25/0.3, 0.25/0.3]
    expected_times = np.array(expected_times)
    expected_isi = np.array(expected_isi)

    expected_isi_val = sum((expected_times[1:] - expected_times[:-1]) *
                           expected_isi)/(expected_times[-1]-expected_times[0])

    f = spk.isi_profile(t1, t2)

    # print("ISI: ", f.y)
    print("ISI value:", expected_isi_val)

    assert_allclose(f.x, expected_times)
    assert_array_almost_equal(f.y, expected_isi, decimal=15)
    assert_allclose(f.avrg(), expected_isi_val)
    assert_allclose(spk.isi_distance(t1, t2), expected_isi_val)

    # check with some equal spike times
    t1 = SpikeTrain([0.2, 0.4, 0.6], [0.0, 1.0])
    t2 = SpikeTrain([0.1, 0.4, 0.5, 0.6], [0.0, 1.0])

    expected_times = [0.0, 0.1, 0.2, 0.4, 0.5, 0.6, 1.0]
    expected_isi = [0.1/0.3, 0.1/0.3, 0.1/0.3, 0.1/0.2, 0.1/0.2, 0.0/0.5]
    expected_times = np.array(expected_times)
    expected_isi = np.array(expected_isi)

    expected_isi_val = sum((expected_times[1:] - expected_times[:-1]) *
                           expected_isi)/(expected_times[-1]-expected_times[0])

    f = spk.isi_profile(t1, t2)

    assert_allclose(f.x, expected_times)
    assert_array_almost_equal(f.y, expected_isi, decimal=15)
    assert_allclose(f.avrg(), expected_isi_val)
    assert_allclose(spk.isi_distance(t1, t2), expected_isi_val)


def test_spike():
    # generate two spike trains:
    t1 = SpikeTrain([0.0, 2.0, 5.0, 8.0], 10.0)
    t2 = SpikeTrain([0.0, 1.0, 5.0, 9.0], 10.0)

    expected_times = np.array([0.0, 1.0, 2.0, 5.0, 8.0, 9.0, 10.0])

    f = spk.spike_profile(t1, t2)

    assert_allclose(f.x, expected_times)

    # from SPIKY:
    y_all = np.array([0.000000000000000000, 0.555555555555555580,
                      0.222222222222222210, 0.305555555555555580,
                      0.255102040816326536, 0.000000000000000000,
                      0.000000000000000000, 0.255102040816326536,
                      0.255102040816326536, 0.285714285714285698,
                      0.285714285714285698, 0.285714285714285698])

    #assert_array_almost_equal(f.y1, y_all[::2])
    assert_array_almost_equal(f.y2, y_all[1::2])

    assert_almost_equal(f.avrg(), 0.186309523809523814, decimal=15)
    assert_allclose(spk.spike_distance(t1, t2), f.avrg())

    t1 = SpikeTrain([0.2, 0.4, 0.6, 0.7], 1.0)
    t2 = SpikeTrain([0.3, 0.45, 0.8, 0.9, 0.95], 1.0)

    # pen&paper calculation of the spike distance
    expected_times = [0.0, 0.2, 0.3, 0.4, 0.45, 0.6, 0.7, 0.8, 0.9, 0.95, 1.0]
    s1 = np.array([0.1, 0.1, (0.1*0.1+0.05*0.1)/0.2, 0.05, (0.05*0.15 * 2)/0.2,
                   0.15, 0.1, (0.1*0.1+0.1*0.2)/0.3, (0.1*0.2+0.1*0.1)/0.3,
                   (0.1*0.05+0.1*0.25)/0.3, 0.1])
    s2 = np.array([0.1, (0.1*0.2+0.1*0.1)/0.3, 0.1, (0.1*0.05 * 2)/.15, 0.05,
                   (0.05*0.2+0.1*0.15)/0.35, (0.05*0.1+0.1*0.25)/0.35,
                   0.1, 0.1, 0.05, 0.05])
    isi1 = np.array([0.2, 0.2, 0.2, 0.2, 0.2, 0.1, 0.3, 0.3, 0.3, 0.3])
    isi2 = np.array([0.3, 0.3, 0.15, 0.15, 0.35, 0.35, 0.35, 0.1, 0.05, 0.05])
    expected_y1 = (s1[:-1]*isi2+s2[:-1]*isi1) / (0.5*(isi1+isi2)**2)
    expected_y2 = (s1[1:]*isi2+s2[1:]*isi1) / (0.5*(isi1+isi2)**2)

    expected_times = np.array(expected_times)
    expected_y1 = np.array(expected_y1)
    expected_y2 = np.array(expected_y2)
    expected_spike_val = sum((expected_times[1:] - expected_times[:-1]) *
                             (expected_y1+expected_y2)/2)
    expected_spike_val /= (expected_times[-1]-expected_times[0])

    print("SPIKE value:", expected_spike_val)

    f = spk.spike_profile(t1, t2)

    assert_allclose(f.x, expected_times)
    assert_array_almost_equal(f.y1, expected_y1, decimal=15)
    assert_array_almost_equal(f.y2, expected_y2, decimal=15)
    assert_almost_equal(f.avrg(), expected_spike_val, decimal=15)
    assert_almost_equal(spk.spike_distance(t1, t2), expected_spike_val,
                        decimal=15)

    # check with some equal spike times
    t1 = SpikeTrain([0.2, 0.4, 0.6], [0.0, 1.0])
    t2 = SpikeTrain([0.1, 0.4, 0.5, 0.6], [0.0, 1.0])

    expected_times = [0.0, 0.1, 0.2, 0.4, 0.5, 0.6, 1.0]
    # due to the edge correction in the beginning, s1 and s2 are different
    # for left and right values
    s1_r = np.array([0.1, (0.1*0.1+0.1*0.1)/0.2, 0.1, 0.0, 0.0, 0.0, 0.0])
    s1_l = np.array([0.1, (0.1*0.1+0.1*0.1)/0.2, 0.1, 0.0, 0.0, 0.0, 0.0])
    # s2_r = np.array([0.1*0.1/0.3, 0.1*0.3/0.3, 0.1*0.2/0.3,
    #                  0.0, 0.1, 0.0, 0.0])
    # s2_l = np.array([0.1*0.1/0.3, 0.1*0.1/0.3, 0.1*0.2/0.3, 0.0,
    #                  0.1, 0.0, 0.0])
    # eero's edge correction:
    s2_r = np.array([0.1, 0.1*0.3/0.3, 0.1*0.2/0.3,
                     0.0, 0.1, 0.0, 0.0])
    s2_l = np.array([0.1, 0.1*0.3/0.3, 0.1*0.2/0.3, 0.0,
                     0.1, 0.0, 0.0])
    isi1 = np.array([0.2, 0.2, 0.2, 0.2, 0.2, 0.4])
    isi2 = np.array([0.3, 0.3, 0.3, 0.1, 0.1, 0.4])
    expected_y1 = (s1_r[:-1]*isi2+s2_r[:-1]*isi1) / (0.5*(isi1+isi2)**2)
    expected_y2 = (s1_l[1:]*isi2+s2_l[1:]*isi1) / (0.5*(isi1+isi2)**2)

    expected_times = np.array(expected_times)
    expected_y1 = np.array(expected_y1)
    expected_y2 = np.array(expected_y2)
    expected_spike_val = sum((expected_times[1:] - expected_times[:-1]) *
                             (expected_y1+expected_y2)/2)
    expected_spike_val /= (expected_times[-1]-expected_times[0])

    f = spk.spike_profile(t1, t2)

    assert_allclose(f.x, expected_times)
    assert_array_almost_equal(f.y1, expected_y1, decimal=14)
    assert_array_almost_equal(f.y2, expected_y2, decimal=14)
    assert_almost_equal(f.avrg(), expected_spike_val, decimal=16)
    assert_almost_equal(spk.spike_distance(t1, t2), expected_spike_val,
                        decimal=16)


def test_spike_sync():
    spikes1 = SpikeTrain([1.0, 2.0, 3.0], 4.0)
    spikes2 = SpikeTrain([2.1], 4.0)

    expected_x = np.array([0.0, 1.0, 2.0, 2.1, 3.0, 4.0])
    expected_y = np.array([0.0, 0.0, 1.0, 1.0, 0.0, 0.0])

    f = spk.spike_sync_profile(spikes1, spikes2)

    assert_array_almost_equal(f.x, expected_x, decimal=16)
    assert_array_almost_equal(f.y, expected_y, decimal=16)

    assert_almost_equal(spk.spike_sync(spikes1, spikes2),
                        0.5, decimal=16)

    # test with some small max_tau, spike_sync should be 0
    assert_almost_equal(spk.spike_sync(spikes1, spikes2, max_tau=0.05),
                        0.0, decimal=16)

    spikes2 = SpikeTrain([3.1], 4.0)
    assert_almost_equal(spk.spike_sync(spikes1, spikes2),
                        0.5, decimal=16)

    spikes2 = SpikeTrain([1.1], 4.0)

    expected_x = np.array([0.0, 1.0, 1.1, 2.0, 3.0, 4.0])
    expected_y = np.array([1.0, 1.0, 1.0, 0.0, 0.0, 0.0])

    f = spk.spike_sync_profile(spikes1, spikes2)

    assert_array_almost_equal(f.x, expected_x, decimal=16)
    assert_array_almost_equal(f.y, expected_y, decimal=16)

    assert_almost_equal(spk.spike_sync(spikes1, spikes2),
                        0.5, decimal=16)

    spikes2 = SpikeTrain([0.9], 4.0)
    assert_almost_equal(spk.spike_sync(spikes1, spikes2),
                        0.5, decimal=16)

    spikes2 = SpikeTrain([3.0], 4.0)
    assert_almost_equal(spk.spike_sync(spikes1, spikes2),
                        0.5, decimal=16)

    spikes2 = SpikeTrain([1.0], 4.0)
    assert_almost_equal(spk.spike_sync(spikes1, spikes2),
                        0.5, decimal=16)

    spikes2 = SpikeTrain([1.5, 3.0], 4.0)
    assert_almost_equal(spk.spike_sync(spikes1, spikes2),
                        0.4, decimal=16)

    spikes1 = SpikeTrain([1.0, 2.0, 4.0], 4.0)
    spikes2 = SpikeTrain([3.8], 4.0)
    spikes3 = SpikeTrain([3.9, ], 4.0)

    expected_x = np.array([0.0, 1.0, 2.0, 3.8, 4.0, 4.0])
    expected_y = np.array([0.0, 0.0, 0.0, 1.0, 1.0, 1.0])

    f = spk.spike_sync_profile(spikes1, spikes2)

    assert_array_almost_equal(f.x, expected_x, decimal=16)
    assert_array_almost_equal(f.y, expected_y, decimal=16)

    f2 = spk.spike_sync_profile(spikes2, spikes3)

    i1 = f.integral()
    i2 = f2.integral()
    f.add(f2)
    i12 = f.integral()

    assert_allclose(i1[0]+i2[0], i12[0])
    assert_allclose(i1[1]+i2[1], i12[1])


def check_multi_profile(profile_func, profile_func_multi, dist_func_multi):
    # generate spike trains:
    t1 = SpikeTrain([0.2, 0.4, 0.6, 0.7], 1.0)
    t2 = SpikeTrain([0.3, 0.45, 0.8, 0.9, 0.95], 1.0)
    t3 = SpikeTrain([0.2, 0.4, 0.6], 1.0)
    t4 = SpikeTrain([0.1, 0.4, 0.5, 0.6], 1.0)
    spike_trains = [t1, t2, t3, t4]

    f12 = profile_func(t1, t2)
    f13 = profile_func(t1, t3)
    f14 = profile_func(t1, t4)
    f23 = profile_func(t2, t3)
    f24 = profile_func(t2, t4)
    f34 = profile_func(t3, t4)

    f_multi = profile_func_multi(spike_trains, [0, 1])
    assert f_multi.almost_equal(f12, decimal=14)
    d = dist_func_multi(spike_trains, [0, 1])
    assert_allclose(f_multi.avrg(), d)

    f_multi1 = profile_func_multi(spike_trains, [1, 2, 3])
    f_multi2 = profile_func_multi(spike_trains[1:])
    assert f_multi1.almost_equal(f_multi2, decimal=14)
    d = dist_func_multi(spike_trains, [1, 2, 3])
    assert_almost_equal(f_multi1.avrg(), d, decimal=14)

    f = copy(f12)
    f.add(f13)
    f.add(f23)
    f.mul_scalar(1.0/3)
    f_multi = profile_func_multi(spike_trains, [0, 1, 2])
    assert f_multi.almost_equal(f, decimal=14)
    d = dist_func_multi(spike_trains, [0, 1, 2])
    assert_almost_equal(f_multi.avrg(), d, decimal=14)

    f.mul_scalar(3)  # revert above normalization
    f.add(f14)
    f.add(f24)
    f.add(f34)
    f.mul_scalar(1.0/6)
    f_multi = profile_func_multi(spike_trains)
    assert f_multi.almost_equal(f, decimal=14)


def test_multi_isi():
    check_multi_profile(spk.isi_profile, spk.isi_profile_multi,
                        spk.isi_distance_multi)


def test_multi_spike():
    check_multi_profile(spk.spike_profile, spk.spike_profile_multi,
                        spk.spike_distance_multi)


def test_multi_spike_sync():
    # some basic multivariate check
    spikes1 = SpikeTrain([100, 300, 400, 405, 410, 500, 700, 800,
                          805, 810, 815, 900], 1000)
    spikes2 = SpikeTrain([100, 200, 205, 210, 295, 350, 400, 510,
                          600, 605, 700, 910], 1000)
    spikes3 = SpikeTrain([100, 180, 198, 295, 412, 420, 510, 640,
                          695, 795, 820, 920], 1000)
    assert_almost_equal(spk.spike_sync(spikes1, spikes2),
                        0.5, decimal=15)
    assert_almost_equal(spk.spike_sync(spikes1, spikes3),
                        0.5, decimal=15)
    assert_almost_equal(spk.spike_sync(spikes2, spikes3),
                        0.5, decimal=15)

    f = spk.spike_sync_profile_multi([spikes1, spikes2, spikes3])
    # hands on definition of the average multivariate spike synchronization
    # expected = (f1.integral() + f2.integral() + f3.integral()) / \
    #            (np.sum(f1.mp[1:-1])+np.sum(f2.mp[1:-1])+np.sum(f3.mp[1:-1]))
    expected = 0.5
    assert_almost_equal(f.avrg(), expected, decimal=15)
    assert_almost_equal(spk.spike_sync_multi([spikes1, spikes2, spikes3]),
                        expected, decimal=15)

    # multivariate regression test
    spike_trains = spk.load_spike_trains_from_txt(
        os.path.join(TEST_PATH, "SPIKE_Sync_Test.txt"), edges=[0, 4000])
    # extract all spike times
    spike_times = np.array([])
    for st in spike_trains:
        spike_times = np.append(spike_times, st.spikes)
    spike_times = np.unique(np.sort(spike_times))

    f = spk.spike_sync_profile_multi(spike_trains)

    assert_allclose(spike_times, f.x[1:-1])
    assert_allclose(len(f.x), len(f.y))

    assert_allclose(np.sum(f.y[1:-1]), 39932)
    assert_allclose(np.sum(f.mp[1:-1]), 85554)

    # example with 2 empty spike trains
    sts = []
    sts.append(SpikeTrain([1, 9], [0, 10]))
    sts.append(SpikeTrain([1, 3], [0, 10]))
    sts.append(SpikeTrain([], [0, 10]))
    sts.append(SpikeTrain([], [0, 10]))

    assert_almost_equal(spk.spike_sync_multi(sts), 1.0/6.0, decimal=15)
    assert_almost_equal(spk.spike_sync_profile_multi(sts).avrg(), 1.0/6.0,
                        decimal=15)


def check_dist_matrix(dist_func, dist_matrix_func, Diagonal=0.):
    # generate spike trains:
    t1 = SpikeTrain([0.2, 0.4, 0.6, 0.7], 1.0)
    t2 = SpikeTrain([0.3, 0.45, 0.8, 0.9, 0.95], 1.0)
    t3 = SpikeTrain([0.2, 0.4, 0.6], 1.0)
    t4 = SpikeTrain([0.1, 0.4, 0.5, 0.6], 1.0)
    spike_trains = [t1, t2, t3, t4]

    f12 = dist_func(t1, t2)
    f13 = dist_func(t1, t3)
    f14 = dist_func(t1, t4)
    f23 = dist_func(t2, t3)
    f24 = dist_func(t2, t4)
    f34 = dist_func(t3, t4)

    f_matrix = dist_matrix_func(spike_trains)
    # check diagonal
    for i in range(4):
        assert_allclose(Diagonal, f_matrix[i, i])
    for i in range(4):
        for j in range(i+1, 4):
            assert_allclose(f_matrix[i, j], f_matrix[j, i])
    assert_allclose(f12, f_matrix[1, 0])
    assert_allclose(f13, f_matrix[2, 0])
    assert_allclose(f14, f_matrix[3, 0])
    assert_allclose(f23, f_matrix[2, 1])
    assert_allclose(f24, f_matrix[3, 1])
    assert_allclose(f34, f_matrix[3, 2])


def test_isi_matrix():
    check_dist_matrix(spk.isi_distance, spk.isi_distance_matrix)


def test_spike_matrix():
    check_dist_matrix(spk.spike_distance, spk.spike_distance_matrix)


def test_spike_sync_matrix():
    check_dist_matrix(spk.spike_sync, spk.spike_sync_matrix, Diagonal=1.)


def test_regression_spiky():
    # standard example
    st1 = SpikeTrain(np.arange(100, 1201, 100), 1300)
    st2 = SpikeTrain(np.arange(100, 1201, 110), 1300)

    isi_dist = spk.isi_distance(st1, st2)
    assert_almost_equal(isi_dist, 9.0909090909090939e-02, decimal=15)
    isi_profile = spk.isi_profile(st1, st2)
    assert_allclose(isi_profile.y, 0.1/1.1 * np.ones_like(isi_profile.y))

    spike_dist = spk.spike_distance(st1, st2)
    assert_allclose(spike_dist, 0.211058782487353908)

    spike_sync = spk.spike_sync(st1, st2)
    assert_allclose(spike_sync, 8.6956521739130432e-01)

    # multivariate check

    spike_trains = spk.load_spike_trains_from_txt(
        os.path.join(TEST_PATH, "PySpike_testdata.txt"), (0.0, 4000.0))
    isi_dist = spk.isi_distance_multi(spike_trains)
    # get the full precision from SPIKY
    assert_almost_equal(isi_dist, 0.17051816816999129656, decimal=15)

    spike_profile = spk.spike_profile_multi(spike_trains)
    assert_allclose(len(spike_profile.y1)+len(spike_profile.y2), 1252)

    spike_dist = spk.spike_distance_multi(spike_trains)
    # get the full precision from SPIKY
    assert_almost_equal(spike_dist, 0.25188056475463755, decimal=15)

    spike_sync = spk.spike_sync_multi(spike_trains)
    # get the full precision from SPIKY
    assert_allclose(spike_sync, 0.7183531505298066)

    # Eero's edge correction example
    st1 = SpikeTrain([0.5, 1.5, 2.5], 6.0)
    st2 = SpikeTrain([3.5, 4.5, 5.5], 6.0)

    f = spk.spike_profile(st1, st2)

    expected_times = np.array([0.0, 0.5, 1.5, 2.5, 3.5, 4.5, 5.5, 6.0])
    y_all = np.array([0.271604938271605, 0.271604938271605, 0.271604938271605,
                      0.617283950617284, 0.617283950617284, 0.444444444444444,
                      0.285714285714286, 0.285714285714286, 0.444444444444444,
                      0.617283950617284, 0.617283950617284, 0.271604938271605,
                      0.271604938271605, 0.271604938271605])
    expected_y1 = y_all[::2]
    expected_y2 = y_all[1::2]

    assert_allclose(f.x, expected_times)
    assert_array_almost_equal(f.y1, expected_y1, decimal=14)
    assert_array_almost_equal(f.y2, expected_y2, decimal=14)


def test_multi_variate_subsets():
    spike_trains = spk.load_spike_trains_from_txt(
        os.path.join(TEST_PATH, "PySpike_testdata.txt"), (0.0, 4000.0))
    sub_set = [1, 3, 5, 7]
    spike_trains_sub_set = [spike_trains[i] for i in sub_set]

    v1 = spk.isi_distance_multi(spike_trains_sub_set)
    v2 = spk.isi_distance_multi(spike_trains, sub_set)
    assert_allclose(v1, v2)

    v1 = spk.spike_distance_multi(spike_trains_sub_set)
    v2 = spk.spike_distance_multi(spike_trains, sub_set)
    assert_allclose(v1, v2)

    v1 = spk.spike_sync_multi(spike_trains_sub_set)
    v2 = spk.spike_sync_multi(spike_trains, sub_set)
    assert_allclose(v1, v2)


if __name__ == "__main__":
    test_isi()
    test_spike()
    test_spike_sync()
    test_multi_isi()
    test_multi_spike()
    test_multi_spike_sync()
    test_isi_matrix()
    test_spike_matrix()
    test_spike_sync_matrix()
    test_regression_spiky()
    test_multi_variate_subsets()
