""" test_function.py

Tests the PieceWiseConst and PieceWiseLinear functions

Copyright 2014, Mario Mulansky <mario.mulansky@gmx.net>

Distributed under the BSD License
"""

from __future__ import print_function
import numpy as np
from copy import copy
import pytest
from numpy.testing import assert_allclose, assert_almost_equal, \
    assert_array_equal, assert_array_almost_equal

import pyspike as spk


def test_pwc():
    # some random data
    x = [0.0, 1.0, 2.0, 2.5, 4.0]
    y = [1.0, -0.5, 1.5, 0.75]
    f = spk.PieceWiseConstFunc(x, y)

    # function values
    assert_allclose(f(0.0), 1.0)
    assert_allclose(f(0.5), 1.0)
    assert_allclose(f(1.0), 0.25)
    assert_allclose(f(2.0), 0.5)
    assert_allclose(f(2.25), 1.5)
    assert_allclose(f(2.5), 2.25/2)
    assert_allclose(f(3.5), 0.75)
    assert_allclose(f(4.0), 0.75)

    assert_array_equal(f([0.0, 0.5, 1.0, 2.0, 2.25, 2.5, 3.5, 4.0]),
                       [1.0, 1.0, 0.25, 0.5, 1.5, 2.25/2, 0.75, 0.75])

    xp, yp = f.get_plottable_data()

    xp_expected = [0.0, 1.0, 1.0, 2.0, 2.0, 2.5, 2.5, 4.0]
    yp_expected = [1.0, 1.0, -0.5, -0.5, 1.5, 1.5, 0.75, 0.75]
    assert_array_almost_equal(xp, xp_expected, decimal=16)
    assert_array_almost_equal(yp, yp_expected, decimal=16)

    assert_almost_equal(f.avrg(), (1.0-0.5+0.5*1.5+1.5*0.75)/4.0, decimal=16)

    # interval averaging
    a = f.avrg([0.5, 3.5])
    assert_almost_equal(a, (0.5-0.5+0.5*1.5+1.0*0.75)/3.0, decimal=16)
    a = f.avrg([1.5, 3.5])
    assert_almost_equal(a, (-0.5*0.5+0.5*1.5+1.0*0.75)/2.0, decimal=16)
    a = f.avrg([1.0, 2.0])
    assert_almost_equal(a, (1.0*-0.5)/1.0, decimal=16)
    a = f.avrg([1.0, 3.5])
    assert_almost_equal(a, (-0.5*1.0+0.5*1.5+1.0*0.75)/2.5, decimal=16)
    a = f.avrg([1.0, 4.0])
    assert_almost_equal(a, (-0.5*1.0+0.5*1.5+1.5*0.75)/3.0, decimal=16)
    a = f.avrg([0.0, 2.2])
    assert_almost_equal(a, (1.0*1.0-0.5*1.0+0.2*1.5)/2.2, decimal=15)

    # averaging over multiple intervals
    a = f.avrg([(0.5, 1.5), (1.5, 3.5)])
    assert_almost_equal(a, (0.5-0.5+0.5*1.5+1.0*0.75)/3.0, decimal=16)

    # averaging over multiple intervals
    a = f.avrg([(0.5, 1.5), (2.2, 3.5)])
    assert_almost_equal(a, (0.5*1.0-0.5*0.5+0.3*1.5+1.0*0.75)/2.3, decimal=15)


def test_pwc_add():
    # some random data
    x = [0.0, 1.0, 2.0, 2.5, 4.0]
    y = [1.0, -0.5, 1.5, 0.75]
    f = spk.PieceWiseConstFunc(x, y)

    f1 = copy(f)
    x = [0.0, 0.75, 2.0, 2.5, 2.7, 4.0]
    y = [0.5, 1.0, -0.25, 0.0, 1.5]
    f2 = spk.PieceWiseConstFunc(x, y)
    f1.add(f2)
    x_expected = [0.0, 0.75, 1.0, 2.0, 2.5, 2.7, 4.0]
    y_expected = [1.5, 2.0, 0.5, 1.25, 0.75, 2.25]
    assert_array_almost_equal(f1.x, x_expected, decimal=16)
    assert_array_almost_equal(f1.y, y_expected, decimal=16)

    f2.add(f)
    assert_array_almost_equal(f2.x, x_expected, decimal=16)
    assert_array_almost_equal(f2.y, y_expected, decimal=16)

    f1.add(f2)
    # same x, but y doubled
    assert_array_almost_equal(f1.x, f2.x, decimal=16)
    assert_array_almost_equal(f1.y, 2*f2.y, decimal=16)


def test_pwc_mul():
    x = [0.0, 1.0, 2.0, 2.5, 4.0]
    y = [1.0, -0.5, 1.5, 0.75]
    f = spk.PieceWiseConstFunc(x, y)

    f.mul_scalar(1.5)
    assert_array_almost_equal(f.x, x, decimal=16)
    assert_array_almost_equal(f.y, 1.5*np.array(y), decimal=16)
    f.mul_scalar(1.0/5.0)
    assert_array_almost_equal(f.y, 1.5/5.0*np.array(y), decimal=16)


def test_pwc_avrg():
    # some random data
    x = [0.0, 1.0, 2.0, 2.5, 4.0]
    y = [1.0, -0.5, 1.5, 0.75]
    f1 = spk.PieceWiseConstFunc(x, y)

    x = [0.0, 0.75, 2.0, 2.5, 2.7, 4.0]
    y = [0.5, 1.0, -0.25, 0.0, 1.5]
    f2 = spk.PieceWiseConstFunc(x, y)

    f1.add(f2)
    f1.mul_scalar(0.5)
    x_expected = [0.0, 0.75, 1.0, 2.0, 2.5, 2.7, 4.0]
    y_expected = [0.75, 1.0, 0.25, 0.625, 0.375, 1.125]
    assert_array_almost_equal(f1.x, x_expected, decimal=16)
    assert_array_almost_equal(f1.y, y_expected, decimal=16)

def test_pwc_integral():
    # some random data
    x = [0.0, 1.0, 2.0, 2.5, 4.0]
    y = [1.0, -0.5, 1.5, 0.75]
    f1 = spk.PieceWiseConstFunc(x, y)

    # test full interval
    full = 1.0*1.0 + 1.0*-0.5 + 0.5*1.5 + 1.5*0.75;
    assert_allclose(f1.integral(), full)
    assert_allclose(f1.integral((np.min(x),np.max(x))), full)
    # test part interval, spanning an edge
    assert_allclose(f1.integral((0.5,1.5)), 0.5*1.0 + 0.5*-0.5)
    # test part interval, just over two edges
    assert_almost_equal(f1.integral((1.0-1e-16,2+1e-16)), 1.0*-0.5, decimal=14)
    # test part interval, between two edges
    assert_allclose(f1.integral((1.0,2.0)), 1.0*-0.5)
    assert_allclose(f1.integral((1.2,1.7)), (1.7-1.2)*-0.5)
    # test part interval, start to before and after edge
    assert_allclose(f1.integral((0.0,0.7)), 0.7*1.0)
    assert_allclose(f1.integral((0.0,1.1)), 1.0*1.0+0.1*-0.5)
    # test part interval, before and after edge till end
    assert_allclose(f1.integral((2.6,4.0)), (4.0-2.6)*0.75)
    assert_allclose(f1.integral((2.4,4.0)), (2.5-2.4)*1.5+(4-2.5)*0.75)

def test_pwc_integral_bad_bounds_inv():
    with pytest.raises(ValueError):
        # some random data
        x = [0.0, 1.0, 2.0, 2.5, 4.0]
        y = [1.0, -0.5, 1.5, 0.75]
        f1 = spk.PieceWiseConstFunc(x, y)
        f1.integral((3,2))

def test_pwc_integral_bad_bounds_oob_1():
    with pytest.raises(ValueError):
        # some random data
        x = [0.0, 1.0, 2.0, 2.5, 4.0]
        y = [1.0, -0.5, 1.5, 0.75]
        f1 = spk.PieceWiseConstFunc(x, y)
        f1.integral((1,6))

def test_pwc_integral_bad_bounds_oob_2():
    with pytest.raises(ValueError):
        # some random data
        x = [0.0, 1.0, 2.0, 2.5, 4.0]
        y = [1.0, -0.5, 1.5, 0.75]
        f1 = spk.PieceWiseConstFunc(x, y)
        f1.integral((-1,3))

def test_pwl():
    x = [0.0, 1.0, 2.0, 2.5, 4.0]
    y1 = [1.0, -0.5, 1.5, 0.75]
    y2 = [1.5, -0.4, 1.5, 0.25]
    f = spk.PieceWiseLinFunc(x, y1, y2)

    # function values
    assert_allclose(f(0.0), 1.0)
    assert_allclose(f(0.5), 1.25)
    assert_allclose(f(1.0), 0.5)
    assert_allclose(f(2.0), 1.1/2)
    assert_allclose(f(2.25), 1.5)
    assert_allclose(f(2.5), 2.25/2)
    assert_allclose(f(3.5), 0.75-0.5*1.0/1.5)
    assert_allclose(f(4.0), 0.25)

    assert_array_equal(f([0.0, 0.5, 1.0, 2.0, 2.25, 2.5, 3.5, 4.0]),
                       [1.0, 1.25, 0.5, 0.55, 1.5, 2.25/2, 0.75-0.5/1.5, 0.25])

    xp, yp = f.get_plottable_data()

    xp_expected = [0.0, 1.0, 1.0, 2.0, 2.0, 2.5, 2.5, 4.0]
    yp_expected = [1.0, 1.5, -0.5, -0.4, 1.5, 1.5, 0.75, 0.25]
    assert_array_almost_equal(xp, xp_expected, decimal=16)
    assert_array_almost_equal(yp, yp_expected, decimal=16)

    avrg_expected = (1.25 - 0.45 + 0.75 + 1.5*0.5) / 4.0
    assert_almost_equal(f.avrg(), avrg_expected, decimal=16)

    # interval averaging
    a = f.avrg([0.5, 2.5])
    assert_almost_equal(a, (1.375*0.5 - 0.45 + 0.75)/2.0, decimal=16)
    a = f.avrg([1.5, 3.5])
    assert_almost_equal(a, (-0.425*0.5 + 0.75 + (0.75+0.75-0.5/1.5)/2) / 2.0,
                        decimal=16)
    a = f.avrg((1.0, 3.5))
    assert_almost_equal(a, (-0.45 + 0.75 + (0.75+0.75-0.5/1.5)/2) / 2.5,
                        decimal=16)
    a = f.avrg([1.0, 4.0])
    assert_almost_equal(a, (-0.45 + 0.75 + 1.5*0.5) / 3.0, decimal=16)

    # interval between support points
    a = f.avrg([1.1, 1.5])
    assert_almost_equal(a, (-0.5+0.1*0.1 - 0.45) * 0.5, decimal=14)

    # starting at a support point
    a = f.avrg([1.0, 1.5])
    assert_almost_equal(a, (-0.5 - 0.45) * 0.5, decimal=14)

    # start and end at support point
    a = f.avrg([1.0, 2.0])
    assert_almost_equal(a, (-0.5 - 0.4) * 0.5, decimal=14)
    
    # averaging over multiple intervals
    a = f.avrg([(0.5, 1.5), (1.5, 2.5)])
    assert_almost_equal(a, (1.375*0.5 - 0.45 + 0.75)/2.0, decimal=16)


def test_pwl_add():
    x = [0.0, 1.0, 2.0, 2.5, 4.0]
    y1 = [1.0, -0.5, 1.5, 0.75]
    y2 = [1.5, -0.4, 1.5, 0.25]
    f = spk.PieceWiseLinFunc(x, y1, y2)

    f1 = copy(f)
    x = [0.0, 0.75, 2.0, 2.5, 2.7, 4.0]
    y1 = [0.5, 1.0, -0.25, 0.0, 1.5]
    y2 = [0.8, 0.2, -1.0, 0.0, 2.0]
    f2 = spk.PieceWiseLinFunc(x, y1, y2)
    f1.add(f2)
    x_expected = [0.0, 0.75, 1.0, 2.0, 2.5, 2.7, 4.0]
    y1_expected = [1.5, 1.0+1.0+0.5*0.75, -0.5+1.0-0.8*0.25/1.25, 1.5-0.25,
                   0.75, 1.5+0.75-0.5*0.2/1.5]
    y2_expected = [0.8+1.0+0.5*0.75, 1.5+1.0-0.8*0.25/1.25, -0.4+0.2, 1.5-1.0,
                   0.75-0.5*0.2/1.5, 2.25]
    assert_array_almost_equal(f1.x, x_expected, decimal=16)
    assert_array_almost_equal(f1.y1, y1_expected, decimal=16)
    assert_array_almost_equal(f1.y2, y2_expected, decimal=16)

    f2.add(f)
    assert_array_almost_equal(f2.x, x_expected, decimal=16)
    assert_array_almost_equal(f2.y1, y1_expected, decimal=16)
    assert_array_almost_equal(f2.y2, y2_expected, decimal=16)

    f1.add(f2)
    # same x, but y doubled
    assert_array_almost_equal(f1.x, f2.x, decimal=16)
    assert_array_almost_equal(f1.y1, 2*f2.y1, decimal=16)
    assert_array_almost_equal(f1.y2, 2*f2.y2, decimal=16)


def test_pwl_mul():
    x = [0.0, 1.0, 2.0, 2.5, 4.0]
    y1 = [1.0, -0.5, 1.5, 0.75]
    y2 = [1.5, -0.4, 1.5, 0.25]
    f = spk.PieceWiseLinFunc(x, y1, y2)

    f.mul_scalar(1.5)
    assert_array_almost_equal(f.x, x, decimal=16)
    assert_array_almost_equal(f.y1, 1.5*np.array(y1), decimal=16)
    assert_array_almost_equal(f.y2, 1.5*np.array(y2), decimal=16)
    f.mul_scalar(1.0/5.0)
    assert_array_almost_equal(f.y1, 1.5/5.0*np.array(y1), decimal=16)
    assert_array_almost_equal(f.y2, 1.5/5.0*np.array(y2), decimal=16)


def test_pwl_avrg():
    x = [0.0, 1.0, 2.0, 2.5, 4.0]
    y1 = [1.0, -0.5, 1.5, 0.75]
    y2 = [1.5, -0.4, 1.5, 0.25]
    f1 = spk.PieceWiseLinFunc(x, y1, y2)

    x = [0.0, 0.75, 2.0, 2.5, 2.7, 4.0]
    y1 = [0.5, 1.0, -0.25, 0.0, 1.5]
    y2 = [0.8, 0.2, -1.0, 0.0, 2.0]
    f2 = spk.PieceWiseLinFunc(x, y1, y2)

    x_expected = [0.0, 0.75, 1.0, 2.0, 2.5, 2.7, 4.0]
    y1_expected = np.array([1.5, 1.0+1.0+0.5*0.75, -0.5+1.0-0.8*0.25/1.25,
                            1.5-0.25, 0.75, 1.5+0.75-0.5*0.2/1.5]) / 2
    y2_expected = np.array([0.8+1.0+0.5*0.75, 1.5+1.0-0.8*0.25/1.25, -0.4+0.2,
                            1.5-1.0, 0.75-0.5*0.2/1.5, 2.25]) / 2

    f1.add(f2)
    f1.mul_scalar(0.5)

    assert_array_almost_equal(f1.x, x_expected, decimal=16)
    assert_array_almost_equal(f1.y1, y1_expected, decimal=16)
    assert_array_almost_equal(f1.y2, y2_expected, decimal=16)


def test_df():
    # testing discrete function
    x = [0.0, 1.0, 2.0, 2.5, 4.0]
    y = [0.0, 1.0, 1.0, 0.0, 1.0]
    mp = [1.0, 2.0, 1.0, 2.0, 1.0]
    f = spk.DiscreteFunc(x, y, mp)
    xp, yp = f.get_plottable_data()

    xp_expected = [0.0, 1.0, 2.0, 2.5, 4.0]
    yp_expected = [0.0, 0.5, 1.0, 0.0, 1.0]
    assert_array_almost_equal(xp, xp_expected, decimal=16)
    assert_array_almost_equal(yp, yp_expected, decimal=16)

    assert_almost_equal(f.avrg(), 2.0/5.0, decimal=16)

    # interval averaging
    a = f.avrg([0.5, 2.4])
    assert_almost_equal(a, 2.0/3.0, decimal=16)
    a = f.avrg([1.5, 3.5])
    assert_almost_equal(a, 1.0/3.0, decimal=16)
    a = f.avrg((0.9, 3.5))
    assert_almost_equal(a, 2.0/5.0, decimal=16)
    a = f.avrg([1.1, 4.0])
    assert_almost_equal(a, 1.0/3.0, decimal=16)

    # averaging over multiple intervals
    a = f.avrg([(0.5, 1.5), (1.5, 2.6)])
    assert_almost_equal(a, 2.0/5.0, decimal=16)


if __name__ == "__main__":
    test_pwc()
    test_pwc_add()
    test_pwc_mul()
    test_pwc_avrg()
    test_pwl()
    test_pwl_add()
    test_pwl_mul()
    test_pwl_avrg()
    test_df()

