""" test_generic_interface.py

Tests the generic interfaces of the profile and distance functions

Copyright 2016, Mario Mulansky <mario.mulansky@gmx.net>

Distributed under the BSD License

"""

from __future__ import print_function
from numpy.testing import assert_allclose

import pyspike as spk
from pyspike import SpikeTrain


class dist_from_prof:
    """ Simple functor that turns profile function into distance function by
    calling profile.avrg().
    """
    def __init__(self, prof_func):
        self.prof_func = prof_func

    def __call__(self, *args, **kwargs):
        if "interval" in kwargs:
            # forward interval arg into avrg function
            interval = kwargs.pop("interval")
            return self.prof_func(*args, **kwargs).avrg(interval=interval)
        else:
            return self.prof_func(*args, **kwargs).avrg()


def check_func(dist_func):
    """ generic checker that tests the given distance function.
    """
    # generate spike trains:
    t1 = SpikeTrain([0.2, 0.4, 0.6, 0.7], 1.0)
    t2 = SpikeTrain([0.3, 0.45, 0.8, 0.9, 0.95], 1.0)
    t3 = SpikeTrain([0.2, 0.4, 0.6], 1.0)
    t4 = SpikeTrain([0.1, 0.4, 0.5, 0.6], 1.0)
    spike_trains = [t1, t2, t3, t4]

    isi12 = dist_func(t1, t2)
    isi12_ = dist_func([t1, t2])
    assert_allclose(isi12, isi12_)

    isi12_ = dist_func(spike_trains, indices=[0, 1])
    assert_allclose(isi12, isi12_)

    isi123 = dist_func(t1, t2, t3)
    isi123_ = dist_func([t1, t2, t3])
    assert_allclose(isi123, isi123_)

    isi123_ = dist_func(spike_trains, indices=[0, 1, 2])
    assert_allclose(isi123, isi123_)

    # run the same test with an additional interval parameter

    isi12 = dist_func(t1, t2, interval=[0.0, 0.5])
    isi12_ = dist_func([t1, t2], interval=[0.0, 0.5])
    assert_allclose(isi12, isi12_)

    isi12_ = dist_func(spike_trains, indices=[0, 1], interval=[0.0, 0.5])
    assert_allclose(isi12, isi12_)

    isi123 = dist_func(t1, t2, t3, interval=[0.0, 0.5])
    isi123_ = dist_func([t1, t2, t3], interval=[0.0, 0.5])
    assert_allclose(isi123, isi123_)

    isi123_ = dist_func(spike_trains, indices=[0, 1, 2], interval=[0.0, 0.5])
    assert_allclose(isi123, isi123_)


def test_isi_profile():
    check_func(dist_from_prof(spk.isi_profile))


def test_isi_distance():
    check_func(spk.isi_distance)


def test_spike_profile():
    check_func(dist_from_prof(spk.spike_profile))


def test_spike_distance():
    check_func(spk.spike_distance)


def test_spike_sync_profile():
    check_func(dist_from_prof(spk.spike_sync_profile))


def test_spike_sync():
    check_func(spk.spike_sync)


if __name__ == "__main__":
    test_isi_profile()
    test_isi_distance()
    test_spike_profile()
    test_spike_distance()
    test_spike_sync_profile()
    test_spike_sync()
