import numpy as np
from numpy.testing import assert_allclose
import pyspike as spk
from pyspike import SpikeTrain
from pyspike.isi_lengths import default_thresh

def gen_spike_trains():
    """ generate spike trains
    """
    t1 = SpikeTrain([0.2, 0.4, 0.6, 0.7], 1.0)
    t2 = SpikeTrain([0.3, 0.45, 0.8, 0.9, 0.95], 1.0)
    t3 = SpikeTrain([0.2, 0.4, 0.6], 1.0)
    t4 = SpikeTrain([0.1, 0.4, 0.5, 0.6], 1.0)
    return [t1, t2, t3, t4]

def auto_test(profile_func, profile_func_multi, dist_func_multi, dist_func_matrix, **kwargs):
    """ verify that MRTS='auto' works for the non-pair interfaces
        In: profile_func, profile_func_multi, dist_func_multi, dist_func_matrix
              -- functions to test for a particular distance
        asserts on error
    """
    spike_trains = gen_spike_trains()

    Thresh = default_thresh(spike_trains)
    Thresh2 = Thresh/1000

    if profile_func is not None:
        r1 = profile_func(spike_trains, MRTS=Thresh, **kwargs)
        r2 = profile_func(spike_trains, MRTS='auto', **kwargs)
        r1.almost_equal(r2)

    if profile_func_multi is not None:
        r1 = profile_func_multi(spike_trains, MRTS=Thresh, **kwargs)
        r2 = profile_func_multi(spike_trains, MRTS='auto', **kwargs)
        r1.almost_equal(r2)

    if dist_func_multi is not None:
        r1 = dist_func_multi(spike_trains, MRTS=Thresh, **kwargs)
        r2 = dist_func_multi(spike_trains, MRTS='auto', **kwargs)
        assert_allclose(r1, r2)
        r3 = dist_func_multi(spike_trains, MRTS=Thresh2, **kwargs)
        try:
            r1.almost_equal(r3)
        except:
            pass
        else:
            raise Exception('dist_func_multi ignores Thresh')

    if dist_func_matrix is not None:
        r1 = dist_func_matrix(spike_trains, MRTS=Thresh, **kwargs)
        r2 = dist_func_matrix(spike_trains, MRTS='auto', **kwargs)
        assert_allclose(r1, r2)

if __name__ == "__main__":
    """ driver for testing MRTS='auto' for non-pair interfaces
          goes through the various distances
    """
    auto_test(spk.isi_profile, 
                spk.isi_profile_multi,
                spk.isi_distance_multi,
                spk.isi_distance_matrix)
    auto_test(spk.spike_profile, 
                spk.spike_profile_multi,
                spk.spike_distance_multi,                          
                spk.spike_distance_matrix)
    auto_test(spk.spike_sync_profile,
                spk.spike_sync_profile_multi,
                None, 
                spk.spike_sync_matrix)
    auto_test(spk.spike_profile, 
                spk.spike_profile_multi,
                spk.spike_distance_multi, 
                spk.spike_distance_matrix, 
                RI=True)
    auto_test(None,
                None,
                None,
                spk.spike_directionality_matrix)
                     
        