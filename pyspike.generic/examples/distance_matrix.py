""" distance_matrix.py

Simple example showing how to compute the isi distance matrix of a set of spike
trains.

Copyright 2014, Mario Mulansky <mario.mulansky@gmx.net>

Distributed under the BSD License
"""


from __future__ import print_function

import matplotlib.pyplot as plt

import pyspike as spk

# first load the data, interval ending time = 4000, start=0 (default)
spike_trains = spk.load_spike_trains_from_txt("PySpike_testdata.txt", 4000)

print(len(spike_trains))

plt.figure()
isi_distance = spk.isi_distance_matrix(spike_trains)
plt.imshow(isi_distance, interpolation='none')
plt.title("ISI-distance")

plt.figure()
spike_distance = spk.spike_distance_matrix(spike_trains, interval=(0, 1000))
plt.imshow(spike_distance, interpolation='none')
plt.title("SPIKE-distance, T=0-1000")

plt.figure()
spike_sync = spk.spike_sync_matrix(spike_trains, interval=(2000, 4000))
plt.imshow(spike_sync, interpolation='none')
plt.title("SPIKE-Sync, T=2000-4000")

plt.show()
