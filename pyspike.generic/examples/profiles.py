""" profiles.py

Simple example showing some functionality of distance profiles.

Copyright 2015, Mario Mulansky <mario.mulansky@gmx.net>

Distributed under the BSD License
"""


from __future__ import print_function

import pyspike as spk

spike_trains = spk.load_spike_trains_from_txt("PySpike_testdata.txt",
                                              edges=(0, 4000))

##### ISI PROFILES #######

# compute the ISI profile of the first two spike trains
f = spk.isi_profile(spike_trains[0], spike_trains[1])

# ISI values at certain points
t = 1200
print("ISI value at t =", t, ":", f(t))
t = [900, 1100, 2000, 3100]
print("ISI value at t =", t, ":", f(t))
print("Average ISI distance:", f.avrg())
print()

# compute the multivariate ISI profile
f = spk.isi_profile(spike_trains)

t = 1200
print("Multivariate ISI value at t =", t, ":", f(t))
t = [900, 1100, 2000, 3100]
print("Multivariate ISI value at t =", t, ":", f(t))
print("Average multivariate ISI distance:", f.avrg())
print()
print()

# for plotting, use the get_plottable_data() member function, see plot.py


##### SPIKE PROFILES #######

# compute the SPIKE profile of the first two spike trains
f = spk.spike_profile(spike_trains[0], spike_trains[1])

# SPIKE distance values at certain points
t = 1200
print("SPIKE value at t =", t, ":", f(t))
t = [900, 1100, 2000, 3100]
print("SPIKE value at t =", t, ":", f(t))
print("Average SPIKE distance:", f.avrg())
print()

# compute the multivariate SPIKE profile
f = spk.spike_profile(spike_trains)

# SPIKE values at certain points
t = 1200
print("Multivariate SPIKE value at t =", t, ":", f(t))
t = [900, 1100, 2000, 3100]
print("Multivariate SPIKE value at t =", t, ":", f(t))
print("Average multivariate SPIKE distance:", f.avrg())
