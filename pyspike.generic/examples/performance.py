"""
Compute distances of large sets of spike trains for performance tests

Copyright 2015, Mario Mulansky <mario.mulansky@gmx.net>

Distributed under the BSD License

"""

from __future__ import print_function

import pyspike as spk
from datetime import datetime
import cProfile
import pstats

# in case you dont have the cython backends, disable the warnings as follows:
# spk.disable_backend_warning = True

M = 100    # number of spike trains
r = 1.0    # rate of Poisson spike times
T = 1E3    # length of spike trains

print("%d spike trains with %d spikes" % (M, int(r*T)))

spike_trains = []

t_start = datetime.now()
for i in range(M):
    spike_trains.append(spk.generate_poisson_spikes(r, T))
t_end = datetime.now()
runtime = (t_end-t_start).total_seconds()

sort_by = 'tottime'
# sort_by = 'cumtime'

print("Spike generation runtime: %.3fs" % runtime)
print()

print("================ ISI COMPUTATIONS ================")
print("    MULTIVARIATE DISTANCE")
cProfile.run('spk.isi_distance(spike_trains)', 'performance.stat')
p = pstats.Stats('performance.stat')
p.strip_dirs().sort_stats(sort_by).print_stats(5)

print("    MULTIVARIATE PROFILE")
cProfile.run('spk.isi_profile(spike_trains)', 'performance.stat')
p = pstats.Stats('performance.stat')
p.strip_dirs().sort_stats(sort_by).print_stats(5)

print("================ SPIKE COMPUTATIONS ================")
print("    MULTIVARIATE DISTANCE")
cProfile.run('spk.spike_distance(spike_trains)', 'performance.stat')
p = pstats.Stats('performance.stat')
p.strip_dirs().sort_stats(sort_by).print_stats(5)

print("    MULTIVARIATE PROFILE")
cProfile.run('spk.spike_profile(spike_trains)', 'performance.stat')
p = pstats.Stats('performance.stat')
p.strip_dirs().sort_stats(sort_by).print_stats(5)

print("================ SPIKE-SYNC COMPUTATIONS ================")
print("    MULTIVARIATE DISTANCE")
cProfile.run('spk.spike_sync(spike_trains)', 'performance.stat')
p = pstats.Stats('performance.stat')
p.strip_dirs().sort_stats(sort_by).print_stats(5)

print("    MULTIVARIATE PROFILE")
cProfile.run('spk.spike_sync_profile(spike_trains)', 'performance.stat')
p = pstats.Stats('performance.stat')
p.strip_dirs().sort_stats(sort_by).print_stats(5)
