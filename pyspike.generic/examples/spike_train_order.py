import numpy as np
from matplotlib import pyplot as plt
import pyspike as spk


st1 = spk.generate_poisson_spikes(1.0, [0, 20])
st2 = spk.generate_poisson_spikes(1.0, [0, 20])

d = spk.spike_directionality(st1, st2)

print "Spike Directionality of two Poissonian spike trains:", d

E = spk.spike_train_order_profile(st1, st2)

plt.figure()
x, y = E.get_plottable_data()
plt.plot(x, y, '-ob')
plt.ylim(-1.1, 1.1)
plt.xlabel("t")
plt.ylabel("E")
plt.title("Spike Train Order Profile")


###### Optimize spike train order of 20 Random spike trains #######

M = 20

spike_trains = [spk.generate_poisson_spikes(1.0, [0, 100]) for m in xrange(M)]

F_init = spk.spike_train_order(spike_trains)

print "Initial Synfire Indicator for 20 Poissonian spike trains:", F_init

D_init = spk.spike_directionality_matrix(spike_trains)

phi, _ = spk.optimal_spike_train_sorting(spike_trains)

F_opt = spk.spike_train_order(spike_trains, indices=phi)

print "Synfire Indicator of optimized spike train sorting:", F_opt

D_opt = spk.permutate_matrix(D_init, phi)

plt.figure()
plt.imshow(D_init)
plt.title("Initial Directionality Matrix")

plt.figure()
plt.imshow(D_opt)
plt.title("Optimized Directionality Matrix")

plt.show()
