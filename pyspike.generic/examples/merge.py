""" merge.py

Simple example showing the merging of two spike trains.

Copyright 2014, Mario Mulansky <mario.mulansky@gmx.net>

Distributed under the BSD License
"""

from __future__ import print_function

import numpy as np
import matplotlib.pyplot as plt

import pyspike as spk

# first load the data, ending time = 4000
spike_trains = spk.load_spike_trains_from_txt("PySpike_testdata.txt", 4000)

merged_spike_train = spk.merge_spike_trains([spike_trains[0], spike_trains[1]])

print(merged_spike_train.spikes)

plt.plot(spike_trains[0], np.ones_like(spike_trains[0]), 'o')
plt.plot(spike_trains[1], np.ones_like(spike_trains[1]), 'x')
plt.plot(merged_spike_train.spikes,
         2*np.ones_like(merged_spike_train), 'o')

plt.show()
