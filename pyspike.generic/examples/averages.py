""" averages.py

Simple example showing how to compute averages of distance profiles

Copyright 2014, Mario Mulansky <mario.mulansky@gmx.net>

Distributed under the BSD License
"""

from __future__ import print_function

import pyspike as spk

spike_trains = spk.load_spike_trains_from_txt("PySpike_testdata.txt",
                                              edges=(0, 4000))

f = spk.isi_profile(spike_trains[0], spike_trains[1])

print("ISI-distance: %.8f" % f.avrg())

isi1 = f.avrg(interval=(0, 1000))
isi2 = f.avrg(interval=(1000, 2000))
isi3 = f.avrg(interval=[(0, 1000), (2000, 3000)])
isi4 = f.avrg(interval=[(1000, 2000), (3000, 4000)])

print("ISI-distance (0-1000):                    %.8f" % isi1)
print("ISI-distance (1000-2000):                 %.8f" % isi2)
print("ISI-distance (0-1000) and (2000-3000):    %.8f" % isi3)
print("ISI-distance (1000-2000) and (3000-4000): %.8f" % isi4)
print()

f = spk.spike_profile(spike_trains[0], spike_trains[1])

print("SPIKE-distance: %.8f" % f.avrg())

spike1 = f.avrg(interval=(0, 1000))
spike2 = f.avrg(interval=(1000, 2000))
spike3 = f.avrg(interval=[(0, 1000), (2000, 3000)])
spike4 = f.avrg(interval=[(1000, 2000), (3000, 4000)])

print("SPIKE-distance (0-1000):                    %.8f" % spike1)
print("SPIKE-distance (1000-2000):                 %.8f" % spike2)
print("SPIKE-distance (0-1000) and (2000-3000):    %.8f" % spike3)
print("SPIKE-distance (1000-2000) and (3000-4000): %.8f" % spike4)
print()

f = spk.spike_sync_profile(spike_trains[0], spike_trains[1])

print("SPIKE-Synchronization: %.8f" % f.avrg())

spike_sync1 = f.avrg(interval=(0, 1000))
spike_sync2 = f.avrg(interval=(1000, 2000))
spike_sync3 = f.avrg(interval=[(0, 1000), (2000, 3000)])
spike_sync4 = f.avrg(interval=[(1000, 2000), (3000, 4000)])

print("SPIKE-Sync (0-1000):                        %.8f" % spike_sync1)
print("SPIKE-Sync (1000-2000):                     %.8f" % spike_sync2)
print("SPIKE-Sync (0-1000) and (2000-3000):        %.8f" % spike_sync3)
print("SPIKE-Sync (1000-2000) and (3000-4000):     %.8f" % spike_sync4)
