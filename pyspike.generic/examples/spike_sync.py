from __future__ import print_function

import matplotlib.pyplot as plt

import pyspike as spk

spike_trains = spk.load_spike_trains_from_txt("../test/SPIKE_Sync_Test.txt",
                                              edges=(0, 4000))

plt.figure()

f = spk.spike_sync_profile(spike_trains[0], spike_trains[1])
x, y = f.get_plottable_data()
plt.plot(x, y, '--ok', label="SPIKE-SYNC profile")
print(f.x)
print(f.y)
print(f.mp)

print("Average:", f.avrg())


f = spk.spike_profile(spike_trains[0], spike_trains[1])
x, y = f.get_plottable_data()

plt.plot(x, y, '-b', label="SPIKE-profile")

plt.axis([0, 4000, -0.1, 1.1])
plt.legend(loc="center right")

plt.figure()

plt.subplot(211)

f = spk.spike_sync_profile(spike_trains)
x, y = f.get_plottable_data()
plt.plot(x, y, '-b', alpha=0.7, label="SPIKE-Sync profile")

x1, y1 = f.get_plottable_data(averaging_window_size=50)
plt.plot(x1, y1, '-k', lw=2.5, label="averaged SPIKE-Sync profile")

plt.subplot(212)

f_psth = spk.psth(spike_trains, bin_size=50.0)
x, y = f_psth.get_plottable_data()
plt.plot(x, y, '-k', alpha=1.0, label="PSTH")


print("Average:", f.avrg())

plt.show()
