""" Example for the multivariate spike distance

Copyright 2014, Mario Mulansky <mario.mulansky@gmx.net>

"""
from __future__ import print_function
import time
import pyspike as spk


def time_diff_in_ms(start, end):
    """ Returns the time difference end-start in ms.
    """
    return (end-start)*1000


t_start = time.clock()

# load the data
time_loading = time.clock()
spike_trains = spk.load_spike_trains_from_txt("PySpike_testdata.txt",
                                              edges=(0, 4000))
t_loading = time.clock()

print("Number of spike trains: %d" % len(spike_trains))
num_of_spikes = sum([len(spike_trains[i])
                     for i in range(len(spike_trains))])
print("Number of spikes: %d" % num_of_spikes)

# calculate the multivariate spike distance
f = spk.spike_profile(spike_trains)

t_spike = time.clock()

# print the average
avrg = f.avrg()
print("Spike distance from average: %.8f" % avrg)

t_avrg = time.clock()

# compute average distance directly, should give the same result as above
spike_dist = spk.spike_distance(spike_trains)
print("Spike distance directly:     %.8f" % spike_dist)

t_dist = time.clock()

print("Loading:            %9.1f ms" % time_diff_in_ms(t_start, t_loading))
print("Computing profile:  %9.1f ms" % time_diff_in_ms(t_loading, t_spike))
print("Averaging:          %9.1f ms" % time_diff_in_ms(t_spike, t_avrg))
print("Computing distance: %9.1f ms" % time_diff_in_ms(t_avrg, t_dist))
print("Total:              %9.1f ms" % time_diff_in_ms(t_start, t_dist))
