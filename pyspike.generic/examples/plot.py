""" plot.py

Simple example showing how to load and plot spike trains and their distance
profiles.

Copyright 2014, Mario Mulansky <mario.mulansky@gmx.net>

Distributed under the BSD License
"""


from __future__ import print_function

import numpy as np
import matplotlib.pyplot as plt

import pyspike as spk


spike_trains = spk.load_spike_trains_from_txt("PySpike_testdata.txt",
                                              edges=(0, 4000))

# plot the spike times
for (i, spike_train) in enumerate(spike_trains):
    plt.scatter(spike_train, i*np.ones_like(spike_train), marker='|')

# profile of the first two spike trains
f = spk.isi_profile(spike_trains, indices=[0, 1])
x, y = f.get_plottable_data()

plt.figure()
plt.plot(x, np.abs(y), '--k', label="ISI-profile")

print("ISI-distance: %.8f" % f.avrg())

f = spk.spike_profile(spike_trains, indices=[0, 1])
x, y = f.get_plottable_data()

plt.plot(x, y, '-b', label="SPIKE-profile")

print("SPIKE-distance: %.8f" % f.avrg())

plt.legend(loc="upper left")

plt.show()
