## interlude to force answer to input('Abort?'):

import io, sys
sys.stdin = io.StringIO('N\n')
import setup
