from __future__ import absolute_import, print_function
import numpy as np
import collections.abc
import pyspike

class DiscreteFunc(object):
    """ A class representing values defined on a discrete set of points.
    """

    def __init__(self, x, y, multiplicity):
        """ Constructs the discrete function.

        :param x: array of length N defining the points at which the values are
                  defined.
        :param y: array of length N degining the values at the points x.
        :param multiplicity: array of length N defining the multiplicity of the
                             values.
        """
        self.x = np.array(x)
        self.y = np.array(y)
        self.mp = np.array(multiplicity)

    def copy(self):
        """ Returns a copy of itself

        :rtype: :class:`DiscreteFunc`
        """
        return DiscreteFunc(self.x, self.y, self.mp)

    def almost_equal(self, other, decimal=14):
        """ Checks if the function is equal to another function up to `decimal`
        precision.

        :param other: another :class:`DiscreteFunc`
        :returns: True if the two functions are equal up to `decimal` decimals,
                  False otherwise
        :rtype: bool
        """
        return np.allclose(self.x, other.x, atol=10.0 ** (-decimal), rtol=0.0) and np.allclose(self.y, other.y, atol=10.0 ** (-decimal), rtol=0.0) and np.allclose(self.mp, other.mp, atol=10.0 ** (-decimal), rtol=0.0)

    def get_plottable_data(self, averaging_window_size=0):
        """ Returns two arrays containing x- and y-coordinates for plotting
        the interval sequence. The optional parameter `averaging_window_size`
        determines the size of an averaging window to smoothen the profile. If
        this value is 0, no averaging is performed.

        :param averaging_window_size: size of the averaging window, default=0.
        :returns: (x_plot, y_plot) containing plottable data
        :rtype: pair of np.array

        Example::

            x, y = f.get_plottable_data()
            plt.plot(x, y, '-o', label="Discrete function")
        """
        if 0 < averaging_window_size:
            y_plot = np.zeros_like(self.y)
            for i in range(len(self.y)):
                if (averaging_window_size + 1) * int(self.mp[0]) <= self.mp[i]:
                    y_plot[i] = self.y[i] / self.mp[i]
                else:
                    mp_r = self.mp[i]
                    y = self.y[i]
                    for j in range(i + 1, len(self.y)):
                        if mp_r + self.mp[j] < (averaging_window_size + 1) * int(self.mp[0]):
                            mp_r += self.mp[j]
                            y += self.y[j]
                        else:
                            y += self.y[j] * ((averaging_window_size + 1) * int(self.mp[0]) - mp_r) / self.mp[j]
                            mp_r += (averaging_window_size + 1) * int(self.mp[0]) - mp_r
                            break
                    mp_l = self.mp[i]
                    for j in range(i - 1, -1, -1):
                        if mp_l + self.mp[j] < (averaging_window_size + 1) * int(self.mp[0]):
                            mp_l += self.mp[j]
                            y += self.y[j]
                        else:
                            y += self.y[j] * ((averaging_window_size + 1) * int(self.mp[0]) - mp_l) / self.mp[j]
                            mp_l += (averaging_window_size + 1) * int(self.mp[0]) - mp_l
                            break
                    y_plot[i] = y / (mp_l + mp_r - self.mp[i])
            return (1.0 * self.x, y_plot)
        else:
            return (1.0 * self.x, 1.0 * self.y / self.mp)

    def integral(self, interval=None):
        """ Returns the integral over the given interval. For the discrete
        function, this amounts to two values: the sum over all values and the
        sum over all multiplicities.

        :param interval: integration interval given as a pair of floats, or a
                         sequence of pairs in case of multiple intervals, if
                         None the integral over the whole function is computed.
        :type interval: Pair, sequence of pairs, or None.
        :returns: the summed values and the summed multiplicity
        :rtype: pair of float
        """
        multiplicity = 0.0
        value = 0.0
        if interval is None:
            multiplicity = np.sum(self.mp[1:-1])
            value = 1.0 * np.sum(self.y[1:-1])
        else:
            assert isinstance(interval, collections.abc.Sequence), 'Invalid value for `interval`. None, Sequence or Tuple expected.'
            if isinstance(interval[0], collections.abc.Sequence):
                for ival in interval:
                    end_ind = np.searchsorted(self.x, ival[1], side='left')
                    start_ind = np.searchsorted(self.x, ival[0], side='right')
                    assert 0 < start_ind and end_ind < len(self.x), 'Invalid averaging interval'
                    multiplicity += np.sum(self.mp[start_ind:end_ind])
                    value += np.sum(self.y[start_ind:end_ind])
            else:
                end_ind = np.searchsorted(self.x, interval[1], side='left')
                start_ind = np.searchsorted(self.x, interval[0], side='right')
                assert 0 < start_ind and end_ind < len(self.x), 'Invalid averaging interval'
                multiplicity = np.sum(self.mp[start_ind:end_ind])
                value = np.sum(self.y[start_ind:end_ind])
        return (value, multiplicity)

    def avrg(self, interval=None, normalize=True):
        """ Computes the average of the interval sequence:
        :math:`a = 1/N \\sum f_n` where N is the number of intervals.

        :param interval: averaging interval given as a pair of floats, a
                         sequence of pairs for averaging multiple intervals, or
                         None, if None the average over the whole function is
                         computed.
        :type interval: Pair, sequence of pairs, or None.
        :returns: the average a.
        :rtype: float
        """
        val, mp = self.integral(interval)
        if normalize:
            if 0 < mp:
                return val / mp
            else:
                return 1.0
        else:
            return val

    def add(self, f):
        """ Adds another `DiscreteFunc` function to this function.
        Note: only functions defined on the same interval can be summed.

        :param f: :class:`DiscreteFunc` function to be added.
        :rtype: None
        """
        assert self.x[0] == f.x[0], 'The functions have different intervals'
        assert self.x[-1] == f.x[-1], 'The functions have different intervals'
        try:
            from .cython.cython_add import add_discrete_function_cython as add_discrete_function_impl
        except ImportError:
            pyspike.NoCythonWarn()
            from .cython.python_backend import add_discrete_function_python as add_discrete_function_impl
        self.x, self.y, self.mp = add_discrete_function_impl(self.x, self.y, self.mp, f.x, f.y, f.mp)

    def mul_scalar(self, fac):
        """ Multiplies the function with a scalar value

        :param fac: Value to multiply
        :type fac: double
        :rtype: None
        """
        self.y *= fac

def average_profile(profiles):
    """ Computes the average profile from the given ISI- or SPIKE-profiles.

    :param profiles: list of :class:`PieceWiseConstFunc` or
                     :class:`PieceWiseLinFunc` representing ISI- or
                     SPIKE-profiles to be averaged.
    :returns: the averages profile :math:`<S_{isi}>` or :math:`<S_{spike}>`.
    :rtype: :class:`PieceWiseConstFunc` or :class:`PieceWiseLinFunc`
    """
    N_profiles = len(profiles)
    assert 1 < N_profiles
    avrg_profile = profiles[0].copy()
    for i in range(1, N_profiles):
        avrg_profile.add(profiles[i])
    avrg_profile.mul_scalar(1.0 / N_profiles)
    return avrg_profile
