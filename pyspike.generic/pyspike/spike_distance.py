from __future__ import absolute_import
import pyspike
from pyspike import PieceWiseLinFunc
from pyspike.generic import _generic_profile_multi, _generic_distance_multi, _generic_distance_matrix, resolve_keywords
from pyspike.isi_lengths import default_thresh
from pyspike.spikes import reconcile_spike_trains, reconcile_spike_trains_bi

def spike_profile(*args, **kwargs):
    """ Computes the spike-distance profile :math:`S(t)` of the given
    spike trains. Returns the profile as a PieceWiseConstLin object. The
    SPIKE-values are defined positive :math:`S(t)>=0`.

    Valid call structures::

      spike_profile(st1, st2)  # returns the bi-variate profile
      spike_profile(st1, st2, st3)  # multi-variate profile of 3 spike trains

      spike_trains = [st1, st2, st3, st4]  # list of spike trains
      spike_profile(spike_trains)  # profile of the list of spike trains
      spike_profile(spike_trains, indices=[0, 1])  # use only the spike trains
                                                   # given by the indices

    The multivariate spike-distance profile is defined as the average of all
    pairs of spike-trains:

    .. math:: <S(t)> = \\frac{2}{N(N-1)} \\sum_{<i,j>} S^{i, j}`,

    where the sum goes over all pairs <i,j>

    :returns: The spike-distance profile :math:`S(t)`
    :rtype: :class:`.PieceWiseConstLin`
    """
    if len(args) == 1:
        return spike_profile_multi(args[0], **kwargs)
    elif len(args) == 2:
        return spike_profile_bi(args[0], args[1], **kwargs)
    else:
        return spike_profile_multi(args, **kwargs)

def spike_profile_bi(spike_train1, spike_train2, **kwargs):
    """ Specific function to compute a bivariate SPIKE-profile. This is a
    deprecated function and should not be called directly. Use
    :func:`.spike_profile` to compute SPIKE-profiles.

    :param spike_train1: First spike train.
    :type spike_train1: :class:`.SpikeTrain`
    :param spike_train2: Second spike train.
    :type spike_train2: :class:`.SpikeTrain`
    :returns: The spike-distance profile :math:`S(t)`.
    :rtype: :class:`.PieceWiseLinFunc`

    """
    MRTS, RI = resolve_keywords(**kwargs)
    if kwargs.get('Reconcile', True):
        spike_train1, spike_train2 = reconcile_spike_trains_bi(spike_train1, spike_train2)
    try:
        from .cython.cython_profiles import spike_profile_cython as spike_profile_impl
    except ImportError:
        pyspike.NoCythonWarn()
        from .cython.python_backend import spike_distance_python as spike_profile_impl
    if isinstance(MRTS, str):
        MRTS = default_thresh([spike_train1, spike_train2])
    times, y_starts, y_ends = spike_profile_impl(spike_train1.get_spikes_non_empty(), spike_train2.get_spikes_non_empty(), spike_train1.t_start, spike_train1.t_end, MRTS, RI)
    return PieceWiseLinFunc(times, y_starts, y_ends)

def spike_profile_multi(spike_trains, indices=None, **kwargs):
    """ Specific function to compute a multivariate SPIKE-profile. This is a
    deprecated function and should not be called directly. Use
    :func:`.spike_profile` to compute SPIKE-profiles.

    :param spike_trains: list of :class:`.SpikeTrain`
    :param indices: list of indices defining which spike trains to use,
                    if None all given spike trains are used (default=None)
    :type indices: list or None
    :returns: The averaged spike profile :math:`<S>(t)`
    :rtype: :class:`.PieceWiseLinFunc`

    """
    average_dist, M = _generic_profile_multi(spike_trains, spike_profile_bi, indices, **kwargs)
    average_dist.mul_scalar(1.0 / M)
    return average_dist

def spike_distance(*args, **kwargs):
    """ Computes the SPIKE-distance :math:`D_S` of the given spike trains. The
    spike-distance is the integral over the spike distance profile
    :math:`D(t)`:

    .. math:: D_S = \\int_{T_0}^{T_1} S(t) dt.


    Valid call structures::

      spike_distance(st1, st2)  # returns the bi-variate distance
      spike_distance(st1, st2, st3)  # multi-variate distance of 3 spike trains

      spike_trains = [st1, st2, st3, st4]  # list of spike trains
      spike_distance(spike_trains)  # distance of the list of spike trains
      spike_distance(spike_trains, indices=[0, 1])  # use only the spike trains
                                                    # given by the indices

    In the multivariate case, the spike distance is given as the integral over
    the multivariate profile, that is the average profile of all spike train
    pairs:

    .. math::  D_S = \\int_0^T \\frac{2}{N(N-1)} \\sum_{<i,j>}
               S^{i, j} dt

    :returns: The spike-distance :math:`D_S`.
    :rtype: double
    """
    if len(args) == 1:
        return spike_distance_multi(args[0], **kwargs)
    elif len(args) == 2:
        return spike_distance_bi(args[0], args[1], **kwargs)
    else:
        return spike_distance_multi(args, **kwargs)

def spike_distance_bi(spike_train1, spike_train2, interval=None, **kwargs):
    """ Specific function to compute a bivariate SPIKE-distance. This is a
    deprecated function and should not be called directly. Use
    :func:`.spike_distance` to compute SPIKE-distances.

    :param spike_train1: First spike train.
    :type spike_train1: :class:`.SpikeTrain`
    :param spike_train2: Second spike train.
    :type spike_train2: :class:`.SpikeTrain`
    :param interval: averaging interval given as a pair of floats (T0, T1),
                     if None the average over the whole function is computed.
    :type interval: Pair of floats or None.
    :returns: The spike-distance.
    :rtype: double

    """
    if kwargs.get('Reconcile', True):
        spike_train1, spike_train2 = reconcile_spike_trains_bi(spike_train1, spike_train2)
        kwargs['Reconcile'] = False
    MRTS, RI = resolve_keywords(**kwargs)
    if isinstance(MRTS, str):
        MRTS = default_thresh([spike_train1, spike_train2])
    if interval is None:
        try:
            from .cython.cython_distances import spike_distance_cython as spike_distance_impl
            return spike_distance_impl(spike_train1.get_spikes_non_empty(), spike_train2.get_spikes_non_empty(), spike_train1.t_start, spike_train1.t_end, MRTS, RI)
        except ImportError:
            return spike_profile_bi(spike_train1, spike_train2, **kwargs).avrg(interval)
    else:
        return spike_profile_bi(spike_train1, spike_train2, **kwargs).avrg(interval)

def spike_distance_multi(spike_trains, indices=None, interval=None, **kwargs):
    """ Specific function to compute a multivariate SPIKE-distance. This is a
    deprecated function and should not be called directly. Use
    :func:`.spike_distance` to compute SPIKE-distances.

    :param spike_trains: list of :class:`.SpikeTrain`
    :param indices: list of indices defining which spike trains to use,
                    if None all given spike trains are used (default=None)
    :type indices: list or None
    :param interval: averaging interval given as a pair of floats, if None
                     the average over the whole function is computed.
    :type interval: Pair of floats or None.
    :returns: The averaged multi-variate spike distance :math:`D_S`.
    :rtype: double
    """
    return _generic_distance_multi(spike_trains, spike_distance_bi, indices, interval, **kwargs)

def spike_distance_matrix(spike_trains, indices=None, interval=None, **kwargs):
    """ Computes the time averaged spike-distance of all pairs of spike-trains.

    :param spike_trains: list of :class:`.SpikeTrain`
    :param indices: list of indices defining which spike trains to use,
                    if None all given spike trains are used (default=None)
    :type indices: list or None
    :param interval: averaging interval given as a pair of floats, if None
                     the average over the whole function is computed.
    :type interval: Pair of floats or None.
    :returns: 2D array with the pair wise time average spike distances
              :math:`D_S^{ij}`
    :rtype: np.array
    """
    return _generic_distance_matrix(spike_trains, spike_distance_bi, indices, interval, **kwargs)
