"""

Generic functions to compute multi-variate profiles and distance matrices.

Copyright 2015, Mario Mulansky <mario.mulansky@gmx.net>

Distributed under the BSD License
"""
from __future__ import division
from pyspike.isi_lengths import default_thresh
from pyspike.spikes import reconcile_spike_trains
import numpy as np

def resolve_keywords(**kwargs):
    """ resolve keywords
        In: kwargs - dictionary of keywords
        out: MRTS - Minimum Relevant Time Scale, default 0.
             RI  - Rate Independent Adaptive distance, default False
    """
    return (kwargs.get('MRTS', 0.0), kwargs.get('RI', False))

def _generic_profile_multi(spike_trains, pair_distance_func, indices=None, **kwargs):
    """ Internal implementation detail, don't call this function directly,
    use isi_profile_multi or spike_profile_multi instead.

    Computes the multi-variate distance for a set of spike-trains using the
    pair_dist_func to compute pair-wise distances. That is it computes the
    average distance of all pairs of spike-trains:
    :math:`S(t) = 2/((N(N-1)) sum_{<i,j>} S_{i,j}`,
    where the sum goes over all pairs <i,j>.
    Args:
    - spike_trains: list of spike trains
    - pair_distance_func: function computing the distance of two spike trains
    - indices: list of indices defining which spike trains to use,
    if None all given spike trains are used (default=None)
    Returns:
    - The summed (not yet averaged) profile of all pairs
    - The number of pairs
    """
    if kwargs.get('Reconcile', True):
        kwargs['Reconcile'] = False
        spike_trains = reconcile_spike_trains(spike_trains)
    MRTS__inl1, ___inl1 = resolve_keywords(**kwargs)
    if indices is None:
        indices = np.arange(len(spike_trains))
    indices = np.array(indices)
    if isinstance(MRTS__inl1, str):
        kwargs['MRTS'] = default_thresh(spike_trains)
    assert (indices < len(spike_trains)).all() and (0 <= indices).all(), 'Invalid index list.'
    indices = indices
    spike_trains = spike_trains

    def summed_profile(pairs):
        """ sum of the pair profiles, recursively splitting the list in half.
        """
        N_pairs = len(pairs)
        if 1 < N_pairs:
            profile = summed_profile(pairs[:N_pairs // 2])
            profile.add(summed_profile(pairs[N_pairs // 2:]))
            return profile
        else:
            i, j = pairs[0]
            return pair_distance_func(spike_trains[i], spike_trains[j], **kwargs)
    pairs = [(i, j) for pos, i in enumerate(indices) for j in indices[pos + 1:]]
    return (summed_profile(pairs), len(pairs))

def _generic_distance_multi(spike_trains, pair_distance_func, indices=None, interval=None, **kwargs):
    """ Internal implementation detail, don't call this function directly,
    use isi_distance_multi or spike_distance_multi instead.

    Computes the multi-variate distance for a set of spike-trains using the
    pair_dist_func to compute pair-wise distances. That is it computes the
    average distance of all pairs of spike-trains:
    :math:`S(t) = 2/((N(N-1)) sum_{<i,j>} D_{i,j}`,
    where the sum goes over all pairs <i,j>.
    Args:
    - spike_trains: list of spike trains
    - pair_distance_func: function computing the distance of two spike trains
    - indices: list of indices defining which spike trains to use,
    if None all given spike trains are used (default=None)
    Returns:
    - The averaged multi-variate distance of all pairs
    """
    if kwargs.get('Reconcile', True):
        kwargs['Reconcile'] = False
        spike_trains = reconcile_spike_trains(spike_trains)
    MRTS__inl1, ___inl1 = resolve_keywords(**kwargs)
    if indices is None:
        indices = np.arange(len(spike_trains))
    indices = np.array(indices)
    if isinstance(MRTS__inl1, str):
        kwargs['MRTS'] = default_thresh(spike_trains)
    assert (indices < len(spike_trains)).all() and (0 <= indices).all(), 'Invalid index list.'
    dist_sum = 0.0
    indices = indices
    pairs = [(i, j) for pos, i in enumerate(indices) for j in indices[pos + 1:]]
    spike_trains = spike_trains
    for i, j in pairs:
        dist_sum += pair_distance_func(spike_trains[i], spike_trains[j], interval, **kwargs)
    N_pairs = len(pairs)
    return dist_sum / N_pairs

def _generic_distance_matrix(spike_trains, dist_function, indices=None, interval=None, **kwargs):
    """ Internal implementation detail. Don't use this function directly.
    Instead use isi_distance_matrix or spike_distance_matrix.
    Computes the time averaged distance of all pairs of spike-trains.
    Args:
    - spike_trains: list of spike trains
    - indices: list of indices defining which spike-trains to use
    if None all given spike-trains are used (default=None)
    Return:
    - a 2D array of size len(indices)*len(indices) containing the average
    pair-wise distance
    """
    if kwargs.get('Reconcile', True):
        kwargs['Reconcile'] = False
        spike_trains = reconcile_spike_trains(spike_trains)
    MRTS__inl1, ___inl1 = resolve_keywords(**kwargs)
    if indices is None:
        indices = np.arange(len(spike_trains))
    indices = np.array(indices)
    if isinstance(MRTS__inl1, str):
        kwargs['MRTS'] = default_thresh(spike_trains)
    assert (indices < len(spike_trains)).all() and (0 <= indices).all(), 'Invalid index list.'
    indices = indices
    distance_matrix = np.zeros((len(indices), len(indices)))
    pairs = [(i, j) for i in range(len(indices)) for j in range(i + 1, len(indices))]
    spike_trains = spike_trains
    for i, j in pairs:
        d = dist_function(spike_trains[indices[i]], spike_trains[indices[j]], interval, **kwargs)
        distance_matrix[i, j] = d
        distance_matrix[j, i] = d
    return distance_matrix
