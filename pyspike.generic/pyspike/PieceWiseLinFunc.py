from __future__ import absolute_import, print_function
import numpy as np
import collections.abc
import pyspike

class PieceWiseLinFunc:
    """ A class representing a piece-wise linear function. """

    def __init__(self, x, y1, y2):
        """ Constructs the piece-wise linear function.

        :param x: array of length N+1 defining the edges of the intervals of
                  the pwc function.
        :param y1: array of length N defining the function values at the left
                  of the intervals.
        :param y2: array of length N defining the function values at the right
                  of the intervals.
        """
        self.x = np.array(x)
        self.y1 = np.array(y1)
        self.y2 = np.array(y2)

    def __call__(self, t):
        """ Returns the function value for the given time t. If t is a list of
        times, the corresponding list of values is returned.

        :param: time t, or list of times
        :returns: function value(s) at that time(s).
        """
        assert np.all(self.x[0] <= t) and np.all(t <= self.x[-1]), 'Invalid time: ' + str(t)
        ind = np.searchsorted(self.x, t, side='right')
        if isinstance(t, collections.abc.Sequence):
            ind[ind == 0] = 1
            ind[ind == len(self.x)] = len(self.x) - 1
            ind_at_spike = np.logical_and(np.logical_and(ind != np.searchsorted(self.x, t, side='left'), 1 < ind), ind < len(self.x))
            value = self.y1[ind - 1] + (self.y2[ind - 1] - self.y1[ind - 1]) * (t - self.x[ind - 1]) / (self.x[ind] - self.x[ind - 1])
            N_ind = len(ind)
            value[np.arange(N_ind)[ind_at_spike]] = 0.5 * (self.y1[ind[ind_at_spike] - 1] + self.y2[ind[ind_at_spike] - 2])
            return value
        elif t == self.x[0]:
            return self.y1[0]
        elif t == self.x[-1]:
            return self.y2[-1]
        elif 0 < sum(self.x == t):
            return 0.5 * (self.y1[ind - 1] + self.y2[ind - 2])
        else:
            return self.y1[ind - 1] + (self.y2[ind - 1] - self.y1[ind - 1]) * (t - self.x[ind - 1]) / (self.x[ind] - self.x[ind - 1])

    def copy(self):
        """ Returns a copy of itself

        :rtype: :class:`PieceWiseLinFunc`
        """
        return PieceWiseLinFunc(self.x, self.y1, self.y2)

    def almost_equal(self, other, decimal=14):
        """ Checks if the function is equal to another function up to `decimal`
        precision.

        :param other: another :class:`PieceWiseLinFunc`
        :returns: True if the two functions are equal up to `decimal` decimals,
                  False otherwise
        :rtype: bool
        """
        return np.allclose(self.x, other.x, atol=10.0 ** (-decimal), rtol=0.0) and np.allclose(self.y1, other.y1, atol=10.0 ** (-decimal), rtol=0.0) and np.allclose(self.y2, other.y2, atol=10.0 ** (-decimal), rtol=0.0)

    def get_plottable_data(self):
        """ Returns two arrays containing x- and y-coordinates for immeditate
        plotting of the piece-wise function.

        :returns: (x_plot, y_plot) containing plottable data
        :rtype: pair of np.array

        Example::

            x, y = f.get_plottable_data()
            plt.plot(x, y, '-o', label="Piece-wise const function")
        """
        x_plot = np.empty(2 * len(self.x) - 2)
        x_plot[0] = self.x[0]
        x_plot[1::2] = self.x[1:]
        x_plot[2::2] = self.x[1:-1]
        y_plot = np.empty_like(x_plot)
        y_plot[0::2] = self.y1
        y_plot[1::2] = self.y2
        return (x_plot, y_plot)

    def integral(self, interval=None):
        """ Returns the integral over the given interval.

        :param interval: integration interval given as a pair of floats, if
                         None the integral over the whole function is computed.
        :type interval: Pair of floats or None.
        :returns: the integral
        :rtype: float
        """
        if interval is None:
            return np.sum(0.5 * (self.x[1:] - self.x[:-1]) * (self.y1 + self.y2))
        else:
            end_ind = np.searchsorted(self.x, interval[1], side='left') - 1
            start_ind = np.searchsorted(self.x, interval[0], side='right')
            assert 0 < start_ind and end_ind < len(self.x), 'Invalid averaging interval'
            if end_ind < start_ind:
                print(start_ind, end_ind, self.x[start_ind])
                y_x0 = self.y1[start_ind - 1] + (self.y2[start_ind - 1] - self.y1[start_ind - 1]) * (interval[0] - self.x[start_ind - 1]) / (self.x[start_ind] - self.x[start_ind - 1])
                y_x1 = self.y1[start_ind - 1] + (self.y2[start_ind - 1] - self.y1[start_ind - 1]) * (interval[1] - self.x[start_ind - 1]) / (self.x[start_ind] - self.x[start_ind - 1])
                print(y_x0, y_x1, interval[1] - interval[0])
                integral = 0.5 * (y_x0 + y_x1) * (interval[1] - interval[0])
                print(integral)
            else:
                integral = np.sum(0.5 * (self.x[start_ind + 1:end_ind + 1] - self.x[start_ind:end_ind]) * (self.y1[start_ind:end_ind] + self.y2[start_ind:end_ind]))
                integral += 0.5 * (self.x[start_ind] - interval[0]) * (self.y2[start_ind - 1] + (self.y1[start_ind - 1] + (self.y2[start_ind - 1] - self.y1[start_ind - 1]) * (interval[0] - self.x[start_ind - 1]) / (self.x[start_ind] - self.x[start_ind - 1])))
                integral += 0.5 * (interval[1] - self.x[end_ind]) * (self.y1[end_ind] + (self.y1[end_ind] + (self.y2[end_ind] - self.y1[end_ind]) * (interval[1] - self.x[end_ind]) / (self.x[end_ind + 1] - self.x[end_ind])))
            return integral

    def avrg(self, interval=None):
        """ Computes the average of the piece-wise linear function:
        :math:`a = 1/T \\int_0^T f(x) dx` where T is the interval length.

        :param interval: averaging interval given as a pair of floats, a
                         sequence of pairs for averaging multiple intervals, or
                         None, if None the average over the whole function is
                         computed.
        :type interval: Pair, sequence of pairs, or None.
        :returns: the average a.
        :rtype: float

        """
        if interval is None:
            return self.integral() / (self.x[-1] - self.x[0])
        else:
            assert isinstance(interval, collections.abc.Sequence), 'Invalid value for `interval`. None, Sequence or Tuple expected.'
            if isinstance(interval[0], collections.abc.Sequence):
                a = 0.0
                int_length = 0.0
                for ival in interval:
                    a += self.integral(ival)
                    int_length += ival[1] - ival[0]
                a /= int_length
            else:
                a = self.integral(interval) / (interval[1] - interval[0])
            return a

    def add(self, f):
        """ Adds another PieceWiseLin function to this function.
        Note: only functions defined on the same interval can be summed.

        :param f: :class:`PieceWiseLinFunc` function to be added.
        :rtype: None
        """
        assert self.x[0] == f.x[0], 'The functions have different intervals'
        assert self.x[-1] == f.x[-1], 'The functions have different intervals'
        try:
            from .cython.cython_add import add_piece_wise_lin_cython as add_piece_wise_lin_impl
        except ImportError:
            pyspike.NoCythonWarn()
            from .cython.python_backend import add_piece_wise_lin_python as add_piece_wise_lin_impl
        self.x, self.y1, self.y2 = add_piece_wise_lin_impl(self.x, self.y1, self.y2, f.x, f.y1, f.y2)

    def mul_scalar(self, fac):
        """ Multiplies the function with a scalar value

        :param fac: Value to multiply
        :type fac: double
        :rtype: None
        """
        self.y1 *= fac
        self.y2 *= fac
