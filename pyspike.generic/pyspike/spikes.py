import numpy as np
from pyspike import SpikeTrain

def spike_train_from_string(s, edges, sep=' ', is_sorted=False):
    """ Converts a string of times into a  :class:`.SpikeTrain`.

    :param s: the string with (ordered) spike times.
    :param edges: interval defining the edges of the spike train.
                  Given as a pair of floats (T0, T1) or a single float T1,
                  where T0=0 is assumed.
    :param sep: The separator between the time numbers, default=' '.
    :param is_sorted: if True, the spike times are not sorted after loading,
                      if False, spike times are sorted with `np.sort`
    :returns: :class:`.SpikeTrain`
    """
    return SpikeTrain(np.fromstring(s, sep=sep), edges, is_sorted)

def load_spike_trains_from_txt(file_name, edges, separator=' ', comment='#', is_sorted=False, ignore_empty_lines=True):
    """ Loads a number of spike trains from a text file. Each line of the text
    file should contain one spike train as a sequence of spike times separated
    by `separator`. Empty lines as well as lines starting with `comment` are
    neglected. The `edges` represents the start and the end of the
    spike trains.

    :param file_name: The name of the text file.
    :param edges: A pair (T_start, T_end) of values representing the
                  start and end time of the spike train measurement
                  or a single value representing the end time, the
                  T_start is then assuemd as 0.
    :param separator: The character used to seprate the values in the text file
    :param comment: Lines starting with this character are ignored.
    :param sort: If true, the spike times are order via `np.sort`, default=True
    :returns: list of :class:`.SpikeTrain`
    """
    spike_trains = []
    with open(file_name, 'r') as spike_file:
        for line in spike_file:
            if not line.startswith(comment):
                if 1 < len(line):
                    spike_trains.append(spike_train_from_string(line, edges, separator, is_sorted))
                elif not ignore_empty_lines:
                    spike_trains.append(SpikeTrain([], edges))
    return spike_trains

def import_spike_trains_from_time_series(file_name, start_time, time_bin, separator=None, comment='#'):
    """ Imports spike trains from time series consisting of 0 and 1 denoting
    the absence or presence of a spike. Each line in the data file represents
    one spike train.

    :param file_name: The name of the data file containing the time series.
    :param edges: A pair (T_start, T_end) of values representing the
                  start and end time of the spike train measurement
                  or a single value representing the end time, the
                  T_start is then assuemd as 0.
    :param separator: The character used to seprate the values in the text file
    :param comment: Lines starting with this character are ignored.

    """
    data = np.loadtxt(file_name, comments=comment, delimiter=separator)
    spike_trains = []
    time_points = start_time + time_bin + np.arange(len(data[0, :])) * time_bin
    for time_series in data:
        spike_trains.append(SpikeTrain(time_points[0 < time_series], edges=[start_time, time_points[len(time_points) - 1]]))
    return spike_trains

def save_spike_trains_to_txt(spike_trains, file_name, separator=' ', precision=8):
    """ Saves the given spike trains into a file with the given file name.
    Each spike train will be stored in one line in the text file with the times
    separated by `separator`.

    :param spike_trains: List of :class:`.SpikeTrain` objects
    :param file_name: The name of the text file.
    """
    with open(file_name, 'w') as spike_file:
        for st in spike_trains:
            spike_file.write(separator.join(map(('{0:.%de}' % precision).format, st.spikes)) + '\n')

def merge_spike_trains(spike_trains):
    """ Merges a number of spike trains into a single spike train.

    :param spike_trains: list of :class:`.SpikeTrain`
    :returns: spike train with the merged spike times
    """
    merged_spikes = np.concatenate([st.spikes for st in spike_trains])
    merged_spikes.sort()
    return SpikeTrain(merged_spikes, [spike_trains[0].t_start, spike_trains[0].t_end])

def generate_poisson_spikes(rate, interval):
    """ Generates a Poisson spike train with the given rate in the given time
    interval

    :param rate: The rate of the spike trains
    :param interval: A pair (T_start, T_end) of values representing the
                     start and end time of the spike train measurement or
                     a single value representing the end time, the T_start
                     is then assuemd as 0. Auxiliary spikes will be added
                     to the spike train at the beginning and end of this
                     interval, if they are not yet present.
    :type interval: pair of doubles or double
    :returns: Poisson spike train as a :class:`.SpikeTrain`
    """
    try:
        T_end = interval[1]
        T_start = interval[0]
    except:
        T_end = interval
        T_start = 0
    N_append = max(1, int(0.1 * rate * (T_end - T_start)))
    intervals = np.random.exponential(1.0 / rate, max(1, int(1.2 * rate * (T_end - T_start))))
    while T_start + sum(intervals) < T_end:
        intervals = np.append(intervals, np.random.exponential(1.0 / rate, N_append))
    spikes = T_start + np.cumsum(intervals)
    spikes = spikes[spikes < T_end]
    return SpikeTrain(spikes, interval)

def reconcile_spike_trains(spike_trains):
    """ make sure that Spike trains meet PySpike rules
            In: spike_trains - a list of SpikeTrain objects
            Out: spike_trains - same list with some fixes:
              1) t_start and t_end are the same for every train
              2) The spike times are sorted
              3) No duplicate times in any train  
              4) spike times outside of t_start,t_end removed
    """
    spike_trains = [SpikeTrain(np.unique(s.spikes), [s.t_start, s.t_end], is_sorted=True) for s in spike_trains]
    tEnd = max([s.t_end for s in spike_trains])
    tStart = min([s.t_start for s in spike_trains])
    for s in spike_trains:
        s.spikes = [t for t in s.spikes if t < tEnd + 1e-06 and tStart - 1e-06 < t]
    return [SpikeTrain(s.spikes, [tStart, tEnd], is_sorted=True) for s in spike_trains]

def reconcile_spike_trains_bi(spike_train1, spike_train2):
    """ fix up a pair of spike trains"""
    trains_out = reconcile_spike_trains([spike_train1, spike_train2])
    return (trains_out[0], trains_out[1])
