from __future__ import absolute_import
import numpy as np
from functools import partial
import pyspike
from pyspike import DiscreteFunc, SpikeTrain
from pyspike.generic import _generic_profile_multi, _generic_distance_matrix, resolve_keywords
from pyspike.isi_lengths import default_thresh
from pyspike.spikes import reconcile_spike_trains, reconcile_spike_trains_bi

def spike_sync_profile(*args, **kwargs):
    """ Computes the spike-synchronization profile S_sync(t) of the given
    spike trains. Returns the profile as a DiscreteFunction object. In the
    bivariate case, he S_sync values are either 1 or 0, indicating the presence
    or absence of a coincidence. For multi-variate cases, each spike in the set
    of spike trains, the profile is defined as the number of coincidences
    divided by the number of spike trains pairs involving the spike train of
    containing this spike, which is the number of spike trains minus one (N-1).

    Valid call structures::

      spike_sync_profile(st1, st2)  # returns the bi-variate profile
      spike_sync_profile(st1, st2, st3)  # multi-variate profile of 3 sts

      sts = [st1, st2, st3, st4]  # list of spike trains
      spike_sync_profile(sts)  # profile of the list of spike trains
      spike_sync_profile(sts, indices=[0, 1])  # use only the spike trains
                                               # given by the indices

    In the multivariate case, the profile is defined as the number of
    coincidences for each spike in the set of spike trains divided by the
    number of spike trains pairs involving the spike train of containing this
    spike, which is the number of spike trains minus one (N-1).

    :returns: The spike-sync profile :math:`S_{sync}(t)`.
    :rtype: :class:`pyspike.function.DiscreteFunction`
    """
    if len(args) == 1:
        return spike_sync_profile_multi(args[0], **kwargs)
    elif len(args) == 2:
        return spike_sync_profile_bi(args[0], args[1], **kwargs)
    else:
        return spike_sync_profile_multi(args, **kwargs)

def spike_sync_profile_bi(spike_train1, spike_train2, max_tau=None, **kwargs):
    """ Specific function to compute a bivariate SPIKE-Sync-profile. This is a
    deprecated function and should not be called directly. Use
    :func:`.spike_sync_profile` to compute SPIKE-Sync-profiles.

    :param spike_train1: First spike train.
    :type spike_train1: :class:`pyspike.SpikeTrain`
    :param spike_train2: Second spike train.
    :type spike_train2: :class:`pyspike.SpikeTrain`
    :param max_tau: Maximum coincidence window size. If 0 or `None`, the
                    coincidence window has no upper bound.
    :returns: The spike-sync profile :math:`S_{sync}(t)`.
    :rtype: :class:`pyspike.function.DiscreteFunction`

    """
    MRTS, RI = resolve_keywords(**kwargs)
    if kwargs.get('Reconcile', True):
        spike_train1, spike_train2 = reconcile_spike_trains_bi(spike_train1, spike_train2)
    try:
        from .cython.cython_profiles import coincidence_profile_cython as coincidence_profile_impl
    except ImportError:
        pyspike.NoCythonWarn()
        from .cython.python_backend import coincidence_python as coincidence_profile_impl
    if isinstance(MRTS, str):
        MRTS = default_thresh([spike_train1, spike_train2])
    if max_tau is None:
        max_tau = 0.0
    times, coincidences, multiplicity = coincidence_profile_impl(spike_train1.spikes, spike_train2.spikes, spike_train1.t_start, spike_train1.t_end, max_tau, MRTS)
    return DiscreteFunc(times, coincidences, multiplicity)

def spike_sync_profile_multi(spike_trains, indices=None, max_tau=None, **kwargs):
    """  Specific function to compute a multivariate SPIKE-Sync-profile.
    This is a deprecated function and should not be called directly. Use
    :func:`.spike_sync_profile` to compute SPIKE-Sync-profiles.

    :param spike_trains: list of :class:`pyspike.SpikeTrain`
    :param indices: list of indices defining which spike trains to use,
                    if None all given spike trains are used (default=None)
    :type indices: list or None
    :param max_tau: Maximum coincidence window size. If 0 or `None`, the
                    coincidence window has no upper bound.
    :returns: The multi-variate spike sync profile :math:`<S_{sync}>(t)`
    :rtype: :class:`pyspike.function.DiscreteFunction`

    """
    average_prof, M = _generic_profile_multi(spike_trains, partial(spike_sync_profile_bi, max_tau=max_tau), indices, **kwargs)
    return average_prof

def _spike_sync_values(spike_train1, spike_train2, interval, max_tau, **kwargs):
    """" Internal function. Computes the summed coincidences and multiplicity
    for spike synchronization of the two given spike trains.

    Do not call this function directly, use `spike_sync` or `spike_sync_multi`
    instead.
    """
    MRTS, RI = resolve_keywords(**kwargs)
    if isinstance(MRTS, str):
        MRTS = default_thresh([spike_train1, spike_train2])
    if interval is None:
        try:
            from .cython.cython_distances import coincidence_value_cython as coincidence_value_impl
            if max_tau is None:
                max_tau = 0.0
            c, mp = coincidence_value_impl(spike_train1.spikes, spike_train2.spikes, spike_train1.t_start, spike_train1.t_end, max_tau, MRTS)
            return (c, mp)
        except ImportError:
            return spike_sync_profile_bi(spike_train1, spike_train2, max_tau, **kwargs).integral(interval)
    else:
        return spike_sync_profile_bi(spike_train1, spike_train2, max_tau, **kwargs).integral(interval)

def spike_sync(*args, **kwargs):
    """ Computes the spike synchronization value of the given spike
    trains. The spike synchronization value is the computed as the total number
    of coincidences divided by the total number of spikes:

    .. math:: SYNC = \\sum_n C_n / N.


    Valid call structures::

      spike_sync(st1, st2)  # returns the bi-variate spike synchronization
      spike_sync(st1, st2, st3)  # multi-variate result for 3 spike trains

      spike_trains = [st1, st2, st3, st4]  # list of spike trains
      spike_sync(spike_trains)  # spike-sync of the list of spike trains
      spike_sync(spike_trains, indices=[0, 1])  # use only the spike trains
                                                # given by the indices

    The multivariate SPIKE-Sync is again defined as the overall ratio of all
    coincidence values divided by the total number of spikes.

    :returns: The spike synchronization value.
    :rtype: `double`
    """
    N_args = len(args)
    if N_args == 1:
        return spike_sync_multi(args[0], **kwargs)
    elif N_args == 2:
        return spike_sync_bi(args[0], args[1], **kwargs)
    else:
        return spike_sync_multi(args, **kwargs)

def spike_sync_bi(spike_train1, spike_train2, interval=None, max_tau=None, **kwargs):
    """ Specific function to compute a bivariate SPIKE-Sync value.
    This is a deprecated function and should not be called directly. Use
    :func:`.spike_sync` to compute SPIKE-Sync values.

    :param spike_train1: First spike train.
    :type spike_train1: :class:`pyspike.SpikeTrain`
    :param spike_train2: Second spike train.
    :type spike_train2: :class:`pyspike.SpikeTrain`
    :param interval: averaging interval given as a pair of floats (T0, T1),
                     if `None` the average over the whole function is computed.
    :type interval: Pair of floats or None.
    :param max_tau: Maximum coincidence window size. If 0 or `None`, the
                    coincidence window has no upper bound.
    :returns: The spike synchronization value.
    :rtype: `double`

    """
    if kwargs.get('Reconcile', True):
        spike_train1, spike_train2 = reconcile_spike_trains_bi(spike_train1, spike_train2)
        kwargs['Reconcile'] = False
    c, mp = _spike_sync_values(spike_train1, spike_train2, interval, max_tau, **kwargs)
    if mp == 0:
        return 1.0
    else:
        return 1.0 * c / mp

def spike_sync_multi(spike_trains, indices=None, interval=None, max_tau=None, **kwargs):
    """ Specific function to compute a multivariate SPIKE-Sync value.
    This is a deprecated function and should not be called directly. Use
    :func:`.spike_sync` to compute SPIKE-Sync values.

    :param spike_trains: list of :class:`pyspike.SpikeTrain`
    :param indices: list of indices defining which spike trains to use,
                    if None all given spike trains are used (default=None)
    :type indices: list or None
    :param interval: averaging interval given as a pair of floats, if None
                     the average over the whole function is computed.
    :type interval: Pair of floats or None.
    :param max_tau: Maximum coincidence window size. If 0 or `None`, the
                    coincidence window has no upper bound.
    :returns: The multi-variate spike synchronization value SYNC.
    :rtype: double

    """
    if kwargs.get('Reconcile', True):
        kwargs['Reconcile'] = False
        spike_trains = reconcile_spike_trains(spike_trains)
    MRTS, RI = resolve_keywords(**kwargs)
    if indices is None:
        indices = np.arange(len(spike_trains))
    indices = np.array(indices)
    if isinstance(MRTS, str):
        kwargs['MRTS'] = default_thresh(spike_trains)
    assert (indices < len(spike_trains)).all() and (0 <= indices).all(), 'Invalid index list.'
    coincidence = 0.0
    mp = 0.0
    pairs = [(indices[i], j) for i in range(len(indices)) for j in indices[i + 1:]]
    for i, j in pairs:
        c, m = _spike_sync_values(spike_trains[i], spike_trains[j], interval, max_tau, **kwargs)
        coincidence += c
        mp += m
    if mp == 0.0:
        return 1.0
    else:
        return coincidence / mp

def spike_sync_matrix(spike_trains, indices=None, interval=None, max_tau=None, **kwargs):
    """ Computes the overall spike-synchronization value of all pairs of
    spike-trains.

    :param spike_trains: list of :class:`pyspike.SpikeTrain`
    :param indices: list of indices defining which spike trains to use,
                    if None all given spike trains are used (default=None)
    :type indices: list or None
    :param interval: averaging interval given as a pair of floats, if None
                     the average over the whole function is computed.
    :type interval: Pair of floats or None.
    :param max_tau: Maximum coincidence window size. If 0 or `None`, the
                    coincidence window has no upper bound.
    :returns: 2D array with the pair wise time spike synchronization values
              :math:`SYNC_{ij}`
    :rtype: np.array

    """
    ShouldBeSync = _generic_distance_matrix(spike_trains, partial(spike_sync_bi, max_tau=max_tau), indices, interval, **kwargs)
    for i in range(ShouldBeSync.shape[0]):
        ShouldBeSync[i][i] = 1.0
    return ShouldBeSync

def filter_by_spike_sync(spike_trains, threshold, indices=None, max_tau=None, return_removed_spikes=False, **kwargs):
    """ Removes the spikes with a multi-variate spike_sync value below
    threshold.
    """
    MRTS, RI = resolve_keywords(**kwargs)
    if kwargs.get('Reconcile', True):
        spike_trains = reconcile_spike_trains(spike_trains)
    N = len(spike_trains)
    filtered_spike_trains = []
    removed_spike_trains = []
    try:
        from .cython.cython_profiles import coincidence_single_profile_cython as coincidence_impl
    except ImportError:
        pyspike.NoCythonWarn()
        from .cython.python_backend import coincidence_single_python as coincidence_impl
    if isinstance(MRTS, str):
        MRTS = default_thresh(spike_trains)
    if max_tau is None:
        max_tau = 0.0
    for i, st in enumerate(spike_trains):
        coincidences = np.zeros_like(st)
        for j in range(N):
            if i != j:
                coincidences += coincidence_impl(st.spikes, spike_trains[j].spikes, st.t_start, st.t_end, max_tau, MRTS)
        filtered_spike_trains.append(SpikeTrain(st[threshold * (N - 1) < coincidences], [st.t_start, st.t_end]))
        if return_removed_spikes:
            removed_spike_trains.append(SpikeTrain(st[coincidences <= threshold * (N - 1)], [st.t_start, st.t_end]))
    if return_removed_spikes:
        return [filtered_spike_trains, removed_spike_trains]
    else:
        return filtered_spike_trains
