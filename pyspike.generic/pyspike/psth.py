import numpy as np
from pyspike import PieceWiseConstFunc

def psth(spike_trains, bin_size):
    """ Computes the peri-stimulus time histogram of a set of
    :class:`.SpikeTrain`. The PSTH is simply the histogram of merged spike
    events. The :code:`bin_size` defines the width of the histogram bins.

    :param spike_trains: list of :class:`.SpikeTrain`
    :param bin_size: width of the histogram bins.
    :return: The PSTH as a :class:`.PieceWiseConstFunc`
    """
    N_spike_trains = len(spike_trains)
    combined_spike_train = spike_trains[0].spikes
    for i in range(1, N_spike_trains):
        combined_spike_train = np.append(combined_spike_train, spike_trains[i].spikes)
    vals, edges = np.histogram(combined_spike_train, np.linspace(spike_trains[0].t_start, spike_trains[0].t_end, int((spike_trains[0].t_end - spike_trains[0].t_start) / bin_size) + 1), density=False)
    bin_size = edges[1] - edges[0]
    return PieceWiseConstFunc(edges, vals)
