from __future__ import absolute_import
import numpy as np
import pyspike
from pyspike import DiscreteFunc
from functools import partial
from pyspike.generic import _generic_profile_multi, resolve_keywords
from pyspike.isi_lengths import default_thresh
from pyspike.spikes import reconcile_spike_trains, reconcile_spike_trains_bi

def spike_directionality_values(*args, **kwargs):
    """ Computes the spike directionality value for each spike in
    each spike train. Returns a list containing an array of spike directionality
    values for every given spike train.

    Valid call structures::

      spike_directionality_values(st1, st2)       # returns the bi-variate profile
      spike_directionality_values(st1, st2, st3)  # multi-variate profile of 3
                                                   # spike trains

      spike_trains = [st1, st2, st3, st4]          # list of spike trains
      spike_directionality_values(spike_trains)    # profile of the list of spike trains
      spike_directionality_values(spike_trains, indices=[0, 1])  # use only the spike trains
                                                                  # given by the indices

    Additonal arguments: 
    :param max_tau: Upper bound for coincidence window (default=None).
    :param indices: list of indices defining which spike trains to use,
                    if None all given spike trains are used (default=None)

    :returns: The spike directionality values :math:`D^n_i` as a list of arrays.
    """
    N_args = len(args)
    if N_args == 1:
        return _spike_directionality_values_impl(args[0], **kwargs)
    else:
        return _spike_directionality_values_impl(args, **kwargs)

def _spike_directionality_values_impl(spike_trains, indices=None, interval=None, max_tau=None, **kwargs):
    """ Computes the multi-variate spike directionality profile 
    of the given spike trains.

    :param spike_trains: List of spike trains.
    :type spike_trains: List of :class:`pyspike.SpikeTrain`
    :param indices: list of indices defining which spike trains to use,
                    if None all given spike trains are used (default=None)
    :type indices: list or None
    :param max_tau: Maximum coincidence window size. If 0 or `None`, the
                    coincidence window has no upper bound.
    :returns: The spike-directionality values.
    """
    MRTS, RI = resolve_keywords(**kwargs)
    if kwargs.get('Reconcile', True):
        spike_trains = reconcile_spike_trains(spike_trains)
    if isinstance(MRTS, str):
        MRTS = default_thresh(spike_trains)
    if interval is None:
        if indices is None:
            indices = np.arange(len(spike_trains))
        indices = np.array(indices)
        assert (indices < len(spike_trains)).all() and (0 <= indices).all(), 'Invalid index list.'
        asymmetry_list = [np.zeros_like(spike_trains[n].spikes) for n in indices]
        pairs = [(i, j) for i in range(len(indices)) for j in range(i + 1, len(indices))]
        try:
            from .cython.cython_directionality import spike_directionality_profiles_cython as profile_impl
        except ImportError:
            pyspike.NoCythonWarn()
            from .cython.directionality_python_backend import spike_directionality_profile_python as profile_impl
        if max_tau is None:
            max_tau = 0.0
        for i, j in pairs:
            d1, d2 = profile_impl(spike_trains[indices[i]].spikes, spike_trains[indices[j]].spikes, spike_trains[indices[i]].t_start, spike_trains[indices[i]].t_end, max_tau, MRTS)
            asymmetry_list[i] += d1
            asymmetry_list[j] += d2
        for a in asymmetry_list:
            a /= len(indices) - 1
        return asymmetry_list
    else:
        raise NotImplementedError('Parameter `interval` not supported.')

def spike_directionality(spike_train1, spike_train2, normalize=True, interval=None, max_tau=None, **kwargs):
    """ Computes the overall spike directionality of the first spike train with
    respect to the second spike train.

    :param spike_train1: First spike train.
    :type spike_train1: :class:`pyspike.SpikeTrain`
    :param spike_train2: Second spike train.
    :type spike_train2: :class:`pyspike.SpikeTrain`
    :param normalize: Normalize by the number of spikes (multiplicity).
    :param max_tau: Maximum coincidence window size. If 0 or `None`, the
                    coincidence window has no upper bound.
    :returns: The spike train order profile :math:`E(t)`.
    """
    MRTS, RI = resolve_keywords(**kwargs)
    if kwargs.get('Reconcile', True):
        spike_train1, spike_train2 = reconcile_spike_trains_bi(spike_train1, spike_train2)
    if isinstance(MRTS, str):
        MRTS = default_thresh([spike_train1, spike_train2])
    if interval is None:
        try:
            from .cython.cython_directionality import spike_directionality_cython as spike_directionality_impl
            if max_tau is None:
                max_tau = 0.0
            d = spike_directionality_impl(spike_train1.spikes, spike_train2.spikes, spike_train1.t_start, spike_train1.t_end, max_tau, MRTS)
        except ImportError:
            pyspike.NoCythonWarn()
            d1, x = spike_directionality_values([spike_train1, spike_train2], interval=interval, max_tau=max_tau, MRTS=MRTS)
            d = np.sum(d1)
        if normalize:
            if 0 < len(spike_train1.spikes):
                return 1.0 * d / len(spike_train1.spikes)
            else:
                return 0.0
        else:
            return d
    else:
        raise NotImplementedError('Parameter `interval` not supported.')

def spike_directionality_matrix(spike_trains, normalize=True, indices=None, interval=None, max_tau=None, **kwargs):
    """ Computes the spike directionality matrix for the given spike trains.

    :param spike_trains: List of spike trains.
    :type spike_trains: List of :class:`pyspike.SpikeTrain`
    :param normalize: Normalize by the number of spikes (multiplicity).
    :param indices: list of indices defining which spike trains to use,
                    if None all given spike trains are used (default=None)
    :type indices: list or None
    :param max_tau: Maximum coincidence window size. If 0 or `None`, the
                    coincidence window has no upper bound.
    :returns: The spike-directionality values.
    """
    MRTS, RI = resolve_keywords(**kwargs)
    if kwargs.get('Reconcile', True):
        spike_trains = reconcile_spike_trains(spike_trains)
    if indices is None:
        indices = np.arange(len(spike_trains))
    indices = np.array(indices)
    if isinstance(MRTS, str):
        MRTS = default_thresh(spike_trains)
    assert (indices < len(spike_trains)).all() and (0 <= indices).all(), 'Invalid index list.'
    distance_matrix = np.zeros((len(indices), len(indices)))
    pairs = [(i, j) for i in range(len(indices)) for j in range(i + 1, len(indices))]
    for i, j in pairs:
        d = spike_directionality(spike_trains[indices[i]], spike_trains[indices[j]], normalize, interval, max_tau=max_tau, MRTS=MRTS, RI=RI, Reconcile=False)
        distance_matrix[i, j] = d
        distance_matrix[j, i] = -d
    return distance_matrix

def spike_train_order_profile(*args, **kwargs):
    """ Computes the spike train order profile :math:`E(t)` of the given
    spike trains. Returns the profile as a DiscreteFunction object.

    Valid call structures::

      spike_train_order_profile(st1, st2)       # returns the bi-variate profile
      spike_train_order_profile(st1, st2, st3)  # multi-variate profile of 3
                                                # spike trains

      spike_trains = [st1, st2, st3, st4]       # list of spike trains
      spike_train_order_profile(spike_trains)   # profile of the list of spike trains
      spike_train_order_profile(spike_trains, indices=[0, 1])  # use only the spike trains
                                                               # given by the indices

    Additonal arguments: 
    :param max_tau: Upper bound for coincidence window, `default=None`.
    :param indices: list of indices defining which spike trains to use,
                    if None all given spike trains are used (default=None)

    :returns: The spike train order profile :math:`E(t)`
    :rtype: :class:`.DiscreteFunction`
    """
    if len(args) == 1:
        return spike_train_order_profile_multi(args[0], **kwargs)
    elif len(args) == 2:
        return spike_train_order_profile_bi(args[0], args[1], **kwargs)
    else:
        return spike_train_order_profile_multi(args, **kwargs)

def spike_train_order_profile_bi(spike_train1, spike_train2, max_tau=None, **kwargs):
    """ Computes the spike train order profile P(t) of the two given
    spike trains. Returns the profile as a DiscreteFunction object.

    :param spike_train1: First spike train.
    :type spike_train1: :class:`pyspike.SpikeTrain`
    :param spike_train2: Second spike train.
    :type spike_train2: :class:`pyspike.SpikeTrain`
    :param max_tau: Maximum coincidence window size. If 0 or `None`, the
                    coincidence window has no upper bound.
    :returns: The spike train order profile :math:`E(t)`.
    :rtype: :class:`pyspike.function.DiscreteFunction`
    """
    MRTS, RI = resolve_keywords(**kwargs)
    if kwargs.get('Reconcile', True):
        spike_train1, spike_train2 = reconcile_spike_trains_bi(spike_train1, spike_train2)
    if isinstance(MRTS, str):
        MRTS = default_thresh([spike_train1, spike_train2])
    assert spike_train1.t_start == spike_train2.t_start, 'Given spike trains are not defined on the same interval!'
    assert spike_train1.t_end == spike_train2.t_end, 'Given spike trains are not defined on the same interval!'
    try:
        from .cython.cython_directionality import spike_train_order_profile_cython as spike_train_order_profile_impl
    except ImportError:
        pyspike.NoCythonWarn()
        from .cython.directionality_python_backend import spike_train_order_profile_python as spike_train_order_profile_impl
    if max_tau is None:
        max_tau = 0.0
    times, coincidences, multiplicity = spike_train_order_profile_impl(spike_train1.spikes, spike_train2.spikes, spike_train1.t_start, spike_train1.t_end, max_tau, MRTS)
    return DiscreteFunc(times, coincidences, multiplicity)

def spike_train_order_profile_multi(spike_trains, indices=None, max_tau=None, **kwargs):
    """ Computes the multi-variate spike train order profile for a set of
    spike trains. For each spike in the set of spike trains, the multi-variate
    profile is defined as the sum of asymmetry values divided by the number of
    spike trains pairs involving the spike train of containing this spike,
    which is the number of spike trains minus one (N-1).

    :param spike_trains: list of :class:`pyspike.SpikeTrain`
    :param indices: list of indices defining which spike trains to use,
                    if None all given spike trains are used (default=None)
    :type indices: list or None
    :param max_tau: Maximum coincidence window size. If 0 or `None`, the
                    coincidence window has no upper bound.
    :returns: The multi-variate spike sync profile :math:`<S_{sync}>(t)`
    :rtype: :class:`pyspike.function.DiscreteFunction`
    """
    average_prof, M = _generic_profile_multi(spike_trains, partial(spike_train_order_profile_bi, max_tau=max_tau), indices, **kwargs)
    return average_prof

def _spike_train_order_impl(spike_train1, spike_train2, interval=None, max_tau=None, **kwargs):
    """ Implementation of bi-variatae spike train order value (Synfire Indicator).

    :param spike_train1: First spike train.
    :type spike_train1: :class:`pyspike.SpikeTrain`
    :param spike_train2: Second spike train.
    :type spike_train2: :class:`pyspike.SpikeTrain`
    :param max_tau: Maximum coincidence window size. If 0 or `None`, the
                    coincidence window has no upper bound.
    :returns: The spike train order value (Synfire Indicator)
    """
    MRTS, RI = resolve_keywords(**kwargs)
    if isinstance(MRTS, str):
        MRTS = default_thresh([spike_train1, spike_train2])
    if interval is None:
        try:
            from .cython.cython_directionality import spike_train_order_cython as spike_train_order_func
            if max_tau is None:
                max_tau = 0.0
            c, mp = spike_train_order_func(spike_train1.spikes, spike_train2.spikes, spike_train1.t_start, spike_train1.t_end, max_tau, MRTS)
        except ImportError:
            c, mp = spike_train_order_profile(spike_train1, spike_train2, max_tau=max_tau, MRTS=MRTS).integral(interval)
        return (c, mp)
    else:
        raise NotImplementedError('Parameter `interval` not supported.')

def spike_train_order(*args, **kwargs):
    """ Computes the spike train order (Synfire Indicator) of the given
    spike trains.

    Valid call structures::

      spike_train_order(st1, st2, normalize=True)  # normalized bi-variate
                                                    # spike train order
      spike_train_order(st1, st2, st3)  # multi-variate result of 3 spike trains

      spike_trains = [st1, st2, st3, st4]       # list of spike trains
      spike_train_order(spike_trains)   # result for the list of spike trains
      spike_train_order(spike_trains, indices=[0, 1])  # use only the spike trains
                                                       # given by the indices

    Additonal arguments: 
     - `max_tau` Upper bound for coincidence window, `default=None`.
     - `normalize` Flag indicating if the reslut should be normalized by the
       number of spikes , default=`False`


    :returns: The spike train order value (Synfire Indicator)
    """
    N_args = len(args)
    if N_args == 1:
        return spike_train_order_multi(args[0], **kwargs)
    elif N_args == 2:
        return spike_train_order_bi(args[0], args[1], **kwargs)
    else:
        return spike_train_order_multi(args, **kwargs)

def spike_train_order_bi(spike_train1, spike_train2, normalize=True, interval=None, max_tau=None, **kwargs):
    """ Computes the overall spike train order value (Synfire Indicator)
    for two spike trains.

    :param spike_train1: First spike train.
    :type spike_train1: :class:`pyspike.SpikeTrain`
    :param spike_train2: Second spike train.
    :type spike_train2: :class:`pyspike.SpikeTrain`
    :param normalize: Normalize by the number of spikes (multiplicity).
    :param max_tau: Maximum coincidence window size. If 0 or `None`, the
                    coincidence window has no upper bound.
    :returns: The spike train order value (Synfire Indicator)
    """
    if kwargs.get('Reconcile', True):
        spike_train1, spike_train2 = reconcile_spike_trains_bi(spike_train1, spike_train2)
        kwargs['Reconcile'] = False
    c, mp = _spike_train_order_impl(spike_train1, spike_train2, interval, max_tau, **kwargs)
    if normalize:
        if mp == 0:
            return 1.0
        else:
            return 1.0 * c / mp
    else:
        return c

def spike_train_order_multi(spike_trains, indices=None, normalize=True, interval=None, max_tau=None, **kwargs):
    """ Computes the overall spike train order value (Synfire Indicator)
    for many spike trains.

    :param spike_trains: list of :class:`.SpikeTrain`
    :param indices: list of indices defining which spike trains to use,
                    if None all given spike trains are used (default=None)
    :param normalize: Normalize by the number of spike (multiplicity).
    :param interval: averaging interval given as a pair of floats, if None
                     the average over the whole function is computed.
    :type interval: Pair of floats or None.
    :param max_tau: Maximum coincidence window size. If 0 or `None`, the
                    coincidence window has no upper bound.
    :returns: Spike train order values (Synfire Indicator) F for the given spike trains.
    :rtype: double
    """
    MRTS, RI = resolve_keywords(**kwargs)
    if kwargs.get('Reconcile', True):
        spike_trains = reconcile_spike_trains(spike_trains)
    if indices is None:
        indices = np.arange(len(spike_trains))
    indices = np.array(indices)
    if isinstance(MRTS, str):
        MRTS = default_thresh(spike_trains)
    assert (indices < len(spike_trains)).all() and (0 <= indices).all(), 'Invalid index list.'
    e_total = 0.0
    m_total = 0.0
    pairs = [(indices[i], j) for i in range(len(indices)) for j in indices[i + 1:]]
    for i, j in pairs:
        e, m = _spike_train_order_impl(spike_trains[i], spike_trains[j], interval, max_tau, MRTS=MRTS, RI=RI)
        e_total += e
        m_total += m
    if m_total == 0.0:
        return 1.0
    else:
        return e_total / m_total

def _optimal_spike_train_sorting_from_matrix(D, full_output=False):
    """ Finds the best sorting via simulated annealing.
    Returns the optimal permutation p and A value.
    Not for direct use, call :func:`.optimal_spike_train_sorting` instead.

    :param D: The directionality (Spike-ORDER) matrix.
    :param full_output: If true, then function will additionally return the
                        number of performed iterations (default=False)
    :return: (p, F) - tuple with the optimal permutation and synfire indicator.
             if `full_output=True` , (p, F, iter) is returned.
    """
    N_D = len(D)
    A = np.sum(np.triu(D, 0))
    T_start = 2 * np.max(D)
    p = np.arange(N_D)
    try:
        from .cython.cython_simulated_annealing import sim_ann_cython as sim_ann
    except ImportError:
        raise NotImplementedError('PySpike with Cython required for computing spike train sorting!')
    p, A, total_iter = sim_ann(D, T_start, 1e-05 * T_start, 0.9)
    if full_output:
        return (p, A, total_iter)
    else:
        return (p, A)

def optimal_spike_train_sorting(spike_trains, indices=None, interval=None, max_tau=None, full_output=False, **kwargs):
    """ Finds the best sorting of the given spike trains by computing the spike
    directionality matrix and optimize the order using simulated annealing.
    For a detailed description of the algorithm see:
    `http://iopscience.iop.org/article/10.1088/1367-2630/aa68c3/meta`
    
    :param spike_trains: list of :class:`.SpikeTrain`
    :param indices: list of indices defining which spike trains to use,
                    if None all given spike trains are used (default=None)
    :type indices: list or None
    :param interval: time interval filter given as a pair of floats, if None
                     the full spike trains are used (default=None).
    :type interval: Pair of floats or None.
    :param max_tau: Maximum coincidence window size. If 0 or `None`, the
                    coincidence window has no upper bound (default=None).
    :param full_output: If true, then function will additionally return the
                        number of performed iterations (default=False)
    :return: (p, F) - tuple with the optimal permutation and synfire indicator.
             if `full_output=True` , (p, F, iter) is returned.
    """
    return _optimal_spike_train_sorting_from_matrix(spike_directionality_matrix(spike_trains, normalize=False, indices=indices, interval=interval, max_tau=max_tau, **kwargs), full_output)

def permutate_matrix(D, p):
    """ Helper function that applies the permutation p to the columns and rows
    of matrix D. Return the permutated matrix :math:`D'[n,m] = D[p[n], p[m]]`.

    :param D: The matrix.
    :param d: The permutation.
    :return: The permuated matrix D', ie :math:`D'[n,m] = D[p[n], p[m]]`
    """
    N_D = len(D)
    D_p = np.empty_like(D)
    for n in range(N_D):
        for m in range(N_D):
            D_p[n, m] = D[p[n], p[m]]
    return D_p
