"""
Copyright 2014-2018, Mario Mulansky <mario.mulansky@gmx.net>

Distributed under the BSD License
"""
from __future__ import absolute_import
__all__ = ['isi_distance', 'spike_distance', 'spike_sync', 'psth', 'spikes', 'spike_directionality', 'SpikeTrain', 'PieceWiseConstFunc', 'PieceWiseLinFunc', 'DiscreteFunc']
from .PieceWiseConstFunc import PieceWiseConstFunc
from .PieceWiseLinFunc import PieceWiseLinFunc
from .DiscreteFunc import DiscreteFunc
from .SpikeTrain import SpikeTrain
from .isi_distance import isi_profile, isi_distance, isi_profile_multi, isi_distance_multi, isi_distance_matrix
from .spike_distance import spike_profile, spike_distance, spike_profile_multi, spike_distance_multi, spike_distance_matrix
from .spike_sync import spike_sync_profile, spike_sync, spike_sync_profile_multi, spike_sync_multi, spike_sync_matrix, filter_by_spike_sync
from .psth import psth
from .spikes import load_spike_trains_from_txt, save_spike_trains_to_txt, spike_train_from_string, import_spike_trains_from_time_series, merge_spike_trains, generate_poisson_spikes
from .spike_directionality import spike_directionality, spike_directionality_values, spike_directionality_matrix, spike_train_order_profile, spike_train_order_profile_bi, spike_train_order_profile_multi, spike_train_order, spike_train_order_bi, spike_train_order_multi, optimal_spike_train_sorting, permutate_matrix
from pkg_resources import get_distribution, DistributionNotFound
import os.path
try:
    _dist = get_distribution('pyspike')
    dist_loc = os.path.normcase(_dist.location)
    here = os.path.normcase(__file__)
    if not here.startswith(os.path.join(dist_loc, 'pyspike')):
        raise DistributionNotFound
except DistributionNotFound:
    __version__ = 'Please install this project with setup.py'
else:
    __version__ = _dist.version
disable_backend_warning = False

def NoCythonWarn():
    """ Warn exactly once
         (called when an import of one of the cython_...so modules failed)
    """
    global disable_backend_warning
    if not disable_backend_warning:
        print('Warning: Cython implementation not found.' + ' Make sure that PySpike is installed by running\n' + " 'python setup.py build_ext --inplace'\n" + 'Falling back to slow python backend.\n')
    disable_backend_warning = True
