import numpy as np

class SpikeTrain(object):
    """ Class representing spike trains for the PySpike Module."""

    def __init__(self, spike_times, edges, is_sorted=True):
        """ Constructs the SpikeTrain.

        :param spike_times: ordered array of spike times.
        :param edges: The edges of the spike train. Given as a pair of floats
                      (T0, T1) or a single float T1, where then T0=0 is
                      assumed.
        :param is_sorted: If `False`, the spike times will sorted by `np.sort`.

        """
        if is_sorted:
            self.spikes = np.array(spike_times, dtype=float)
        else:
            self.spikes = np.sort(np.array(spike_times, dtype=float))
        try:
            self.t_start = float(edges[0])
            self.t_end = float(edges[1])
        except:
            self.t_start = 0.0
            self.t_end = float(edges)

    def __getitem__(self, index):
        """ Returns the time of the spike given by index.

        :param index: Index of the spike.
        :return: spike time.
        """
        return self.spikes[index]

    def __len__(self):
        """ Returns the number of spikes.
        
        :return: Number of spikes.
        """
        return len(self.spikes)

    def sort(self):
        """ Sorts the spike times of this spike train using `np.sort`
        """
        self.spikes = np.sort(self.spikes)

    def copy(self):
        """ Returns a copy of this spike train.
        Use this function if you want to create a real (deep) copy of this
        spike train. Simple assignment `t2 = t1` does not create a copy of the
        spike train data, but a reference as `numpy.array` is used for storing
        the data.

        :return: :class:`.SpikeTrain` copy of this spike train.

        """
        return SpikeTrain(self.spikes.copy(), [self.t_start, self.t_end])

    def get_spikes_non_empty(self):
        """Returns the spikes of this spike train with auxiliary spikes in case
        of empty spike trains.
        """
        if 0 < len(self.spikes):
            return self.spikes
        else:
            return np.unique(np.insert([self.t_start, self.t_end], 1, self.spikes))
