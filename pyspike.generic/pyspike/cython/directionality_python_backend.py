""" directionality_python_backend.py

Collection of python functions that can be used instead of the cython
implementation.

Copyright 2015, Mario Mulansky <mario.mulansky@gmx.net>

Distributed under the BSD License

"""
import numpy as np
from pyspike.cython.python_backend import get_tau

def spike_directionality_profile_python(spikes1, spikes2, t_start, t_end, max_tau, MRTS=0.0):
    N_spikes2 = len(spikes2)
    N_spikes1 = len(spikes1)
    d1 = np.zeros(N_spikes1)
    d2 = np.zeros(N_spikes2)
    i = -1
    j = -1
    if 0 < max_tau:
        true_max = min(2 * max_tau, t_end - t_start)
    else:
        true_max = t_end - t_start
    while i + j < N_spikes1 + N_spikes2 - 2:
        if i < N_spikes1 - 1 and (j == N_spikes2 - 1 or spikes1[i + 1] < spikes2[j + 1]):
            i += 1
            tau = get_tau(spikes1, spikes2, i, j, true_max, MRTS)
            if -1 < j and spikes1[i] - spikes2[j] < tau:
                d1[i] = -1
                d2[j] = 1
        elif j < N_spikes2 - 1 and (i == N_spikes1 - 1 or spikes2[j + 1] < spikes1[i + 1]):
            j += 1
            tau = get_tau(spikes1, spikes2, i, j, true_max, MRTS)
            if -1 < i and spikes2[j] - spikes1[i] < tau:
                d1[i] = 1
                d2[j] = -1
        else:
            i += 1
            d1[i] = 0
            j += 1
            d2[j] = 0
    return (d1, d2)

def spike_train_order_profile_python(spikes1, spikes2, t_start, t_end, max_tau, MRTS=0.0):
    N_spikes2 = len(spikes2)
    N_spikes1 = len(spikes1)
    a = np.zeros(N_spikes1 + N_spikes2 + 2)
    i = -1
    j = -1
    mp = np.ones(N_spikes1 + N_spikes2 + 2)
    n = 0
    st = np.zeros(N_spikes1 + N_spikes2 + 2)
    if 0 < max_tau:
        true_max = min(2 * max_tau, t_end - t_start)
    else:
        true_max = t_end - t_start
    while i + j < N_spikes1 + N_spikes2 - 2:
        n += 1
        if i < N_spikes1 - 1 and (j == N_spikes2 - 1 or spikes1[i + 1] < spikes2[j + 1]):
            i += 1
            st[n] = spikes1[i]
            tau = get_tau(spikes1, spikes2, i, j, true_max, MRTS)
            if -1 < j and spikes1[i] - spikes2[j] < tau:
                a[n - 1] = -1
                a[n] = -1
        elif j < N_spikes2 - 1 and (i == N_spikes1 - 1 or spikes2[j + 1] < spikes1[i + 1]):
            j += 1
            st[n] = spikes2[j]
            tau = get_tau(spikes1, spikes2, i, j, true_max, MRTS)
            if -1 < i and spikes2[j] - spikes1[i] < tau:
                a[n - 1] = 1
                a[n] = 1
        else:
            a[n] = 0
            i += 1
            j += 1
            mp[n] = 2
            st[n] = spikes1[i]
    a = a[:n + 2]
    mp = mp[:n + 2]
    st = st[:n + 2]
    st[0] = t_start
    st[len(st) - 1] = t_end
    if 0 < N_spikes1 + N_spikes2:
        a[0] = a[1]
        a[len(a) - 1] = a[len(a) - 2]
        mp[0] = mp[1]
        mp[len(mp) - 1] = mp[len(mp) - 2]
    else:
        a[0] = 1
        a[1] = 1
    return (st, a, mp)
