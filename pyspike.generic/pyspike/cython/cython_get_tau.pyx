#cython language_level=3
from libc.math cimport fmin

cdef double Interpolate(a, b, t):
    """ thresholded interpolation
        If t small, return min(a,b)
        if t big, return b
        in between, return t      
    """
    if t < a and a < b:  return a
    if t < b and b <= a: return b
    if t > b:            return b    
    return t               # interpolation

cdef double get_tau(double[:] spikes1, double[:] spikes2,
                    int i, int j, double max_tau, double MRTS):
    """ Compute coincidence window
        In: spikes1, spikes2 - times of two spike trains
            i, j - indices into spikes1, spikes2 to compare
            max_tau - maximum size of threshold
            MRTS - adaptation parameter  
        out: combined coincidence window (Eq 19 in reference)
    """

    ## "distances" to neighbor: F/P=future/past, 1/2=N in spikesN.
    cdef double mF1 = max_tau
    cdef double mP1 = max_tau
    cdef double mF2 = max_tau
    cdef double mP2 = max_tau
    
    if i < len(spikes1)-1 and i > -1:
        mF1 = (spikes1[i+1]-spikes1[i])
    if j < len(spikes2)-1 and j > -1:
        mF2 = (spikes2[j+1]-spikes2[j])
    if i > 0:
        mP1 = (spikes1[i]-spikes1[i-1])
    if j > 0:
        mP2 = (spikes2[j]-spikes2[j-1])

    mF1, mF2, mP1, mP2 = mF1/2., mF2/2., mP1/2., mP2/2.
    MRTS /= 4.

    if i<0 or j<0 or spikes1[i] <= spikes2[j]:
        s1F = Interpolate(mP1, mF1, MRTS)
        s2P = Interpolate(mF2, mP2, MRTS)
        return fmin(fmin(s1F, s2P), max_tau/2.)
    else:
        s1P = Interpolate(mF1, mP1, MRTS)
        s2F = Interpolate(mP2, mF2, MRTS)
        return fmin(fmin(s1P, s2F), max_tau/2.)
