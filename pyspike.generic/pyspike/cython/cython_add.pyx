#cython: language_level=3
#cython: boundscheck=False
#cython: wraparound=False
#cython: cdivision=True

"""
cython_add.pyx

cython implementation of the add function for piece-wise const and 
piece-wise linear functions

Note: using cython memoryviews (e.g. double[:]) instead of ndarray objects
improves the performance of spike_distance by a factor of 10!

Copyright 2014, Mario Mulansky <mario.mulansky@gmx.net>

Distributed under the BSD License

"""

"""
To test whether things can be optimized: remove all yellow stuff
in the html output::

  cython -a cython_add.pyx

which gives::

  cython_add.html

"""

import numpy as np
cimport numpy as np

from libc.math cimport fabs

#DTYPE = float
#ctypedef np.float_t DTYPE_t

############################################################
# add_piece_wise_const_cython
############################################################
def add_piece_wise_const_cython(double[:] x1, double[:] y1, 
                                double[:] x2, double[:] y2):

    cdef int N1 = len(x1)
    cdef int N2 = len(x2)
    cdef double[:] x_new = np.empty(N1+N2)
    cdef double[:] y_new = np.empty(N1+N2-1)
    cdef int index1 = 0
    cdef int index2 = 0
    cdef int index = 0
    cdef int i
    with nogil: # release the interpreter lock to allow multi-threading
        x_new[0] = x1[0]
        y_new[0] = y1[0] + y2[0]
        while (index1+1 < N1-1) and (index2+1 < N2-1):
            index += 1
            # print(index1+1, x1[index1+1], y1[index1+1], x_new[index])
            if x1[index1+1] < x2[index2+1]:
                index1 += 1
                x_new[index] = x1[index1]
            elif x1[index1+1] > x2[index2+1]:
                index2 += 1
                x_new[index] = x2[index2]
            else: # x1[index1+1] == x2[index2+1]:
                index1 += 1
                index2 += 1
                x_new[index] = x1[index1]
            y_new[index] = y1[index1] + y2[index2]
        # one array reached the end -> copy the contents of the other to the end
        if index1+1 < N1-1:
            x_new[index+1:index+1+N1-index1-1] = x1[index1+1:]
            for i in xrange(N1-index1-2):
                y_new[index+1+i] = y1[index1+1+i] + y2[N2-2]
            index += N1-index1-2
        elif index2+1 < N2-1:
            x_new[index+1:index+1+N2-index2-1] = x2[index2+1:]
            for i in xrange(N2-index2-2):
                y_new[index+1+i] = y2[index2+1+i] + y1[N1-2]
            index += N2-index2-2
        else: # both arrays reached the end simultaneously
            # only the last x-value missing
            x_new[index+1] = x1[N1-1]
    # end nogil
    # return np.asarray(x_new[:index+2]), np.asarray(y_new[:index+1])
    return np.asarray(x_new[:index+2]), np.asarray(y_new[:index+1])


############################################################
# add_piece_wise_lin_cython
############################################################
def add_piece_wise_lin_cython(double[:] x1, double[:] y11, double[:] y12, 
                              double[:] x2, double[:] y21, double[:] y22):
    cdef int N1 = len(x1)
    cdef int N2 = len(x2)
    cdef double[:] x_new = np.empty(N1+N2)
    cdef double[:] y1_new = np.empty(N1+N2-1)
    cdef double[:] y2_new = np.empty_like(y1_new)
    cdef int index1 = 0 # index for self
    cdef int index2 = 0 # index for f
    cdef int index = 0  # index for new
    cdef int i
    cdef double y
    with nogil: # release the interpreter lock to allow multi-threading
        x_new[0] = x1[0]
        y1_new[0] = y11[0] + y21[0]
        while (index1+1 < N1-1) and (index2+1 < N2-1):
            # print(index1+1, x1[index1+1], self.y[index1+1], x_new[index])
            if x1[index1+1] < x2[index2+1]:
                # first compute the end value of the previous interval
                # linear interpolation of the interval
                y = y21[index2] + (y22[index2]-y21[index2]) * \
                    (x1[index1+1]-x2[index2]) / (x2[index2+1]-x2[index2])
                y2_new[index] = y12[index1] + y
                index1 += 1
                index += 1
                x_new[index] = x1[index1]
                # and the starting value for the next interval
                y1_new[index] = y11[index1] + y
            elif x1[index1+1] > x2[index2+1]:
                # first compute the end value of the previous interval
                # linear interpolation of the interval
                y = y11[index1] + (y12[index1]-y11[index1]) * \
                    (x2[index2+1]-x1[index1]) / \
                    (x1[index1+1]-x1[index1])
                y2_new[index] = y22[index2] + y
                index2 += 1
                index += 1
                x_new[index] = x2[index2]
                # and the starting value for the next interval
                y1_new[index] = y21[index2] + y
            else: # x1[index1+1] == x2[index2+1]:
                y2_new[index] = y12[index1] + y22[index2]
                index1 += 1
                index2 += 1
                index += 1
                x_new[index] = x1[index1]
                y1_new[index] = y11[index1] + y21[index2]
        # one array reached the end -> copy the contents of the other to the end
        if index1+1 < N1-1:
            x_new[index+1:index+1+N1-index1-1] = x1[index1+1:]
            for i in xrange(N1-index1-2):
                # compute the linear interpolations value
                y = y21[index2] + (y22[index2]-y21[index2]) * \
                    (x1[index1+1+i]-x2[index2]) / (x2[index2+1]-x2[index2])
                y1_new[index+1+i] = y11[index1+1+i] + y
                y2_new[index+i] = y12[index1+i] + y
            index += N1-index1-2
        elif index2+1 < N2-1:
            x_new[index+1:index+1+N2-index2-1] = x2[index2+1:]
            # compute the linear interpolations values
            for i in xrange(N2-index2-2):
                y = y11[index1] + (y12[index1]-y11[index1]) * \
                    (x2[index2+1+i]-x1[index1]) / \
                    (x1[index1+1]-x1[index1])
                y1_new[index+1+i] = y21[index2+1+i] + y
                y2_new[index+i] = y22[index2+i] + y
            index += N2-index2-2
        else: # both arrays reached the end simultaneously
            # only the last x-value missing
            x_new[index+1] = x1[N1-1]
        # finally, the end value for the last interval
        y2_new[index] = y12[N1-2]+y22[N2-2]
        # only use the data that was actually filled
    # end nogil
    return (np.asarray(x_new[:index+2]),
            np.asarray(y1_new[:index+1]), 
            np.asarray(y2_new[:index+1]))


############################################################
# add_discrete_function_cython
############################################################
def add_discrete_function_cython(double[:] x1, double[:] y1, double[:] mp1,
                                 double[:] x2, double[:] y2, double[:] mp2):

    cdef double[:] x_new = np.empty(len(x1) + len(x2))
    cdef double[:] y_new = np.empty_like(x_new)
    cdef double[:] mp_new = np.empty_like(x_new)
    cdef int index1 = 0
    cdef int index2 = 0
    cdef int index = 0
    cdef int N1 = len(y1)-1
    cdef int N2 = len(y2)-1
    x_new[0] = x1[0]
    while (index1+1 < N1) and (index2+1 < N2):
        if x1[index1+1] < x2[index2+1]:
            index1 += 1
            index += 1
            x_new[index] = x1[index1]
            y_new[index] = y1[index1]
            mp_new[index] = mp1[index1]
        elif x1[index1+1] > x2[index2+1]:
            index2 += 1
            index += 1
            x_new[index] = x2[index2]
            y_new[index] = y2[index2]
            mp_new[index] = mp2[index2]
        else:  # x1[index1+1] == x2[index2+1]
            index1 += 1
            index2 += 1
            index += 1
            x_new[index] = x1[index1]
            y_new[index] = y1[index1] + y2[index2]
            mp_new[index] = mp1[index1] + mp2[index2]
    # one array reached the end -> copy the contents of the other to the end
    if index1+1 < N1:
        x_new[index+1:index+1+N1-index1] = x1[index1+1:]
        y_new[index+1:index+1+N1-index1] = y1[index1+1:]
        mp_new[index+1:index+1+N1-index1] = mp1[index1+1:]
        index += N1-index1
    elif index2+1 < N2:
        x_new[index+1:index+1+N2-index2] = x2[index2+1:]
        y_new[index+1:index+1+N2-index2] = y2[index2+1:]
        mp_new[index+1:index+1+N2-index2] = mp2[index2+1:]
        index += N2-index2
    else:  # both arrays reached the end simultaneously
        x_new[index+1] = x1[index1+1]
        y_new[index+1] = y1[index1+1] + y2[index2+1]
        mp_new[index+1] = mp1[index1+1] + mp2[index2+1]
        index += 1

    y_new[0] = y_new[1]
    mp_new[0] = mp_new[1]

    # the last value is again the end of the interval
    # only use the data that was actually filled
    return (np.asarray(x_new[:index+1]), 
            np.asarray(y_new[:index+1]), 
            np.asarray(mp_new[:index+1]))
