#cython: language_level=3
#cython: boundscheck=False
#cython: wraparound=False
#cython: cdivision=True

"""
cython_distances.pyx

cython implementation of the isi-, spike- and spike-sync distances

Note: using cython memoryviews (e.g. double[:]) instead of ndarray objects
improves the performance of spike_distance by a factor of 10!

Copyright 2015, Mario Mulansky <mario.mulansky@gmx.net>

Distributed under the BSD License

"""

"""
To test whether things can be optimized: remove all yellow stuff
in the html output::

  cython -a cython_distances.pyx

which gives::

  cython_distances.html

"""

from pyspike.cython.cython_get_tau cimport get_tau

import numpy as np
cimport numpy as np

from libc.math cimport fabs
from libc.math cimport fmax
from libc.math cimport fmin

#DTYPE = float
#ctypedef np.float_t DTYPE_t

############################################################
# isi_distance_cython
############################################################
def isi_distance_cython(double[:] s1, double[:] s2,
                        double t_start, double t_end,
                        double MRTS=0.):

    cdef double isi_value
    cdef int index1, index2, index
    cdef int N1, N2
    cdef double nu1, nu2
    cdef double last_t, curr_t, curr_isi
    isi_value = 0.0
    N1 = len(s1)
    N2 = len(s2)

    # first interspike interval - check if a spike exists at the start time
    # and also account for spike trains with single spikes
    if s1[0] > t_start:
        # edge correction for the first interspike interval: 
        # take the maximum of the distance from the beginning to the first
        # spike and the interval between the first two spikes.
        # if there is only one spike, take the its distance to the beginning
        nu1 = fmax(s1[0]-t_start, s1[1]-s1[0]) if N1 > 1 else s1[0]-t_start
        index1 = -1
    else:
        # if the first spike is exactly at the start, take the distance
        # to the next spike. If this is the only spike, take the distance to
        # the end.
        nu1 = s1[1]-s1[0] if N1 > 1 else t_end-s1[0]
        index1 = 0

    if s2[0] > t_start:
        # edge correction as above
        nu2 = fmax(s2[0]-t_start, s2[1]-s2[0]) if N2 > 1 else s2[0]-t_start
        index2 = -1
    else:
        nu2 = s2[1]-s2[0] if N2 > 1 else t_end-s2[0]
        index2 = 0

    last_t = t_start
    curr_isi = fabs(nu1-nu2)/fmax(MRTS, fmax(nu1, nu2))
    index = 1

    with nogil: # release the interpreter to allow multithreading
        while index1+index2 < N1+N2-2:
            # check which spike is next, only if there are spikes left in 1
            # next spike in 1 is earlier, or there are no spikes left in 2
            if (index1 < N1-1) and ((index2 == N2-1) or
                                    (s1[index1+1] < s2[index2+1])):
                index1 += 1
                curr_t = s1[index1]
                if index1 < N1-1:
                    nu1 = s1[index1+1]-s1[index1]
                else:
                    # edge correction for the last ISI: 
                    # take the max of the distance of the last
                    # spike to the end and the previous ISI. If there was only
                    # one spike, always take the distance to the end.
                    nu1 = fmax(t_end-s1[index1], nu1) if N1 > 1 \
                          else t_end-s1[index1]
            elif (index2 < N2-1) and ((index1 == N1-1) or
                                      (s1[index1+1] > s2[index2+1])):
                index2 += 1
                curr_t = s2[index2]
                if index2 < N2-1:
                    nu2 = s2[index2+1]-s2[index2]
                else:
                    # edge correction for the end as above
                    nu2 = fmax(t_end-s2[index2], nu2) if N2 > 1 \
                          else t_end-s2[index2]
            else: # s1[index1+1] == s2[index2+1]
                index1 += 1
                index2 += 1
                curr_t = s1[index1]
                if index1 < N1-1:
                    nu1 = s1[index1+1]-s1[index1]
                else:
                    # edge correction for the end as above
                    nu1 = fmax(t_end-s1[index1], nu1) if N1 > 1 \
                          else t_end-s1[index1]
                if index2 < N2-1:
                    nu2 = s2[index2+1]-s2[index2]
                else:
                    # edge correction for the end as above
                    nu2 = fmax(t_end-s2[index2], nu2) if N2 > 1 \
                          else t_end-s2[index2]
            # compute the corresponding isi-distance
            isi_value += curr_isi * (curr_t - last_t)
            curr_isi = fabs(nu1 - nu2) / fmax(MRTS, fmax(nu1, nu2))
            last_t = curr_t
            index += 1

        isi_value += curr_isi * (t_end - last_t)
    # end nogil

    return isi_value / (t_end-t_start)


############################################################
# get_min_dist_cython
############################################################
cdef inline double get_min_dist_cython(double spike_time, 
                                       double[:] spike_train,
                                       # use memory view to ensure inlining
                                       # np.ndarray[DTYPE_t,ndim=1] spike_train,
                                       int N,
                                       int start_index,
                                       double t_start, double t_end) nogil:
    """ Returns the minimal distance |spike_time - spike_train[i]| 
    with i>=start_index.
    """
    cdef double d, d_temp
    # start with the distance to the start time
    d = fabs(spike_time - t_start)
    if start_index < 0:
        start_index = 0
    while start_index < N:
        d_temp = fabs(spike_time - spike_train[start_index])
        if d_temp > d:
            return d
        else:
            d = d_temp
        start_index += 1

    # finally, check the distance to end time
    d_temp = fabs(t_end - spike_time)
    if d_temp > d:
        return d
    else:
        return d_temp


############################################################
# dist_at_t
############################################################
cdef inline double dist_at_t(double isi1, double isi2, 
                              double s1, double s2,
                              double MRTS, int RI) nogil:
    """ Compute instantaneous Spike Distance
            In: isi1, isi2 - spike time differences around current times in each trains
                s1, s2 - weighted spike time differences between trains
                MRTS -minimum relevant time scal (0 for legacy logic)
                RI - Rate Independent Adaptive spike distance 
                        (False for legacy SPIKE distance)
            Out: Spike Distance at current time
    """
    cdef double meanISI = .5*(isi1+isi2)
    cdef double limitedISI = fmax(MRTS, meanISI)

    if RI:
        return .5*(s1+s2)/limitedISI
    else:
        return .5*(s1*isi2 + s2*isi1)/(meanISI*limitedISI)
    #denominator = fmax(.5*(isi1+isi2), MRTS)
    #if RI == 0:
    #    denominator *= (isi1+isi2)
    #return denominator

############################################################
# spike_distance_cython
############################################################
def spike_distance_cython(double[:] t1, double[:] t2,
                          double t_start, double t_end,
                          double MRTS=0., int RI = 0):

    cdef int N1, N2, index1, index2, index
    cdef double t_p1, t_f1, t_p2, t_f2, dt_p1, dt_p2, dt_f1, dt_f2
    cdef double isi1, isi2, s1, s2
    cdef double y_start, y_end, t_last, t_current, spike_value
    cdef double[:] t_aux1 = np.empty(2)
    cdef double[:] t_aux2 = np.empty(2)
    
    spike_value = 0.0

    N1 = len(t1)
    N2 = len(t2)

    # we can assume at least one spikes per spike train
    assert N1 > 0
    assert N2 > 0


    with nogil: # release the interpreter to allow multithreading
        t_last = t_start
        # auxiliary spikes for edge correction - consistent with first/last ISI 
        t_aux1[0] = fmin(t_start, 2*t1[0]-t1[1]) if N1 > 1 else t_start
        t_aux1[1] = fmax(t_end, 2*t1[N1-1]-t1[N1-2]) if N1 > 1 else t_end
        t_aux2[0] = fmin(t_start, 2*t2[0]-t2[1]) if N2 > 1 else t_start
        t_aux2[1] = fmax(t_end, 2*t2[N2-1]+-t2[N2-2]) if N2 > 1 else t_end
        # print "aux spikes %.15f, %.15f ; %.15f, %.15f" % (t_aux1[0], t_aux1[1], t_aux2[0], t_aux2[1])
        t_p1 = t_start if (t1[0] == t_start) else t_aux1[0]
        t_p2 = t_start if (t2[0] == t_start) else t_aux2[0]
        if t1[0] > t_start:
            # dt_p1 = t2[0]-t_start
            t_f1 = t1[0]
            dt_f1 = get_min_dist_cython(t_f1, t2, N2, 0, t_aux2[0], t_aux2[1])
            isi1 = fmax(t_f1-t_start, t1[1]-t1[0]) if N1 > 1 else t_f1-t_start
            dt_p1 = dt_f1
            # s1 = dt_p1*(t_f1-t_start)/isi1
            s1 = dt_p1
            index1 = -1
        else:  # t1[0] == t_start
            t_f1 = t1[1] if N1 > 1 else t_end
            dt_f1 = get_min_dist_cython(t_f1, t2, N2, 0, t_aux2[0], t_aux2[1])
            dt_p1 = get_min_dist_cython(t_p1, t2, N2, 0, t_aux2[0], t_aux2[1])
            isi1 = t_f1-t1[0]
            s1 = dt_p1
            index1 = 0
        if t2[0] > t_start:
            # dt_p1 = t2[0]-t_start
            t_f2 = t2[0]
            dt_f2 = get_min_dist_cython(t_f2, t1, N1, 0, t_aux1[0], t_aux1[1])
            dt_p2 = dt_f2
            isi2 = fmax(t_f2-t_start, t2[1]-t2[0]) if N2 > 1 else t_f2-t_start
            # s2 = dt_p2*(t_f2-t_start)/isi2
            s2 = dt_p2
            index2 = -1
        else:  # t2[0] == t_start
            t_f2 = t2[1] if N2 > 1 else t_end
            dt_f2 = get_min_dist_cython(t_f2, t1, N1, 0, t_aux1[0], t_aux1[1])
            # dt_p2 = t_start-t_p1  # 0.0
            dt_p2 = get_min_dist_cython(t_p2, t1, N1, 0, t_aux1[0], t_aux1[1])
            isi2 = t_f2-t2[0]
            s2 = dt_p2
            index2 = 0

        y_start = dist_at_t(isi1, isi2, s1, s2, MRTS, RI)
        index = 1

        while index1+index2 < N1+N2-2:
            # print(index, index1, index2)
            if (index1 < N1-1) and (t_f1 < t_f2 or index2 == N2-1):
                index1 += 1
                # first calculate the previous interval end value
                s1 = dt_f1*(t_f1-t_p1) / isi1
                # the previous time now was the following time before:
                dt_p1 = dt_f1
                t_p1 = t_f1    # t_p1 contains the current time point
                # get the next time
                if index1 < N1-1:
                    t_f1 = t1[index1+1]
                else:
                    t_f1 = t_aux1[1]
                t_curr =  t_p1
                s2 = (dt_p2*(t_f2-t_p1) + dt_f2*(t_p1-t_p2)) / isi2
                y_end = dist_at_t(isi1, isi2, s1, s2, MRTS, RI)

                spike_value += 0.5*(y_start + y_end) * (t_curr - t_last)

                # now the next interval start value
                if index1 < N1-1:
                    dt_f1 = get_min_dist_cython(t_f1, t2, N2, index2,
                                                t_aux2[0], t_aux2[1])
                    isi1 = t_f1-t_p1
                    s1 = dt_p1
                else:
                    dt_f1 = dt_p1
                    isi1 = fmax(t_end-t1[N1-1], t1[N1-1]-t1[N1-2]) if N1 > 1 \
                           else t_end-t1[N1-1]
                    # s1 needs adjustment due to change of isi1
                    # s1 = dt_p1*(t_end-t1[N1-1])/isi1
                    # Eero's correction: no adjustment
                    s1 = dt_p1
                # s2 is the same as above, thus we can compute y2 immediately
                y_start = dist_at_t(isi1, isi2, s1, s2, MRTS, RI)
            elif (index2 < N2-1) and (t_f1 > t_f2 or index1 == N1-1):
                index2 += 1
                # first calculate the previous interval end value
                s2 = dt_f2*(t_f2-t_p2) / isi2
                # the previous time now was the following time before:
                dt_p2 = dt_f2
                t_p2 = t_f2    # t_p2 contains the current time point
                # get the next time
                if index2 < N2-1:
                    t_f2 = t2[index2+1]
                else:
                    t_f2 = t_aux2[1]
                t_curr = t_p2
                s1 = (dt_p1*(t_f1-t_p2) + dt_f1*(t_p2-t_p1)) / isi1
                y_end = dist_at_t(isi1, isi2, s1, s2, MRTS, RI)

                spike_value += 0.5*(y_start + y_end) * (t_curr - t_last)

                # now the next interval start value
                if index2 < N2-1:
                    dt_f2 = get_min_dist_cython(t_f2, t1, N1, index1,
                                                t_aux1[0], t_aux1[1])
                    isi2 = t_f2-t_p2
                    s2 = dt_p2
                else:
                    dt_f2 = dt_p2
                    isi2 = fmax(t_end-t2[N2-1], t2[N2-1]-t2[N2-2]) if N2 > 1 \
                           else t_end-t2[N2-1]
                    # s2 needs adjustment due to change of isi2
                    # s2 = dt_p2*(t_end-t2[N2-1])/isi2
                    # Eero's correction: no adjustment
                    s2 = dt_p2
                # s1 is the same as above, thus we can compute y2 immediately
                y_start = dist_at_t(isi1, isi2, s1, s2, MRTS, RI)

            else: # t_f1 == t_f2 - generate only one event
                index1 += 1
                index2 += 1
                t_p1 = t_f1
                t_p2 = t_f2
                dt_p1 = 0.0
                dt_p2 = 0.0
                t_curr = t_f1
                y_end = 0.0
                spike_value += 0.5*(y_start + y_end) * (t_curr - t_last)
                y_start = 0.0
                if index1 < N1-1:
                    t_f1 = t1[index1+1]
                    dt_f1 = get_min_dist_cython(t_f1, t2, N2, index2,
                                                t_aux2[0], t_aux2[1])
                    isi1 = t_f1 - t_p1
                else:
                    t_f1 = t_aux1[1]
                    dt_f1 = dt_p1
                    isi1 = fmax(t_end-t1[N1-1], t1[N1-1]-t1[N1-2]) if N1 > 1 \
                           else t_end-t1[N1-1]
                if index2 < N2-1:
                    t_f2 = t2[index2+1]
                    dt_f2 = get_min_dist_cython(t_f2, t1, N1, index1,
                                                t_aux1[0], t_aux1[1])
                    isi2 = t_f2 - t_p2
                else:
                    t_f2 = t_aux2[1]
                    dt_f2 = dt_p2
                    isi2 = fmax(t_end-t2[N2-1], t2[N2-1]-t2[N2-2]) if N2 > 1 \
                           else t_end-t2[N2-1]
            index += 1
            t_last = t_curr
        # isi1 = max(t_end-t1[N1-1], t1[N1-1]-t1[N1-2])
        # isi2 = max(t_end-t2[N2-1], t2[N2-1]-t2[N2-2])
        s1 = dt_f1 # *(t_end-t1[N1-1])/isi1
        s2 = dt_f2 # *(t_end-t2[N2-1])/isi2
        y_end = dist_at_t(isi1, isi2, s1, s2, MRTS, RI)

        spike_value += 0.5*(y_start + y_end) * (t_end - t_last)
    # end nogil

    # use only the data added above 
    # could be less than original length due to equal spike times
    return spike_value / (t_end-t_start)


############################################################
# isi_avrg_rf_cython
############################################################
cdef inline double isi_avrg_rf_cython(double isi1, double isi2) nogil:
    # rate free version
    return (isi1+isi2)


############################################################
# spike_distance_rf_cython
############################################################
def spike_distance_rf_cython(double[:] t1, double[:] t2,
                             double t_start, double t_end):

    cdef int N1, N2, index1, index2, index
    cdef double t_p1, t_f1, t_p2, t_f2, dt_p1, dt_p2, dt_f1, dt_f2
    cdef double isi1, isi2, s1, s2
    cdef double y_start, y_end, t_last, t_current, spike_value
    
    spike_value = 0.0

    N1 = len(t1)
    N2 = len(t2)

    with nogil: # release the interpreter to allow multithreading
        t_last = t_start
        t_p1 = t_start
        t_p2 = t_start
        if t1[0] > t_start:
            # dt_p1 = t2[0]-t_start
            t_f1 = t1[0]
            dt_f1 = get_min_dist_cython(t_f1, t2, N2, 0, t_start, t_end)
            isi1 = fmax(t_f1-t_start, t1[1]-t1[0])
            dt_p1 = dt_f1
            s1 = dt_p1*(t_f1-t_start)/isi1
            index1 = -1
        else:
            t_f1 = t1[1]
            dt_f1 = get_min_dist_cython(t_f1, t2, N2, 0, t_start, t_end)
            dt_p1 = 0.0
            isi1 = t1[1]-t1[0]
            s1 = dt_p1
            index1 = 0
        if t2[0] > t_start:
            # dt_p1 = t2[0]-t_start
            t_f2 = t2[0]
            dt_f2 = get_min_dist_cython(t_f2, t1, N1, 0, t_start, t_end)
            dt_p2 = dt_f2
            isi2 = fmax(t_f2-t_start, t2[1]-t2[0])
            s2 = dt_p2*(t_f2-t_start)/isi2
            index2 = -1
        else:
            t_f2 = t2[1]
            dt_f2 = get_min_dist_cython(t_f2, t1, N1, 0, t_start, t_end)
            dt_p2 = 0.0
            isi2 = t2[1]-t2[0]
            s2 = dt_p2
            index2 = 0

        y_start = (s1 + s2) / isi_avrg_rf_cython(isi1, isi2)
        index = 1

        while index1+index2 < N1+N2-2:
            # print(index, index1, index2)
            if (index1 < N1-1) and (t_f1 < t_f2 or index2 == N2-1):
                index1 += 1
                # first calculate the previous interval end value
                s1 = dt_f1*(t_f1-t_p1) / isi1
                # the previous time now was the following time before:
                dt_p1 = dt_f1
                t_p1 = t_f1    # t_p1 contains the current time point
                # get the next time
                if index1 < N1-1:
                    t_f1 = t1[index1+1]
                else:
                    t_f1 = t_end
                t_curr =  t_p1
                s2 = (dt_p2*(t_f2-t_p1) + dt_f2*(t_p1-t_p2)) / isi2
                y_end = (s1 + s2) / isi_avrg_rf_cython(isi1, isi2)

                spike_value += 0.5*(y_start + y_end) * (t_curr - t_last)

                # now the next interval start value
                if index1 < N1-1:
                    dt_f1 = get_min_dist_cython(t_f1, t2, N2, index2,
                                                t_start, t_end)
                    isi1 = t_f1-t_p1
                    s1 = dt_p1
                else:
                    dt_f1 = dt_p1
                    isi1 = fmax(t_end-t1[N1-1], t1[N1-1]-t1[N1-2])
                    # s1 needs adjustment due to change of isi1
                    s1 = dt_p1*(t_end-t1[N1-1])/isi1
                # s2 is the same as above, thus we can compute y2 immediately
                y_start = (s1 + s2) / isi_avrg_rf_cython(isi1, isi2)
            elif (index2 < N2-1) and (t_f1 > t_f2 or index1 == N1-1):
                index2 += 1
                # first calculate the previous interval end value
                s2 = dt_f2*(t_f2-t_p2) / isi2
                # the previous time now was the following time before:
                dt_p2 = dt_f2
                t_p2 = t_f2    # t_p2 contains the current time point
                # get the next time
                if index2 < N2-1:
                    t_f2 = t2[index2+1]
                else:
                    t_f2 = t_end
                t_curr = t_p2
                s1 = (dt_p1*(t_f1-t_p2) + dt_f1*(t_p2-t_p1)) / isi1
                y_end = (s1 + s2) / isi_avrg_rf_cython(isi1, isi2)

                spike_value += 0.5*(y_start + y_end) * (t_curr - t_last)

                # now the next interval start value
                if index2 < N2-1:
                    dt_f2 = get_min_dist_cython(t_f2, t1, N1, index1,
                                                t_start, t_end)
                    isi2 = t_f2-t_p2
                    s2 = dt_p2
                else:
                    dt_f2 = dt_p2
                    isi2 = fmax(t_end-t2[N2-1], t2[N2-1]-t2[N2-2])
                    # s2 needs adjustment due to change of isi2
                    s2 = dt_p2*(t_end-t2[N2-1])/isi2
                # s1 is the same as above, thus we can compute y2 immediately
                y_start = (s1 + s2) / isi_avrg_rf_cython(isi1, isi2)

            else: # t_f1 == t_f2 - generate only one event
                index1 += 1
                index2 += 1
                t_p1 = t_f1
                t_p2 = t_f2
                dt_p1 = 0.0
                dt_p2 = 0.0
                t_curr = t_f1
                y_end = 0.0
                spike_value += 0.5*(y_start + y_end) * (t_curr - t_last)
                y_start = 0.0
                if index1 < N1-1:
                    t_f1 = t1[index1+1]
                    dt_f1 = get_min_dist_cython(t_f1, t2, N2, index2,
                                                t_start, t_end)
                    isi1 = t_f1 - t_p1
                else:
                    t_f1 = t_end
                    dt_f1 = dt_p1
                    isi1 = fmax(t_end-t1[N1-1], t1[N1-1]-t1[N1-2])
                if index2 < N2-1:
                    t_f2 = t2[index2+1]
                    dt_f2 = get_min_dist_cython(t_f2, t1, N1, index1,
                                                t_start, t_end)
                    isi2 = t_f2 - t_p2
                else:
                    t_f2 = t_end
                    dt_f2 = dt_p2
                    isi2 = fmax(t_end-t2[N2-1], t2[N2-1]-t2[N2-2])
            index += 1
            t_last = t_curr
        # isi1 = max(t_end-t1[N1-1], t1[N1-1]-t1[N1-2])
        # isi2 = max(t_end-t2[N2-1], t2[N2-1]-t2[N2-2])
        s1 = dt_f1*(t_end-t1[N1-1])/isi1
        s2 = dt_f2*(t_end-t2[N2-1])/isi2
        y_end = (s1 + s2) / isi_avrg_rf_cython(isi1, isi2)

        spike_value += 0.5*(y_start + y_end) * (t_end - t_last)
    # end nogil

    # use only the data added above 
    # could be less than original length due to equal spike times
    return spike_value / (t_end-t_start)




############################################################
# coincidence_value_cython
############################################################
def coincidence_value_cython(double[:] spikes1, double[:] spikes2,
                             double t_start, double t_end, double max_tau,
                             double MRTS = 0.):

    cdef int N1 = len(spikes1)
    cdef int N2 = len(spikes2)
    cdef int i = -1
    cdef int j = -1
    cdef double coinc = 0.0
    cdef double mp = 0.0
    cdef double interval = t_end - t_start
    cdef double tau

    cdef double true_max = t_end - t_start
    if max_tau > 0:
        true_max = fmin(true_max, 2*max_tau)

    while i + j < N1 + N2 - 2:
        if (i < N1-1) and (j == N2-1 or spikes1[i+1] < spikes2[j+1]):
            i += 1
            mp += 1
            tau = get_tau(spikes1, spikes2, i, j, true_max, MRTS)
            if j > -1 and spikes1[i]-spikes2[j] < tau:
                # coincidence between the current spike and the previous spike
                # both get marked with 1
                coinc += 2
        elif (j < N2-1) and (i == N1-1 or spikes1[i+1] > spikes2[j+1]):
            j += 1
            mp += 1
            tau = get_tau(spikes1, spikes2, i, j, true_max, MRTS)
            if i > -1 and spikes2[j]-spikes1[i] < tau:
                # coincidence between the current spike and the previous spike
                # both get marked with 1
                coinc += 2
        else:   # spikes1[i+1] = spikes2[j+1]
            # advance in both spike trains
            j += 1
            i += 1
            # add only one event, but with coincidence 2 and multiplicity 2
            mp += 2
            coinc += 2

    return coinc, mp
