""" python_backend.py

Collection of python functions that can be used instead of the cython
implementation.

Copyright 2014-2015, Mario Mulansky <mario.mulansky@gmx.net>

Distributed under the BSD License

"""
import numpy as np

def isi_distance_python(s1, s2, t_start, t_end, MRTS=0.0):
    """ Plain Python implementation of the isi distance.
        Out: spike_events - times from s1 and s2 merged, 
                             except beginning and end reflects t_start and t_end
            isi_values - ISI distance between consecutive elements of spike_events 
    """
    N_s2 = len(s2)
    N_s1 = len(s1)
    index = 1
    spike_events = np.empty(N_s1 + N_s2 + 2)
    spike_events[0] = t_start
    N_spike_events = len(spike_events)
    isi_values = np.empty(N_spike_events - 1)
    if t_start < s1[0]:
        index1 = -1
        if 1 < N_s1:
            nu1 = max(s1[0] - t_start, s1[1] - s1[0])
        else:
            nu1 = s1[0] - t_start
    else:
        index1 = 0
        if 1 < N_s1:
            nu1 = s1[1] - s1[0]
        else:
            nu1 = t_end - s1[0]
    if t_start < s2[0]:
        index2 = -1
        if 1 < N_s2:
            nu2 = max(s2[0] - t_start, s2[1] - s2[0])
        else:
            nu2 = s2[0] - t_start
    else:
        index2 = 0
        if 1 < N_s2:
            nu2 = s2[1] - s2[0]
        else:
            nu2 = t_end - s2[0]
    isi_values[0] = abs(nu1 - nu2) / max(nu1, nu2, MRTS)
    while index1 + index2 < N_s1 + N_s2 - 2:
        if index1 < N_s1 - 1 and (index2 == N_s2 - 1 or s1[index1 + 1] < s2[index2 + 1]):
            index1 += 1
            spike_events[index] = s1[index1]
            if index1 < N_s1 - 1:
                nu1 = s1[index1 + 1] - s1[index1]
            elif 1 < N_s1:
                nu1 = max(s1[N_s1 - 1] - s1[N_s1 - 2], t_end - s1[N_s1 - 1])
            else:
                nu1 = t_end - s1[N_s1 - 1]
        elif index2 < N_s2 - 1 and (index1 == N_s1 - 1 or s2[index2 + 1] < s1[index1 + 1]):
            index2 += 1
            spike_events[index] = s2[index2]
            if index2 < N_s2 - 1:
                nu2 = s2[index2 + 1] - s2[index2]
            elif 1 < N_s2:
                nu2 = max(s2[N_s2 - 1] - s2[N_s2 - 2], t_end - s2[N_s2 - 1])
            else:
                nu2 = t_end - s2[N_s2 - 1]
        else:
            index1 += 1
            index2 += 1
            spike_events[index] = s1[index1]
            if index1 < N_s1 - 1:
                nu1 = s1[index1 + 1] - s1[index1]
            elif 1 < N_s1:
                nu1 = max(s1[N_s1 - 1] - s1[N_s1 - 2], t_end - s1[N_s1 - 1])
            else:
                nu1 = t_end - s1[N_s1 - 1]
            if index2 < N_s2 - 1:
                nu2 = s2[index2 + 1] - s2[index2]
            elif 1 < N_s2:
                nu2 = max(s2[N_s2 - 1] - s2[N_s2 - 2], t_end - s2[N_s2 - 1])
            else:
                nu2 = t_end - s2[N_s2 - 1]
        isi_values[index] = abs(nu1 - nu2) / max(nu1, nu2, MRTS)
        index += 1
    if spike_events[index - 1] == t_end:
        index -= 1
    else:
        spike_events[index] = t_end
    return (spike_events[:index + 1], isi_values[:index])

def get_min_dist(spike_time, spike_train, start_index, t_start, t_end):
    """ Returns the minimal distance |spike_time - spike_train[i]|
    with i>=start_index.
    """
    N_spike_train = len(spike_train)
    d = abs(spike_time - t_start)
    for start_index__v1 in range(max(0, start_index), N_spike_train):
        if d < abs(spike_time - spike_train[start_index__v1]):
            return d
        d = abs(spike_time - spike_train[start_index__v1])
    return min(abs(t_end - spike_time), d)

def dist_at_t(isi1, isi2, s1, s2, MRTS, RI):
    """ Compute instantaneous Spike Distance
            In: isi1, isi2 - spike time differences around current times in each trains
                s1, s2 - weighted spike time differences between trains
            Out: the Spike Distance
    """
    if RI:
        return 0.5 * (s1 + s2) / max(0.5 * (isi1 + isi2), MRTS)
    else:
        return 0.5 * (s1 * isi2 + s2 * isi1) / (0.5 * (isi1 + isi2) * max(0.5 * (isi1 + isi2), MRTS))

def spike_distance_python(spikes1, spikes2, t_start, t_end, MRTS=0.0, RI=False):
    """ Computes the instantaneous spike-distance S_spike (t) of the two given
    spike trains. The spike trains are expected to have auxiliary spikes at the
    beginning and end of the interval. Use the function add_auxiliary_spikes to
    add those spikes to the spike train.
    Args:
    - spikes1, spikes2: ordered arrays of spike times with auxiliary spikes.
    - t_start, t_end: edges of the spike train
    Returns:
    - spike_events - merged times from spikes1, spikes2 (with edge corrections)
    -  y_starts, y_ends 
        In the interval (spike_events[i], spike_events[i+1])
        the SPIKE-sync value goes from y_starts[i] to y_ends[i], linearly
    """
    N_spikes2 = len(spikes2)
    N_spikes1 = len(spikes1)
    index = 1
    spike_events = np.empty(N_spikes1 + N_spikes2 + 2)
    N_spike_events = len(spike_events)
    y_ends = np.empty(N_spike_events - 1)
    y_starts = np.empty(N_spike_events - 1)
    spike_events[0] = t_start
    if 1 < N_spikes1:
        t_aux1__a = np.float64(min(spikes1[0] - (spikes1[1] - spikes1[0]), t_start))
        t_aux1__b = np.float64(max(spikes1[N_spikes1 - 1] + (spikes1[N_spikes1 - 1] - spikes1[N_spikes1 - 2]), t_end))
    else:
        t_aux1__a = np.float64(t_start)
        t_aux1__b = np.float64(t_end)
    if 1 < N_spikes2:
        t_aux2__a = np.float64(min(spikes2[0] - (spikes2[1] - spikes2[0]), t_start))
        t_aux2__b = np.float64(max(spikes2[N_spikes2 - 1] + (spikes2[N_spikes2 - 1] - spikes2[N_spikes2 - 2]), t_end))
    else:
        t_aux2__a = np.float64(t_start)
        t_aux2__b = np.float64(t_end)
    if spikes1[0] == t_start:
        t_p1 = t_start
    else:
        t_p1 = t_aux1__a
    if spikes2[0] == t_start:
        t_p2 = t_start
    else:
        t_p2 = t_aux2__a
    if t_start < spikes1[0]:
        t_f1 = spikes1[0]
        dt_f1 = get_min_dist(t_f1, spikes2, 0, t_aux2__a, t_aux2__b)
        dt_p1 = dt_f1
        index1 = -1
        if 1 < N_spikes1:
            isi1 = max(spikes1[1] - spikes1[0], t_f1 - t_start)
        else:
            isi1 = t_f1 - t_start
    else:
        dt_p1 = get_min_dist(t_p1, spikes2, 0, t_aux2__a, t_aux2__b)
        if 1 < N_spikes1:
            t_f1 = spikes1[1]
        else:
            t_f1 = t_end
        dt_f1 = get_min_dist(t_f1, spikes2, 0, t_aux2__a, t_aux2__b)
        index1 = 0
        isi1 = t_f1 - spikes1[0]
    if t_start < spikes2[0]:
        t_f2 = spikes2[0]
        dt_f2 = get_min_dist(t_f2, spikes1, 0, t_aux1__a, t_aux1__b)
        dt_p2 = dt_f2
        index2 = -1
        if 1 < N_spikes2:
            isi2 = max(spikes2[1] - spikes2[0], t_f2 - t_start)
        else:
            isi2 = t_f2 - t_start
    else:
        dt_p2 = get_min_dist(t_p2, spikes1, 0, t_aux1__a, t_aux1__b)
        if 1 < N_spikes2:
            t_f2 = spikes2[1]
        else:
            t_f2 = t_end
        dt_f2 = get_min_dist(t_f2, spikes1, 0, t_aux1__a, t_aux1__b)
        index2 = 0
        isi2 = t_f2 - spikes2[0]
    y_starts[0] = dist_at_t(isi1, isi2, dt_p1, dt_p2, MRTS, RI)
    while index1 + index2 < N_spikes1 + N_spikes2 - 2:
        if index1 < N_spikes1 - 1 and (index2 == N_spikes2 - 1 or t_f1 < t_f2):
            dt_p1 = dt_f1
            index1 += 1
            s1 = dt_f1 * (t_f1 - t_p1) / isi1
            t_p1 = t_f1
            spike_events[index] = t_p1
            y_ends[index - 1] = dist_at_t(isi1, isi2, s1, (dt_p2 * (t_f2 - t_p1) + dt_f2 * (t_p1 - t_p2)) / isi2, MRTS, RI)
            if index1 < N_spikes1 - 1:
                t_f1 = spikes1[index1 + 1]
                dt_f1 = get_min_dist(t_f1, spikes2, index2, t_aux2__a, t_aux2__b)
                isi1 = t_f1 - t_p1
            else:
                dt_f1 = dt_p1
                t_f1 = t_aux1__b
                if 1 < N_spikes1:
                    isi1 = max(spikes1[N_spikes1 - 1] - spikes1[N_spikes1 - 2], t_end - spikes1[N_spikes1 - 1])
                else:
                    isi1 = t_end - spikes1[N_spikes1 - 1]
            y_starts[index] = dist_at_t(isi1, isi2, dt_p1, (dt_p2 * (t_f2 - t_p1) + dt_f2 * (t_p1 - t_p2)) / isi2, MRTS, RI)
        elif (index1 == N_spikes1 - 1 or t_f2 < t_f1) and index2 < N_spikes2 - 1:
            dt_p2 = dt_f2
            index2 += 1
            s2 = dt_f2 * (t_f2 - t_p2) / isi2
            t_p2 = t_f2
            spike_events[index] = t_p2
            y_ends[index - 1] = dist_at_t(isi1, isi2, (dt_p1 * (t_f1 - t_p2) + dt_f1 * (t_p2 - t_p1)) / isi1, s2, MRTS, RI)
            if index2 < N_spikes2 - 1:
                t_f2 = spikes2[index2 + 1]
                dt_f2 = get_min_dist(t_f2, spikes1, index1, t_aux1__a, t_aux1__b)
                isi2 = t_f2 - t_p2
            else:
                dt_f2 = dt_p2
                t_f2 = t_aux2__b
                if 1 < N_spikes2:
                    isi2 = max(spikes2[N_spikes2 - 1] - spikes2[N_spikes2 - 2], t_end - spikes2[N_spikes2 - 1])
                else:
                    isi2 = t_end - spikes2[N_spikes2 - 1]
            y_starts[index] = dist_at_t(isi1, isi2, (dt_p1 * (t_f1 - t_p2) + dt_f1 * (t_p2 - t_p1)) / isi1, dt_p2, MRTS, RI)
        else:
            dt_p1 = 0.0
            dt_p2 = 0.0
            index1 += 1
            index2 += 1
            spike_events[index] = t_f1
            t_p1 = t_f1
            t_p2 = t_f2
            y_ends[index - 1] = 0.0
            y_starts[index] = 0.0
            if index1 < N_spikes1 - 1:
                t_f1 = spikes1[index1 + 1]
                dt_f1 = get_min_dist(t_f1, spikes2, index2, t_aux2__a, t_aux2__b)
                isi1 = t_f1 - t_p1
            else:
                dt_f1 = dt_p1
                t_f1 = t_aux1__b
                if 1 < N_spikes1:
                    isi1 = max(spikes1[N_spikes1 - 1] - spikes1[N_spikes1 - 2], t_end - spikes1[N_spikes1 - 1])
                else:
                    isi1 = t_end - spikes1[N_spikes1 - 1]
            if index2 < N_spikes2 - 1:
                t_f2 = spikes2[index2 + 1]
                dt_f2 = get_min_dist(t_f2, spikes1, index1, t_aux1__a, t_aux1__b)
                isi2 = t_f2 - t_p2
            else:
                dt_f2 = dt_p2
                t_f2 = t_aux2__b
                if 1 < N_spikes2:
                    isi2 = max(spikes2[N_spikes2 - 1] - spikes2[N_spikes2 - 2], t_end - spikes2[N_spikes2 - 1])
                else:
                    isi2 = t_end - spikes2[N_spikes2 - 1]
        index += 1
    if spike_events[index - 1] == t_end:
        index -= 1
    else:
        spike_events[index] = t_end
        y_ends[index - 1] = dist_at_t(isi1, isi2, dt_f1, dt_f2, MRTS, RI)
    return (spike_events[:index + 1], y_starts[:index], y_ends[:index])

def get_tau(spikes1, spikes2, i, j, max_tau, MRTS):
    """ Compute coincidence window
        In: spikes1, spikes2 - times of two spike trains
            i, j - indices into spikes1, spikes2 to compare
            max_tau - maximum size of MRTS
            MRTS - adaptation parameter  
        out: combined coincidence window (Eq 19 in reference)
    """
    N_spikes2 = len(spikes2)
    N_spikes1 = len(spikes1)
    MRTS /= 4
    mF1 = max_tau / 2.0
    mF2 = mF1
    mP1 = mF1
    mP2 = mF1
    if -1 < i and i < N_spikes1 - 1:
        mF1 = (spikes1[i + 1] - spikes1[i]) / 2.0
    if -1 < j and j < N_spikes2 - 1:
        mF2 = (spikes2[j + 1] - spikes2[j]) / 2.0
    if 0 < i:
        mP1 = (spikes1[i] - spikes1[i - 1]) / 2.0
    if 0 < j:
        mP2 = (spikes2[j] - spikes2[j - 1]) / 2.0

    def Interpolate(a, b, t):
        """ thresholded interpolation
            If t small, return min(a,b)
            if t big, return b
            in between, return t      
        """
        if t < min(a, b):
            return min(a, b)
        else:
            return min(b, t)
    if i < 0 or j < 0 or spikes1[i] <= spikes2[j]:
        s1F = Interpolate(mP1, mF1, MRTS)
        s2P = Interpolate(mF2, mP2, MRTS)
        return min(s1F, s2P, max_tau / 2.0)
    else:
        s1P = Interpolate(mF1, mP1, MRTS)
        s2F = Interpolate(mP2, mF2, MRTS)
        return min(s1P, s2F, max_tau / 2.0)

def coincidence_python(spikes1, spikes2, t_start, t_end, max_tau, MRTS=0.0):
    """ python version of logic for bivariate SPIKE-Sync profile
        UNUSED - replaced by coincidence_single_python()
    """
    N_spikes2 = len(spikes2)
    N_spikes1 = len(spikes1)
    c = np.zeros(N_spikes1 + N_spikes2 + 2)
    i = -1
    j = -1
    mp = np.ones(N_spikes1 + N_spikes2 + 2)
    n = 0
    st = np.zeros(N_spikes1 + N_spikes2 + 2)
    if 0 < max_tau:
        true_max = min(2 * max_tau, t_end - t_start)
    else:
        true_max = t_end - t_start
    while i + j < N_spikes1 + N_spikes2 - 2:
        n += 1
        if i < N_spikes1 - 1 and (j == N_spikes2 - 1 or spikes1[i + 1] < spikes2[j + 1]):
            i += 1
            st[n] = spikes1[i]
            tau = get_tau(spikes1, spikes2, i, j, true_max, MRTS)
            if -1 < j and spikes1[i] - spikes2[j] < tau:
                c[n - 1] = 1
                c[n] = 1
        elif j < N_spikes2 - 1 and (i == N_spikes1 - 1 or spikes2[j + 1] < spikes1[i + 1]):
            j += 1
            st[n] = spikes2[j]
            tau = get_tau(spikes1, spikes2, i, j, true_max, MRTS)
            if -1 < i and spikes2[j] - spikes1[i] < tau:
                c[n - 1] = 1
                c[n] = 1
        else:
            c[n] = 2
            i += 1
            j += 1
            mp[n] = 2
            st[n] = spikes1[i]
    c = c[:n + 2]
    mp = mp[:n + 2]
    st = st[:n + 2]
    st[0] = t_start
    st[len(st) - 1] = t_end
    if 0 < N_spikes1 + N_spikes2:
        c[0] = c[1]
        c[len(c) - 1] = c[len(c) - 2]
        mp[0] = mp[1]
        mp[len(mp) - 1] = mp[len(mp) - 2]
    else:
        c[0] = 1
        c[1] = 1
    return (st, c, mp)

def coincidence_single_python(spikes1, spikes2, t_start, t_end, max_tau, MRTS=0.0):
    """ python version of logic for bivariate SPIKE-Sync profile
        In: spikes1, spikes2 - lists of sorted spike times
            t_start, t_end - range of times to consider
            max_tau - max window coincidence length
            MRTS - Minimum Relvant Time Scale (or 0 if none)
        Out: st - spike times
             c - coincidences
             mp - multiplicity
    """
    N_spikes2 = len(spikes2)
    N_spikes1 = len(spikes1)
    c = np.zeros(N_spikes1)
    j = -1
    if 0 < max_tau:
        true_max = min(2 * max_tau, t_end - t_start)
    else:
        true_max = t_end - t_start
    for i in range(N_spikes1):
        while j < N_spikes2 - 1 and spikes2[j + 1] < spikes1[i]:
            j += 1
        tau = get_tau(spikes1, spikes2, i, j, true_max, MRTS)
        if -1 < j and abs(spikes1[i] - spikes2[j]) < tau:
            c[i] = 1
        if j < N_spikes2 - 1 and (j < 0 or spikes2[j] < spikes1[i]):
            j += 1
            tau = get_tau(spikes1, spikes2, i, j, true_max, MRTS)
            if abs(spikes2[j] - spikes1[i]) < tau:
                c[i] = 1
    return c

def add_piece_wise_const_python(x1, y1, x2, y2):
    """ Add piecewise constant functions
        In: x1,y1 - first function [y(x) = y1(i) for x(i)<=x<x(i+1)]
            x2,y2 - second function
        Out: returns x,y of the sum
    """
    N_y2 = len(y2)
    N_y1 = len(y1)
    N_x2 = len(x2)
    N_x1 = len(x1)
    index = 0
    index1 = 0
    index2 = 0
    x_new = np.empty(N_x1 + N_x2)
    N_x_new = len(x_new)
    y_new = np.empty(N_x_new - 1)
    x_new[0] = x1[0]
    y_new[0] = y1[0] + y2[0]
    while index1 + 1 < N_y1 and index2 + 1 < N_y2:
        index += 1
        if x1[index1 + 1] < x2[index2 + 1]:
            index1 += 1
            x_new[index] = x1[index1]
        elif x2[index2 + 1] < x1[index1 + 1]:
            index2 += 1
            x_new[index] = x2[index2]
        else:
            index1 += 1
            index2 += 1
            x_new[index] = x1[index1]
        y_new[index] = y1[index1] + y2[index2]
    if index1 + 1 < N_y1:
        x_new[index + 1:index + 1 + N_x1 - index1 - 1] = x1[index1 + 1:]
        y_new[index + 1:index + 1 + N_y1 - index1 - 1] = y1[index1 + 1:] + y2[N_y2 - 1]
        index += N_x1 - index1 - 2
    elif index2 + 1 < N_y2:
        x_new[index + 1:index + 1 + N_x2 - index2 - 1] = x2[index2 + 1:]
        y_new[index + 1:index + 1 + N_y2 - index2 - 1] = y2[index2 + 1:] + y1[N_y1 - 1]
        index += N_x2 - index2 - 2
    else:
        x_new[index + 1] = x1[N_x1 - 1]
    return (x_new[:index + 2], y_new[:index + 1])

def add_piece_wise_lin_python(x1, y11, y12, x2, y21, y22):
    """ Add piecewise constant functions
        In: x1,y11,y12 - first function
            x2,y21,y22 - second function
        Out: returns x,y1,y2 - the summed function
    """
    N_y22 = len(y22)
    N_y21 = len(y21)
    N_y12 = len(y12)
    N_y11 = len(y11)
    N_x2 = len(x2)
    N_x1 = len(x1)
    index = 0
    index1 = 0
    index2 = 0
    x_new = np.empty(N_x1 + N_x2)
    N_x_new = len(x_new)
    y1_new = np.empty(N_x_new - 1)
    x_new[0] = x1[0]
    y2_new = np.empty_like(y1_new)
    y1_new[0] = y11[0] + y21[0]
    while index1 + 1 < N_y11 and index2 + 1 < N_y21:
        if x1[index1 + 1] < x2[index2 + 1]:
            y = y21[index2] + (y22[index2] - y21[index2]) * (x1[index1 + 1] - x2[index2]) / (x2[index2 + 1] - x2[index2])
            y2_new[index] = y12[index1] + y
            index += 1
            index1 += 1
            x_new[index] = x1[index1]
            y1_new[index] = y11[index1] + y
        elif x2[index2 + 1] < x1[index1 + 1]:
            y = y11[index1] + (y12[index1] - y11[index1]) * (x2[index2 + 1] - x1[index1]) / (x1[index1 + 1] - x1[index1])
            y2_new[index] = y22[index2] + y
            index += 1
            index2 += 1
            x_new[index] = x2[index2]
            y1_new[index] = y21[index2] + y
        else:
            y2_new[index] = y12[index1] + y22[index2]
            index += 1
            index1 += 1
            index2 += 1
            x_new[index] = x1[index1]
            y1_new[index] = y11[index1] + y21[index2]
    if index1 + 1 < N_y11:
        x_new[index + 1:index + 1 + N_x1 - index1 - 1] = x1[index1 + 1:]
        y = y21[index2] + (y22[index2] - y21[index2]) * (x1[index1 + 1:-1] - x2[index2]) / (x2[index2 + 1] - x2[index2])
        y1_new[index + 1:index + 1 + N_y11 - index1 - 1] = y11[index1 + 1:] + y
        y2_new[index:index + N_y12 - index1 - 1] = y12[index1:-1] + y
        index += N_x1 - index1 - 2
    elif index2 + 1 < N_y21:
        x_new[index + 1:index + 1 + N_x2 - index2 - 1] = x2[index2 + 1:]
        y = y11[index1] + (y12[index1] - y11[index1]) * (x2[index2 + 1:-1] - x1[index1]) / (x1[index1 + 1] - x1[index1])
        y1_new[index + 1:index + 1 + N_y21 - index2 - 1] = y21[index2 + 1:] + y
        y2_new[index:index + N_y22 - index2 - 1] = y22[index2:-1] + y
        index += N_x2 - index2 - 2
    else:
        x_new[index + 1] = x1[N_x1 - 1]
    y2_new[index] = y12[N_y12 - 1] + y22[N_y22 - 1]
    return (x_new[:index + 2], y1_new[:index + 1], y2_new[:index + 1])

def add_discrete_function_python(x1, y1, mp1, x2, y2, mp2):
    """ Add two functions defined on a finite point set
        In: x1,y1,mp1 - discrete function, with multiplicities
            x2,y2,mp2 - second function
        Out: x, y, mp - the sum
        Note: Depends on floating point ==, so might not
               return expected answer
    """
    N_y2 = len(y2)
    N_y1 = len(y1)
    N_x2 = len(x2)
    N_x1 = len(x1)
    N_mp2 = len(mp2)
    N_mp1 = len(mp1)
    index = 0
    index1 = 0
    index2 = 0
    x_new = np.empty(N_x1 + N_x2)
    mp_new = np.empty_like(x_new)
    y_new = np.empty_like(x_new)
    x_new[0] = x1[0]
    while index1 + 1 < N_x1 - 1 and index2 + 1 < N_x2 - 1:
        index += 1
        if x1[index1 + 1] < x2[index2 + 1]:
            index1 += 1
            mp_new[index] = mp1[index1]
            x_new[index] = x1[index1]
            y_new[index] = y1[index1]
        elif x2[index2 + 1] < x1[index1 + 1]:
            index2 += 1
            mp_new[index] = mp2[index2]
            x_new[index] = x2[index2]
            y_new[index] = y2[index2]
        else:
            index1 += 1
            index2 += 1
            mp_new[index] = mp1[index1] + mp2[index2]
            x_new[index] = x1[index1]
            y_new[index] = y1[index1] + y2[index2]
    if index1 + 1 < N_x1 - 1:
        mp_new[index + 1:index + 1 + (N_x1 - 1) - index1] = mp1[index1 + 1:]
        x_new[index + 1:index + 1 + (N_x1 - 1) - index1] = x1[index1 + 1:]
        y_new[index + 1:index + 1 + (N_x1 - 1) - index1] = y1[index1 + 1:]
        index += N_x1 - 1 - index1
    elif index2 + 1 < N_x2 - 1:
        mp_new[index + 1:index + 1 + (N_x2 - 1) - index2] = mp2[index2 + 1:]
        x_new[index + 1:index + 1 + (N_x2 - 1) - index2] = x2[index2 + 1:]
        y_new[index + 1:index + 1 + (N_x2 - 1) - index2] = y2[index2 + 1:]
        index += N_x2 - 1 - index2
    else:
        mp_new[index + 1] = mp1[N_mp1 - 1] + mp2[N_mp2 - 1]
        x_new[index + 1] = x1[N_x1 - 1]
        y_new[index + 1] = y1[N_y1 - 1] + y2[N_y2 - 1]
        index += 1
    mp_new[0] = mp_new[1]
    y_new[0] = y_new[1]
    return (x_new[:index + 1], y_new[:index + 1], mp_new[:index + 1])
