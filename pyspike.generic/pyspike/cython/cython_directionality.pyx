#cython: language_level=3
#cython: boundscheck=False
#cython: wraparound=False
#cython: cdivision=True

"""
cython_directionality.pyx

cython implementation of the spike delay asymmetry measures

Copyright 2015, Mario Mulansky <mario.mulansky@gmx.net>

Distributed under the BSD License

"""

"""
To test whether things can be optimized: remove all yellow stuff
in the html output::

  cython -a cython_directionality.pyx

which gives::

  cython_directionality.html

"""

import numpy as np
cimport numpy as np

from libc.math cimport fabs
from libc.math cimport fmax
from libc.math cimport fmin

from pyspike.cython.cython_get_tau cimport get_tau

#DTYPE = float
#ctypedef np.float_t DTYPE_t

############################################################
# spike_train_order_profile_cython
############################################################
def spike_train_order_profile_cython(double[:] spikes1, double[:] spikes2,
                                     double t_start, double t_end,
                                     double max_tau,
                                     double MRTS = 0.):

    cdef int N1 = len(spikes1)
    cdef int N2 = len(spikes2)
    cdef int i = -1
    cdef int j = -1
    cdef int n = 0
    cdef double[:] st = np.zeros(N1 + N2 + 2)  # spike times
    cdef double[:] a = np.zeros(N1 + N2 + 2)   # asymmetry values
    cdef double[:] mp = np.ones(N1 + N2 + 2)   # multiplicity
    cdef double interval = t_end - t_start
    cdef double tau

    cdef double true_max = t_end - t_start
    if max_tau > 0:
        true_max = fmin(true_max, 2*max_tau)

    while i + j < N1 + N2 - 2:
        if (i < N1-1) and (j == N2-1 or spikes1[i+1] < spikes2[j+1]):
            i += 1
            n += 1
            tau = get_tau(spikes1, spikes2, i, j, true_max, MRTS)
            st[n] = spikes1[i]
            if j > -1 and spikes1[i]-spikes2[j] < tau:
                # coincidence between the current spike and the previous spike
                # spike from spike train 1 after spike train 2
                # both get marked with -1
                a[n] = -1
                a[n-1] = -1
        elif (j < N2-1) and (i == N1-1 or spikes1[i+1] > spikes2[j+1]):
            j += 1
            n += 1
            tau = get_tau(spikes1, spikes2, i, j, true_max, MRTS)
            st[n] = spikes2[j]
            if i > -1 and spikes2[j]-spikes1[i] < tau:
                # coincidence between the current spike and the previous spike
                # spike from spike train 1 before spike train 2
                # both get marked with 1
                a[n] = 1
                a[n-1] = 1
        else:   # spikes1[i+1] = spikes2[j+1]
            # advance in both spike trains
            j += 1
            i += 1
            n += 1
            # add only one event with zero asymmetry value and multiplicity 2
            st[n] = spikes1[i]
            a[n] = 0
            mp[n] = 2

    st = st[:n+2]
    a = a[:n+2]
    mp = mp[:n+2]

    st[0] = t_start
    st[len(st)-1] = t_end
    if N1 + N2 > 0:
        a[0] = a[1]
        a[len(a)-1] = a[len(a)-2]
        mp[0] = mp[1]
        mp[len(mp)-1] = mp[len(mp)-2]
    else:
        a[0] = 1
        a[1] = 1

    return st, a, mp


############################################################
# spike_train_order_cython
############################################################
def spike_train_order_cython(double[:] spikes1, double[:] spikes2,
                             double t_start, double t_end, double max_tau,
                             double MRTS = 0.):

    cdef int N1 = len(spikes1)
    cdef int N2 = len(spikes2)
    cdef int i = -1
    cdef int j = -1
    cdef int d = 0
    cdef int mp = 0
    cdef double interval = t_end - t_start
    cdef double tau
    
    cdef double true_max = t_end - t_start
    if max_tau > 0:
        true_max = fmin(true_max, 2*max_tau)

    while i + j < N1 + N2 - 2:
        if (i < N1-1) and (j == N2-1 or spikes1[i+1] < spikes2[j+1]):
            i += 1
            mp += 1
            tau = get_tau(spikes1, spikes2, i, j, true_max, MRTS)
            if j > -1 and spikes1[i]-spikes2[j] < tau:
                # coincidence between the current spike and the previous spike
                # spike in spike train 2 appeared before spike in spike train 1
                # mark with -1
                d -= 2
        elif (j < N2-1) and (i == N1-1 or spikes1[i+1] > spikes2[j+1]):
            j += 1
            mp += 1
            tau = get_tau(spikes1, spikes2, i, j, true_max, MRTS)
            if i > -1 and spikes2[j]-spikes1[i] < tau:
                # coincidence between the current spike and the previous spike
                # spike in spike train 1 appeared before spike in spike train 2
                # mark with +1
                d += 2
        else:   # spikes1[i+1] = spikes2[j+1]
            # advance in both spike trains
            j += 1
            i += 1
            # add only one event with multiplicity 2, but no asymmetry counting
            mp += 2

    if d == 0 and mp == 0:
        # empty spike trains -> spike sync = 1 by definition
        d = 1
        mp = 1

    return d, mp


############################################################
# spike_directionality_profiles_cython
############################################################
def spike_directionality_profiles_cython(double[:] spikes1,
                                         double[:] spikes2,
                                         double t_start, double t_end,
                                         double max_tau,
                                         double MRTS = 0.):

    cdef int N1 = len(spikes1)
    cdef int N2 = len(spikes2)
    cdef int i = -1
    cdef int j = -1
    cdef double[:] d1 = np.zeros(N1)  # directionality values
    cdef double[:] d2 = np.zeros(N2)  # directionality values
    cdef double interval = t_end - t_start
    cdef double tau

    cdef double true_max = t_end - t_start
    if max_tau > 0:
        true_max = fmin(true_max, 2*max_tau)

    while i + j < N1 + N2 - 2:
        if (i < N1-1) and (j == N2-1 or spikes1[i+1] < spikes2[j+1]):
            i += 1
            tau = get_tau(spikes1, spikes2, i, j, true_max, MRTS)
            if j > -1 and spikes1[i]-spikes2[j] < tau:
                # coincidence between the current spike and the previous spike
                # spike from spike train 1 after spike train 2
                # leading spike gets +1, following spike -1
                d1[i] = -1
                d2[j] = +1
        elif (j < N2-1) and (i == N1-1 or spikes1[i+1] > spikes2[j+1]):
            j += 1
            tau = get_tau(spikes1, spikes2, i, j, true_max, MRTS)
            if i > -1 and spikes2[j]-spikes1[i] < tau:
                # coincidence between the current spike and the previous spike
                # spike from spike train 1 before spike train 2
                # leading spike gets +1, following spike -1
                d1[i] = +1
                d2[j] = -1
        else:   # spikes1[i+1] = spikes2[j+1]
            # advance in both spike trains
            j += 1
            i += 1
            # equal spike times: zero asymmetry value
            d1[i] = 0
            d2[j] = 0

    return d1, d2


############################################################
# spike_directionality_cython
############################################################
def spike_directionality_cython(double[:] spikes1,
                                double[:] spikes2,
                                double t_start, double t_end,
                                double max_tau,
                                double MRTS = 0.):

    cdef int N1 = len(spikes1)
    cdef int N2 = len(spikes2)
    cdef int i = -1
    cdef int j = -1
    cdef int d = 0  # directionality value
    cdef double interval = t_end - t_start
    cdef double tau

    cdef double true_max = t_end - t_start
    if max_tau > 0:
        true_max = fmin(true_max, 2*max_tau)

    while i + j < N1 + N2 - 2:
        if (i < N1-1) and (j == N2-1 or spikes1[i+1] < spikes2[j+1]):
            i += 1
            tau = get_tau(spikes1, spikes2, i, j, true_max, MRTS)
            if j > -1 and spikes1[i]-spikes2[j] < tau:
                # coincidence between the current spike and the previous spike
                # spike from spike train 1 after spike train 2
                # leading spike gets +1, following spike -1
                d -= 1
        elif (j < N2-1) and (i == N1-1 or spikes1[i+1] > spikes2[j+1]):
            j += 1
            tau = get_tau(spikes1, spikes2, i, j, true_max, MRTS)
            if i > -1 and spikes2[j]-spikes1[i] < tau:
                # coincidence between the current spike and the previous spike
                # spike from spike train 1 before spike train 2
                # leading spike gets +1, following spike -1
                d += 1
        else:   # spikes1[i+1] = spikes2[j+1]
            # advance in both spike trains
            j += 1
            i += 1

    return d
