#cython: language_level=3
#cython: boundscheck=False
#cython: wraparound=False
#cython: cdivision=True

"""
cython_simulated_annealing.pyx

cython implementation of a simulated annealing algorithm to find the optimal
spike train order

Note: using cython memoryviews (e.g. double[:]) instead of ndarray objects
improves the performance of spike_distance by a factor of 10!

Copyright 2015, Mario Mulansky <mario.mulansky@gmx.net>

Distributed under the BSD License

"""

"""
To test whether things can be optimized: remove all yellow stuff
in the html output::

  cython -a cython_simulated_annealing.pyx

which gives:

  cython_simulated_annealing.html

"""

import numpy as np
cimport numpy as np

from libc.math cimport exp
from libc.math cimport fmod
from libc.stdlib cimport rand
from libc.stdlib cimport RAND_MAX

#DTYPE = float
#ctypedef np.float_t DTYPE_t

def sim_ann_cython(double[:, :] D, double T_start, double T_end, double alpha):

    cdef long N = len(D)
    cdef double A = np.sum(np.triu(D, 0))
    cdef long[:] p = np.arange(N)
    cdef double T = T_start
    cdef long iterations
    cdef long succ_iter
    cdef long total_iter = 0
    cdef double delta_A
    cdef long ind1
    cdef long ind2

    while T > T_end:
        iterations = 0
        succ_iter = 0
        # equilibrate for 100*N steps or 10*N successful steps
        while iterations < 100*N and succ_iter < 10*N:
            # exchange two rows and cols
            # ind1 = np.random.randint(N-1)
            ind1 = rand() % (N-1)
            if ind1 < N-1:
                ind2 = ind1+1
            else:  # this can never happen!
                ind2 = 0
            delta_A = -2*D[p[ind1], p[ind2]]
            if delta_A > 0.0 or exp(delta_A/T) > ((1.0*rand()) / RAND_MAX):
                # swap indices
                p[ind1], p[ind2] = p[ind2], p[ind1]
                A += delta_A
                succ_iter += 1
            iterations += 1
        total_iter += iterations
        T *= alpha   # cool down
        if succ_iter == 0:
            # no successful step -> we believe we have converged
            break

    return p, A, total_iter
