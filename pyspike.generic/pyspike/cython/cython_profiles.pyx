#cython: language_level=3
#cython: boundscheck=False
#cython: wraparound=False
#cython: cdivision=True

"""
cython_profiles.pyx

cython implementation of the isi-, spike- and spike-sync profiles

Note: using cython memoryviews (e.g. double[:]) instead of ndarray objects
improves the performance of spike_distance by a factor of 10!

Copyright 2014-2015, Mario Mulansky <mario.mulansky@gmx.net>

Distributed under the BSD License

"""

"""
To test whether things can be optimized: remove all yellow stuff
in the html output::

  cython -a cython_profiles.pyx

which gives::

  cython_profiles.html

"""

import numpy as np
cimport numpy as np

from libc.math cimport fabs
from libc.math cimport fmax
from libc.math cimport fmin

from pyspike.cython.cython_get_tau cimport get_tau

#DTYPE = float
#ctypedef np.float_t DTYPE_t

############################################################
# isi_profile_cython
############################################################
def isi_profile_cython(double[:] s1, double[:] s2,
                       double t_start, double t_end,
                       double MRTS=0.):

    cdef double[:] spike_events
    cdef double[:] isi_values
    cdef int index1, index2, index
    cdef int N1, N2
    cdef double nu1, nu2
    N1 = len(s1)
    N2 = len(s2)

    spike_events = np.empty(N1+N2+2)
    # the values have one entry less as they are defined at the intervals
    isi_values = np.empty(N1+N2+1)

    # first x-value of the profile
    spike_events[0] = t_start

    # first interspike interval - check if a spike exists at the start time
    if s1[0] > t_start:
        # edge correction
        nu1 = fmax(s1[0]-t_start, s1[1]-s1[0]) if N1 > 1 else s1[0]-t_start
        index1 = -1
    else:
        nu1 = s1[1]-s1[0] if N1 > 1 else t_end-s1[0]
        index1 = 0

    if s2[0] > t_start:
        # edge correction
        nu2 = fmax(s2[0]-t_start, s2[1]-s2[0]) if N2 > 1 else s2[0]-t_start
        index2 = -1
    else:
        nu2 = s2[1]-s2[0] if N2 > 1 else t_end-s2[0]
        index2 = 0

    isi_values[0] = fabs(nu1-nu2)/fmax(MRTS, fmax(nu1, nu2))
    index = 1

    with nogil: # release the interpreter to allow multithreading
        while index1+index2 < N1+N2-2:
            # check which spike is next, only if there are spikes left in 1
            # next spike in 1 is earlier, or there are no spikes left in 2
            if (index1 < N1-1) and ((index2 == N2-1) or
                                    (s1[index1+1] < s2[index2+1])):
                index1 += 1
                spike_events[index] = s1[index1]
                if index1 < N1-1:
                    nu1 = s1[index1+1]-s1[index1]
                else:
                    # edge correction
                    nu1 = fmax(t_end-s1[index1], nu1) if N1 > 1 \
                          else t_end-s1[index1]
            elif (index2 < N2-1) and ((index1 == N1-1) or
                                      (s1[index1+1] > s2[index2+1])):
                index2 += 1
                spike_events[index] = s2[index2]
                if index2 < N2-1:
                    nu2 = s2[index2+1]-s2[index2]
                else:
                    # edge correction
                    nu2 = fmax(t_end-s2[index2], nu2) if N2 > 1 \
                          else t_end-s2[index2]
            else: # s1[index1+1] == s2[index2+1]
                index1 += 1
                index2 += 1
                spike_events[index] = s1[index1]
                if index1 < N1-1:
                    nu1 = s1[index1+1]-s1[index1]
                else:
                    # edge correction
                    nu1 = fmax(t_end-s1[index1], nu1) if N1 > 1 \
                          else t_end-s1[index1]
                if index2 < N2-1:
                    nu2 = s2[index2+1]-s2[index2]
                else:
                    # edge correction
                    nu2 = fmax(t_end-s2[index2], nu2) if N2 > 1 \
                          else t_end-s2[index2]
            # compute the corresponding isi-distance
            isi_values[index] = fabs(nu1 - nu2) / fmax(MRTS, fmax(nu1, nu2))
            index += 1
        # the last event is the interval end
        if spike_events[index-1] == t_end:
            index -= 1
        else:
            spike_events[index] = t_end
    # end nogil

    return spike_events[:index+1], isi_values[:index]


############################################################
# get_min_dist_cython
############################################################
cdef inline double get_min_dist_cython(double spike_time, 
                                       double[:] spike_train,
                                       # use memory view to ensure inlining
                                       # np.ndarray[DTYPE_t,ndim=1] spike_train,
                                       int N,
                                       int start_index,
                                       double t_start, double t_end) nogil:
    """ Returns the minimal distance |spike_time - spike_train[i]| 
    with i>=start_index.
    """
    cdef double d, d_temp
    # start with the distance to the start time
    d = fabs(spike_time - t_start)
    if start_index < 0:
        start_index = 0
    while start_index < N:
        d_temp = fabs(spike_time - spike_train[start_index])
        if d_temp > d:
            return d
        else:
            d = d_temp
        start_index += 1

    # finally, check the distance to end time
    d_temp = fabs(t_end - spike_time)
    if d_temp > d:
        return d
    else:
        return d_temp


############################################################
# dist_at_t
############################################################
cdef inline double dist_at_t(double isi1, double isi2, 
                              double s1, double s2,
                              double MRTS, int RI) nogil:
    """ Compute instantaneous Spike Distance
            In: isi1, isi2 - spike time differences around current times in each trains
                s1, s2 - weighted spike time differences between trains
                MRTS -minimum relevant time scal (0 for legacy logic)
                RI - Rate Independent Adaptive spike distance 
                        (False for legacy SPIKE distance)
            Out: Spike Distance at current time
    """
    cdef double meanISI = .5*(isi1+isi2)
    cdef double limitedISI = max(MRTS, meanISI)
    if RI:
        return .5*(s1+s2)/limitedISI
    else:
        return .5*(s1*isi2 + s2*isi1)/(meanISI*limitedISI)

############################################################
# spike_profile_cython
############################################################
def spike_profile_cython(double[:] t1, double[:] t2,
                         double t_start, double t_end,
                         double MRTS=0., int RI=0):

    cdef double[:] spike_events
    cdef double[:] y_starts
    cdef double[:] y_ends
    cdef double[:] t_aux1 = np.empty(2)
    cdef double[:] t_aux2 = np.empty(2)

    cdef int N1, N2, index1, index2, index
    cdef double t_p1, t_f1, t_p2, t_f2, dt_p1, dt_p2, dt_f1, dt_f2
    cdef double isi1, isi2, s1, s2

    N1 = len(t1)
    N2 = len(t2)

    # we can assume at least one spikes per spike train
    assert N1 > 0
    assert N2 > 0

    spike_events = np.empty(N1+N2+2)

    y_starts = np.empty(len(spike_events)-1)
    y_ends = np.empty(len(spike_events)-1)

    with nogil: # release the interpreter to allow multithreading
        spike_events[0] = t_start
        # t_p1 = t_start
        # t_p2 = t_start
        # auxiliary spikes for edge correction - consistent with first/last ISI 
        t_aux1[0] = fmin(t_start, 2*t1[0]-t1[1]) if N1 > 1 else t_start
        t_aux1[1] = fmax(t_end, 2*t1[N1-1]-t1[N1-2]) if N1 > 1 else t_end
        t_aux2[0] = fmin(t_start, 2*t2[0]-t2[1]) if N2 > 1 else t_start
        t_aux2[1] = fmax(t_end, 2*t2[N2-1]-t2[N2-2]) if N2 > 1 else t_end
        t_p1 = t_start if (t1[0] == t_start) else t_aux1[0]
        t_p2 = t_start if (t2[0] == t_start) else t_aux2[0]
        if t1[0] > t_start:
            # dt_p1 = t2[0]-t_start
            t_f1 = t1[0]
            dt_f1 = get_min_dist_cython(t_f1, t2, N2, 0, t_aux2[0], t_aux2[1])
            isi1 = fmax(t_f1-t_start, t1[1]-t1[0]) if N1 > 1 else t_f1-t_start
            dt_p1 = dt_f1
            # s1 = dt_p1*(t_f1-t_start)/isi1
            s1 = dt_p1
            index1 = -1
        else:
            t_f1 = t1[1] if N1 > 1 else t_end
            dt_f1 = get_min_dist_cython(t_f1, t2, N2, 0, t_aux2[0], t_aux2[1])
            dt_p1 = get_min_dist_cython(t_p1, t2, N2, 0, t_aux2[0], t_aux2[1])
            isi1 = t_f1-t1[0]
            s1 = dt_p1
            index1 = 0
        if t2[0] > t_start:
            # dt_p1 = t2[0]-t_start
            t_f2 = t2[0]
            dt_f2 = get_min_dist_cython(t_f2, t1, N1, 0, t_aux1[0], t_aux1[1])
            dt_p2 = dt_f2
            isi2 = fmax(t_f2-t_start, t2[1]-t2[0]) if N2 > 1 else t_f2-t_start
            # s2 = dt_p2*(t_f2-t_start)/isi2
            s2 = dt_p2
            index2 = -1
        else:
            t_f2 = t2[1] if N2 > 1 else t_end
            dt_f2 = get_min_dist_cython(t_f2, t1, N1, 0, t_aux1[0], t_aux1[1])
            dt_p2 = get_min_dist_cython(t_p2, t1, N1, 0, t_aux1[0], t_aux1[1])
            isi2 = t_f2-t2[0]
            s2 = dt_p2
            index2 = 0

        y_starts[0] = dist_at_t(isi1, isi2, s1, s2, MRTS, RI)
        index = 1

        while index1+index2 < N1+N2-2:
            # print(index, index1, index2)
            if (index1 < N1-1) and (t_f1 < t_f2 or index2 == N2-1):
                index1 += 1
                # first calculate the previous interval end value
                s1 = dt_f1*(t_f1-t_p1) / isi1
                # the previous time now was the following time before:
                dt_p1 = dt_f1
                t_p1 = t_f1    # t_p1 contains the current time point
                # get the next time
                if index1 < N1-1:
                    t_f1 = t1[index1+1]
                else:
                    t_f1 = t_aux1[1]
                spike_events[index] = t_p1
                s2 = (dt_p2*(t_f2-t_p1) + dt_f2*(t_p1-t_p2)) / isi2
                y_ends[index-1] = dist_at_t(isi1, isi2, s1, s2, MRTS, RI)
                # now the next interval start value
                if index1 < N1-1:
                    dt_f1 = get_min_dist_cython(t_f1, t2, N2, index2,
                                                t_aux2[0], t_aux2[1])
                    isi1 = t_f1-t_p1
                    s1 = dt_p1
                else:
                    dt_f1 = dt_p1
                    isi1 = fmax(t_end-t1[N1-1], t1[N1-1]-t1[N1-2]) if N1 > 1 \
                           else t_end-t1[N1-1]
                    # s1 needs adjustment due to change of isi1
                    # s1 = dt_p1*(t_end-t1[N1-1])/isi1
                    # Eero's correction: no adjustment
                    s1 = dt_p1
                # s2 is the same as above, thus we can compute y2 immediately
                y_starts[index] = dist_at_t(isi1, isi2, s1, s2, MRTS, RI)
            elif (index2 < N2-1) and (t_f1 > t_f2 or index1 == N1-1):
                index2 += 1
                # first calculate the previous interval end value
                s2 = dt_f2*(t_f2-t_p2) / isi2
                # the previous time now was the following time before:
                dt_p2 = dt_f2
                t_p2 = t_f2    # t_p2 contains the current time point
                # get the next time
                if index2 < N2-1:
                    t_f2 = t2[index2+1]
                else:
                    t_f2 = t_aux2[1]
                spike_events[index] = t_p2
                s1 = (dt_p1*(t_f1-t_p2) + dt_f1*(t_p2-t_p1)) / isi1
                y_ends[index-1] = dist_at_t(isi1, isi2, s1, s2, MRTS, RI)
                # now the next interval start value
                if index2 < N2-1:
                    dt_f2 = get_min_dist_cython(t_f2, t1, N1, index1,
                                                t_aux1[0], t_aux1[1])
                    isi2 = t_f2-t_p2
                    s2 = dt_p2
                else:
                    dt_f2 = dt_p2
                    isi2 = fmax(t_end-t2[N2-1], t2[N2-1]-t2[N2-2]) if N2 > 1 \
                           else t_end-t2[N2-1]
                    # s2 needs adjustment due to change of isi2
                    # s2 = dt_p2*(t_end-t2[N2-1])/isi2
                    # Eero's correction: no adjustment
                    s2 = dt_p2
                # s2 is the same as above, thus we can compute y2 immediately
                y_starts[index] = dist_at_t(isi1, isi2, s1, s2, MRTS, RI)
            else: # t_f1 == t_f2 - generate only one event
                index1 += 1
                index2 += 1
                t_p1 = t_f1
                t_p2 = t_f2
                dt_p1 = 0.0
                dt_p2 = 0.0
                spike_events[index] = t_f1
                y_ends[index-1] = 0.0
                y_starts[index] = 0.0
                if index1 < N1-1:
                    t_f1 = t1[index1+1]
                    dt_f1 = get_min_dist_cython(t_f1, t2, N2, index2,
                                                t_aux2[0], t_aux2[1])
                    isi1 = t_f1 - t_p1
                else:
                    t_f1 = t_aux1[1]
                    dt_f1 = dt_p1
                    isi1 = fmax(t_end-t1[N1-1], t1[N1-1]-t1[N1-2]) if N1 > 1 \
                           else t_end-t1[N1-1]
                if index2 < N2-1:
                    t_f2 = t2[index2+1]
                    dt_f2 = get_min_dist_cython(t_f2, t1, N1, index1,
                                                t_aux1[0], t_aux1[1])
                    isi2 = t_f2 - t_p2
                else:
                    t_f2 = t_aux2[1]
                    dt_f2 = dt_p2
                    isi2 = fmax(t_end-t2[N2-1], t2[N2-1]-t2[N2-2]) if N2 > 1 \
                           else t_end-t2[N2-1]
            index += 1
        # the last event is the interval end
        if spike_events[index-1] == t_end:
            index -= 1
        else:
            spike_events[index] = t_end
            s1 = dt_f1
            s2 = dt_f2
            y_ends[index-1] = dist_at_t(isi1, isi2, s1, s2, MRTS, RI)
    # end nogil

    # use only the data added above 
    # could be less than original length due to equal spike times
    return spike_events[:index+1], y_starts[:index], y_ends[:index]



############################################################
# coincidence_profile_cython
############################################################
def coincidence_profile_cython(double[:] spikes1, double[:] spikes2,
                               double t_start, double t_end, double max_tau, double MRTS=0):

    cdef int N1 = len(spikes1)
    cdef int N2 = len(spikes2)
    cdef int i = -1
    cdef int j = -1
    cdef int n = 0
    cdef double[:] st = np.zeros(N1 + N2 + 2)  # spike times
    cdef double[:] c = np.zeros(N1 + N2 + 2)   # coincidences
    cdef double[:] mp = np.ones(N1 + N2 + 2)   # multiplicity
    cdef double interval = t_end - t_start
    cdef double tau

    cdef double true_max = t_end - t_start
    if max_tau > 0:
        true_max = fmin(true_max, 2*max_tau)

    while i + j < N1 + N2 - 2:
        if (i < N1-1) and (j == N2-1 or spikes1[i+1] < spikes2[j+1]):
            i += 1
            n += 1
            tau = get_tau(spikes1, spikes2, i, j, true_max, MRTS)
            st[n] = spikes1[i]
            if j > -1 and spikes1[i]-spikes2[j] < tau:
                # coincidence between the current spike and the previous spike
                # both get marked with 1
                c[n] = 1
                c[n-1] = 1
        elif (j < N2-1) and (i == N1-1 or spikes1[i+1] > spikes2[j+1]):
            j += 1
            n += 1
            tau = get_tau(spikes1, spikes2, i, j, true_max, MRTS)
            st[n] = spikes2[j]
            if i > -1 and spikes2[j]-spikes1[i] < tau:
                # coincidence between the current spike and the previous spike
                # both get marked with 1
                c[n] = 1
                c[n-1] = 1
        else:   # spikes1[i+1] = spikes2[j+1]
            # advance in both spike trains
            j += 1
            i += 1
            n += 1
            # add only one event, but with coincidence 2 and multiplicity 2
            st[n] = spikes1[i]
            c[n] = 2
            mp[n] = 2

    st = st[:n+2]
    c = c[:n+2]
    mp = mp[:n+2]

    st[0] = t_start
    st[len(st)-1] = t_end
    if N1 + N2 > 0:
        c[0] = c[1]
        c[len(c)-1] = c[len(c)-2]
        mp[0] = mp[1]
        mp[len(mp)-1] = mp[len(mp)-2]
    else:
        c[0] = 1
        c[1] = 1

    return st, c, mp


############################################################
# coincidence_single_profile_cython
############################################################
def coincidence_single_profile_cython(double[:] spikes1, double[:] spikes2,
                                      double t_start, double t_end, double max_tau, double MRTS=0.):

    cdef int N1 = len(spikes1)
    cdef int N2 = len(spikes2)
    cdef int j = -1
    cdef double[:] c = np.zeros(N1)   # coincidences
    cdef double interval = t_end - t_start
    cdef double tau

    cdef double true_max = t_end - t_start
    if max_tau > 0:
        true_max = fmin(true_max, 2*max_tau)

    for i in xrange(N1):
        while j < N2-1 and spikes2[j+1] < spikes1[i]:
            # move forward until spikes2[j] is the last spike before spikes1[i]
            # note that if spikes2[j] is after spikes1[i] we dont do anything
            j += 1
        tau = get_tau(spikes1, spikes2, i, j, true_max, MRTS)
        if j > -1 and fabs(spikes1[i]-spikes2[j]) < tau:
            # current spike in st1 is coincident
            c[i] = 1
        if j < N2-1 and (j < 0 or spikes2[j] < spikes1[i]):
            # in case spikes2[j] is before spikes1[i] it has to be the one 
            # right before (see above), hence we move one forward and also 
            # check the next spike
            j += 1
            tau = get_tau(spikes1, spikes2, i, j, true_max, MRTS)
            if fabs(spikes2[j]-spikes1[i]) < tau:
                # current spike in st1 is coincident
                c[i] = 1
    return c
