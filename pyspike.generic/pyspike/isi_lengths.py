""" isi_lengths.py

Support for automatic threshold determination

Copyright 2023, Thomas Kreuz

Distributed under the BSD License
"""
import numpy as np

def isi_lengths(spike_times, t_start, t_end):
    """ Plain Python implementation of logic to extract ISI lengths
        In:  spike_times - spike times
             t_start, t_end - interval for ISI calculation
        Out: isi_lengths - ISI distance between consecutive elements of spike_events

        Note: the only complexities are with the edges and N==1
    """
    N_spike_times = len(spike_times)
    if 0 < N_spike_times:
        if spike_times[N_spike_times - 1] < t_end:
            i_end = N_spike_times
            if 1 < N_spike_times:
                del_end = max(spike_times[N_spike_times - 1] - spike_times[N_spike_times - 2], t_end - spike_times[N_spike_times - 1])
            else:
                del_end = t_end - spike_times[0]
        else:
            i_end = N_spike_times - 1
            if 1 < N_spike_times:
                del_end = spike_times[N_spike_times - 1] - spike_times[N_spike_times - 2]
            else:
                del_end = spike_times[0] - t_end
        if t_start < spike_times[0]:
            i_start = 0
            if 1 < N_spike_times:
                del_start = max(spike_times[0] - t_start, spike_times[1] - spike_times[0])
            else:
                del_start = spike_times[0] - t_start
        else:
            i_start = 1
            if 1 < N_spike_times:
                del_start = spike_times[1] - spike_times[0]
            else:
                del_start = t_start - spike_times[0]
        return [del_start] + [spike_times[i + 1] - spike_times[i] for i in range(i_start, i_end - 1)] + [del_end]
    else:
        return [t_end - t_start]

def default_thresh_(train_list, t_start, t_end):
    """ Implements default_thresh()
        In: train_list - list of list of spike times
            t_start, t_end - begin and end times for spikes
        Out: threshold
    """
    spike_pool = []
    for t in train_list:
        spike_pool += isi_lengths(t, t_start, t_end)
    spike_pool = np.array(spike_pool)
    return np.sqrt(np.sum(spike_pool * spike_pool) / len(spike_pool))

def default_thresh(spike_train_list):
    """ Computes a default threshold for a list of spike trains
        In: spike_train_list - list of list of SpikeTrain object
        Out: threshold as specified in section 2.4 of
               "Measures of spike train synchrony for data with multiple time scales"
    """
    N_spike_train_list = len(spike_train_list)
    if 0 < N_spike_train_list:
        return default_thresh_([st.spikes.tolist() for st in spike_train_list], spike_train_list[0].t_start, spike_train_list[0].t_end)
    else:
        return 0
