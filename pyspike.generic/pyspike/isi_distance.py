""" isi_distance.py
    Module containing several functions to compute the ISI profiles and distances
    Copyright 2014-2015, Mario Mulansky <mario.mulansky@gmx.net>
    Distributed under the BSD License
"""
from __future__ import absolute_import
import pyspike
from pyspike import PieceWiseConstFunc
from pyspike.generic import _generic_profile_multi, _generic_distance_multi, _generic_distance_matrix, resolve_keywords
from pyspike.isi_lengths import default_thresh
from pyspike.spikes import reconcile_spike_trains, reconcile_spike_trains_bi

def isi_profile(*args, **kwargs):
    """ Computes the isi-distance profile :math:`I(t)` of the given
    spike trains. Returns the profile as a PieceWiseConstFunc object. The
    ISI-values are defined positive :math:`I(t)>=0`.

    Valid call structures::

      isi_profile(st1, st2)       # returns the bi-variate profile
      isi_profile(st1, st2, st3)  # multi-variate profile of 3 spike trains

      spike_trains = [st1, st2, st3, st4]  # list of spike trains
      isi_profile(spike_trains)   # profile of the list of spike trains
      isi_profile(spike_trains, indices=[0, 1])  # use only the spike trains
                                                 # given by the indices

    The multivariate ISI distance profile for a set of spike trains is defined
    as the average ISI-profile of all pairs of spike-trains:

    .. math:: <I(t)> = \\frac{2}{N(N-1)} \\sum_{<i,j>} I^{i,j},

    where the sum goes over all pairs <i,j>


    :returns: The isi-distance profile :math:`I(t)`
    :rtype: :class:`.PieceWiseConstFunc`
    """
    if len(args) == 1:
        return isi_profile_multi(args[0], **kwargs)
    elif len(args) == 2:
        return isi_profile_bi(args[0], args[1], **kwargs)
    else:
        return isi_profile_multi(args, **kwargs)

def isi_profile_bi(spike_train1, spike_train2, **kwargs):
    """ Specific function to compute a bivariate ISI-profile. This is a
    deprecated function and should not be called directly. Use
    :func:`.isi_profile` to compute ISI-profiles.

    :param spike_train1: First spike train.
    :type spike_train1: :class:`.SpikeTrain`
    :param spike_train2: Second spike train.
    :type spike_train2: :class:`.SpikeTrain`
    :returns: The isi-distance profile :math:`I(t)`
    :rtype: :class:`.PieceWiseConstFunc`

    """
    if kwargs.get('Reconcile', True):
        spike_train1, spike_train2 = reconcile_spike_trains_bi(spike_train1, spike_train2)
        kwargs['Reconcile'] = False
    MRTS, RI = resolve_keywords(**kwargs)
    try:
        from .cython.cython_profiles import isi_profile_cython as isi_profile_impl
    except ImportError:
        pyspike.NoCythonWarn()
        from .cython.python_backend import isi_distance_python as isi_profile_impl
    if isinstance(MRTS, str):
        MRTS = default_thresh([spike_train1, spike_train2])
        kwargs['MRTS'] = MRTS
    times, values = isi_profile_impl(spike_train1.get_spikes_non_empty(), spike_train2.get_spikes_non_empty(), spike_train1.t_start, spike_train1.t_end, MRTS)
    return PieceWiseConstFunc(times, values)

def isi_profile_multi(spike_trains, indices=None, **kwargs):
    """ Specific function to compute the multivariate ISI-profile for a set of
    spike trains. This is a deprecated function and should not be called
    directly. Use :func:`.isi_profile` to compute ISI-profiles.


    :param spike_trains: list of :class:`.SpikeTrain`
    :param indices: list of indices defining which spike trains to use,
                    if None all given spike trains are used (default=None)
    :type state: list or None
    :returns: The averaged isi profile :math:`<I(t)>`
    :rtype: :class:`.PieceWiseConstFunc`
    """
    average_dist, M = _generic_profile_multi(spike_trains, isi_profile_bi, indices, **kwargs)
    average_dist.mul_scalar(1.0 / M)
    return average_dist

def isi_distance(*args, **kwargs):
    """ Computes the ISI-distance :math:`D_I` of the given spike trains. The
    isi-distance is the integral over the isi distance profile
    :math:`I(t)`:

    .. math:: D_I = \\int_{T_0}^{T_1} I(t) dt.

    In the multivariate case it is the integral over the multivariate
    ISI-profile, i.e. the average profile over all spike train pairs:

    .. math:: D_I = \\int_0^T \\frac{2}{N(N-1)} \\sum_{<i,j>} I^{i,j},

    where the sum goes over all pairs <i,j>



    Valid call structures::

      isi_distance(st1, st2)  # returns the bi-variate distance
      isi_distance(st1, st2, st3)  # multi-variate distance of 3 spike trains

      spike_trains = [st1, st2, st3, st4]  # list of spike trains
      isi_distance(spike_trains)  # distance of the list of spike trains
      isi_distance(spike_trains, indices=[0, 1])  # use only the spike trains
                                                  # given by the indices

    :returns: The isi-distance :math:`D_I`.
    :rtype: double
    """
    if len(args) == 1:
        return isi_distance_multi(args[0], **kwargs)
    elif len(args) == 2:
        return isi_distance_bi(args[0], args[1], **kwargs)
    else:
        return isi_distance_multi(args, **kwargs)

def isi_distance_bi(spike_train1, spike_train2, interval=None, **kwargs):
    """ Specific function to compute the bivariate ISI-distance.
    This is a deprecated function and should not be called directly. Use
    :func:`.isi_distance` to compute ISI-distances.

    :param spike_train1: First spike train.
    :type spike_train1: :class:`.SpikeTrain`
    :param spike_train2: Second spike train.
    :type spike_train2: :class:`.SpikeTrain`
    :param interval: averaging interval given as a pair of floats (T0, T1),
                     if None the average over the whole function is computed.
    :type interval: Pair of floats or None.
    :returns: The isi-distance :math:`D_I`.
    :rtype: double
    """
    if kwargs.get('Reconcile', True):
        spike_train1, spike_train2 = reconcile_spike_trains_bi(spike_train1, spike_train2)
        kwargs['Reconcile'] = False
    MRTS, RI = resolve_keywords(**kwargs)
    if isinstance(MRTS, str):
        MRTS = default_thresh([spike_train1, spike_train2])
        kwargs['MRTS'] = MRTS
    if interval is None:
        try:
            from .cython.cython_distances import isi_distance_cython as isi_distance_impl
            return isi_distance_impl(spike_train1.get_spikes_non_empty(), spike_train2.get_spikes_non_empty(), spike_train1.t_start, spike_train1.t_end, MRTS)
        except ImportError:
            return isi_profile_bi(spike_train1, spike_train2, **kwargs).avrg(interval)
    else:
        return isi_profile_bi(spike_train1, spike_train2, **kwargs).avrg(interval)

def isi_distance_multi(spike_trains, indices=None, interval=None, **kwargs):
    """ Specific function to compute the multivariate ISI-distance.
    This is a deprecfated function and should not be called directly. Use
    :func:`.isi_distance` to compute ISI-distances.

    :param spike_trains: list of :class:`.SpikeTrain`
    :param indices: list of indices defining which spike trains to use,
                    if None all given spike trains are used (default=None)
    :param interval: averaging interval given as a pair of floats, if None
                     the average over the whole function is computed.
    :type interval: Pair of floats or None.
    :returns: The time-averaged multivariate ISI distance :math:`D_I`
    :rtype: double
    """
    return _generic_distance_multi(spike_trains, isi_distance_bi, indices, interval, **kwargs)

def isi_distance_matrix(spike_trains, indices=None, interval=None, **kwargs):
    """ Computes the time averaged isi-distance of all pairs of spike-trains.

    :param spike_trains: list of :class:`.SpikeTrain`
    :param indices: list of indices defining which spike trains to use,
                    if None all given spike trains are used (default=None)
    :type indices: list or None
    :param interval: averaging interval given as a pair of floats, if None
                     the average over the whole function is computed.
    :type interval: Pair of floats or None.
    :returns: 2D array with the pair wise time average isi distances
              :math:`D_{I}^{ij}`
    :rtype: np.array
    """
    return _generic_distance_matrix(spike_trains, isi_distance_bi, indices=indices, interval=interval, **kwargs)
