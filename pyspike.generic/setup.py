""" setup.py

to compile cython files:
python setup.py build_ext --inplace


Copyright 2014-2017, Mario Mulansky <mario.mulansky@gmx.net>

Distributed under the BSD License

"""
from setuptools import setup, find_packages
from distutils.extension import Extension
import os.path

try:
    from Cython.Distutils import build_ext
except ImportError:
    use_cython = False
else:
    use_cython = True


class numpy_include(os.PathLike):
     """Defers import of numpy until install_requires is through"""
     def __str__(self):
         import numpy
         return numpy.get_include()

     def __fspath__(self):
         return str(self)


if os.path.isfile("pyspike/cython/cython_add.c") and \
   os.path.isfile("pyspike/cython/cython_get_tau.c") and \
   os.path.isfile("pyspike/cython/cython_profiles.c") and \
   os.path.isfile("pyspike/cython/cython_distances.c") and \
   os.path.isfile("pyspike/cython/cython_directionality.c") and \
   os.path.isfile("pyspike/cython/cython_simulated_annealing.c"):
    use_c = True
else:
    use_c = False

if not use_cython and not use_c:
    print('Cython not installed. Programs will be slow.')
    # Ans = input('Abort? (Y/N)\n')
    # if len(Ans)>0 and (Ans[0]=='Y' or Ans[0]=='y'):
    #     print("\nAborting\n")
    #     raise RuntimeError('User termination')

cmdclass = {}
ext_modules = []

if use_cython:  # Cython is available, compile .pyx -> .c
    ext_modules += [
        Extension("pyspike.cython.cython_add",
                  ["pyspike/cython/cython_add.pyx"]),
        Extension("pyspike.cython.cython_get_tau",
                  ["pyspike/cython/cython_get_tau.pyx"]),
        Extension("pyspike.cython.cython_profiles",
                  ["pyspike/cython/cython_profiles.pyx"]),
        Extension("pyspike.cython.cython_distances",
                  ["pyspike/cython/cython_distances.pyx"]),
        Extension("pyspike.cython.cython_directionality",
                  ["pyspike/cython/cython_directionality.pyx"]),
        Extension("pyspike.cython.cython_simulated_annealing",
                  ["pyspike/cython/cython_simulated_annealing.pyx"])
    ]
    cmdclass.update({'build_ext': build_ext})
elif use_c:  # c files are there, compile to binaries
    ext_modules += [
        Extension("pyspike.cython.cython_add",
                  ["pyspike/cython/cython_add.c"]),
        Extension("pyspike.cython.cython_get_tau",
                  ["pyspike/cython/cython_get_tau.c"]),
        Extension("pyspike.cython.cython_profiles",
                  ["pyspike/cython/cython_profiles.c"]),
        Extension("pyspike.cython.cython_distances",
                  ["pyspike/cython/cython_distances.c"]),
        Extension("pyspike.cython.cython_directionality",
                  ["pyspike/cython/cython_directionality.c"]),
        Extension("pyspike.cython.cython_simulated_annealing",
                  ["pyspike/cython/cython_simulated_annealing.c"])
    ]
# neither cython nor c files available -> automatic fall-back to python backend

setup(
    name='pyspike',
    packages=find_packages(exclude=['doc', 'test*']),
    version='0.8.0',
    cmdclass=cmdclass,
    ext_modules=ext_modules,
    include_dirs=[numpy_include()],
    description='A Python library for the numerical analysis of spike\
train similarity',
    author='Mario Mulansky',
    author_email='mario.mulansky@gmx.net',
    license='BSD',
    url='https://github.com/mariomulansky/PySpike',
    install_requires=['numpy'],
    keywords=['data analysis', 'spike', 'neuroscience'],  # arbitrary keywords
    classifiers=[
        # How mature is this project? Common values are
        #   3 - Alpha
        #   4 - Beta
        #   5 - Production/Stable
        'Development Status :: 4 - Beta',

        # Indicate who your project is intended for
        'Intended Audience :: Science/Research',
        'Topic :: Scientific/Engineering',
        'Topic :: Scientific/Engineering :: Information Analysis',

        'License :: OSI Approved :: BSD License',

        'Programming Language :: Python :: 3',
        'Programming Language :: Python :: 3.7',
        'Programming Language :: Python :: 3.8',
        'Programming Language :: Python :: 3.9',
        'Programming Language :: Python :: 3.10',
    ],
    package_data={
        'pyspike': ['cython/cython_add.c', 
                    'cython/cython_profiles.c',
                    'cython/cython_get_tau.c',
                    'cython/cython_distances.c',
                    'cython/cython_directionality.c',
                    'cython/cython_simulated_annealing.c'],
        'test': ['Spike_testdata.txt']
    }
)
