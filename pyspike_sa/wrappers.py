"""Engine D (wrapper layer): typestate / keyword-flow / index-kind / guard analyses over pyspike/*.py.

All anchors are found by role:
  * kernel call       = call of the alias bound at a dispatch site of the same function
  * train parameter   = parameter whose `.spikes` / `.t_start` / `.get_spikes_non_empty()` is read, or that is passed
                        (possibly inside a list, or subscripted) to a train parameter of another function
  * reconcile prologue= top-level `if kwargs.get('Reconcile', True):` whose body rebinds train parameters from
                        reconcile_spike_trains[_bi]
  * pair list         = list comprehension with two generators producing 2-tuples, iterated by a `for a, b in` loop
"""
from __future__ import annotations

import ast
from dataclasses import dataclass, field
from typing import Dict, List, Optional, Set, Tuple

from .canon import dotted
from .dispatch import DispatchSite, find_dispatch_sites
from .frontend import Repo, FuncInfo
from .report import Ob, ok, violation, inconclusive, info

TRACKED_KEYWORDS = ('interval', 'max_tau', 'MRTS', 'RI', 'indices', 'normalize')


def _fn(fi: FuncInfo) -> str:
    return f"{fi.path}::{fi.name}"


def public_names(repo: Repo) -> Set[str]:
    """Qualified names of functions exported by pyspike/__init__.py (plus public methods of exported classes)."""
    out: Set[str] = set()
    mi = repo.module('pyspike')
    for local, (mod, sym) in mi.imports.items():
        if sym is None or not mod.startswith('pyspike'):
            continue
        r = repo.resolve_symbol('pyspike', local)
        if r:
            out.add(r.qual)
        c = repo.resolve_class('pyspike', local)
        if c:
            for f in repo.module(c[0]).functions.values():
                if f.cls == c[1] and not f.name.split('.')[-1].startswith('_'):
                    out.add(f.qual)
    # functions of public submodules reachable as pyspike.<module>.<name> (listed in __all__)
    return out


def top_level_index(fi: FuncInfo, node: ast.AST) -> int:
    """Index of the top-level statement of `fi` that contains `node` (-1 if not found)."""
    for k, st in enumerate(fi.node.body):
        for x in ast.walk(st):
            if x is node:
                return k
    return -1


def C_dotted(e):
    from .canon import dotted
    return dotted(e)


class WrapperModel:
    def __init__(self, repo: Repo):
        self.repo = repo
        self.sites = find_dispatch_sites(repo)
        self.site_by_func: Dict[str, List[DispatchSite]] = {}
        for s in self.sites:
            self.site_by_func.setdefault(s.fi.qual, []).append(s)
        self.funcs = [f for f in repo.all_functions(pyx=False) if not f.module.startswith('pyspike.cython')]
        self.public = public_names(repo)
        self.partials: Dict[str, Dict[str, Tuple[FuncInfo, Dict[str, ast.AST]]]] = {}
        self._collect_partials()
        self.fparams: Dict[str, Dict[str, List[Tuple[FuncInfo, Set[str]]]]] = {}
        self._collect_function_params()
        self.train_params: Dict[str, Set[str]] = {}
        self._infer_train_params()

    # ------------------------------------------------------------------ call resolution
    def _collect_partials(self):
        for f in self.funcs:
            d: Dict[str, Tuple[FuncInfo, Dict[str, ast.AST]]] = {}
            for n in ast.walk(f.node):
                if isinstance(n, ast.Assign) and isinstance(n.value, ast.Call) and isinstance(n.value.func, ast.Name) \
                        and n.value.func.id == 'partial' and n.value.args and isinstance(n.value.args[0], ast.Name) \
                        and len(n.targets) == 1 and isinstance(n.targets[0], ast.Name):
                    t = self.repo.resolve_symbol(f.module, n.value.args[0].id)
                    if t:
                        d[n.targets[0].id] = (t, {k.arg: k.value for k in n.value.keywords if k.arg})
            self.partials[f.qual] = d

    def _collect_function_params(self):
        """function-valued parameters: callee qual -> param -> [(target, bound keyword names)]"""
        for g in self.funcs:
            for n in ast.walk(g.node):
                if not (isinstance(n, ast.Call) and isinstance(n.func, ast.Name)):
                    continue
                tgt = self.repo.resolve_symbol(g.module, n.func.id)
                if tgt is None:
                    continue
                tp = [a.arg for a in tgt.node.args.args]
                bound = list(zip(tp, n.args)) + [(k.arg, k.value) for k in n.keywords if k.arg]
                for pn, a in bound:
                    if isinstance(a, ast.Name):
                        if a.id in self.partials[g.qual]:
                            t, kws = self.partials[g.qual][a.id]
                            self.fparams.setdefault(tgt.qual, {}).setdefault(pn, []).append((t, set(kws)))
                        else:
                            t = self.repo.resolve_symbol(g.module, a.id)
                            if t and not isinstance(a.ctx, ast.Store):
                                self.fparams.setdefault(tgt.qual, {}).setdefault(pn, []).append((t, set()))
                    elif isinstance(a, ast.Call) and (C_dotted(a.func) or '').split('.')[-1] == 'partial' and a.args \
                            and isinstance(a.args[0], ast.Name):
                        # the partial application written in place
                        t = self.repo.resolve_symbol(g.module, a.args[0].id)
                        if t:
                            self.fparams.setdefault(tgt.qual, {}).setdefault(pn, []).append((t, {k.arg for k in a.keywords if k.arg}))
                    elif isinstance(a, ast.Lambda) and isinstance(a.body, ast.Call) and isinstance(a.body.func, ast.Name):
                        # `lambda a, b: f(a, b, key=value)`
                        t = self.repo.resolve_symbol(g.module, a.body.func.id)
                        if t:
                            self.fparams.setdefault(tgt.qual, {}).setdefault(pn, []).append((t, {k.arg for k in a.body.keywords if k.arg}))

    def enclosing(self, fi: FuncInfo) -> FuncInfo:
        if '.' in fi.name and not fi.cls:
            outer = fi.name.rsplit('.', 1)[0]
            if self.repo.has_func(fi.module, outer):
                return self.repo.func(fi.module, outer)
        return fi

    def callees(self, fi: FuncInfo, call: ast.Call) -> List[Tuple[FuncInfo, Set[str]]]:
        """Resolved targets of a call (with keyword names pre-bound by functools.partial)."""
        f = call.func
        if isinstance(f, ast.Name):
            enc = self.enclosing(fi)
            if f.id in self.partials.get(fi.qual, {}):
                t, kws = self.partials[fi.qual][f.id]
                return [(t, set(kws))]
            for owner in (fi, enc):
                if f.id in self.fparams.get(owner.qual, {}):
                    return list({t.qual: (t, k) for t, k in self.fparams[owner.qual][f.id]}.values())
            r = self.repo.resolve_symbol(fi.module, f.id)
            if r:
                return [(r, set())]
            for cand in (fi.name + '.' + f.id, enc.name + '.' + f.id):
                if self.repo.has_func(fi.module, cand):
                    return [(self.repo.func(fi.module, cand), set())]
        return []

    def kernel_aliases(self, fi: FuncInfo) -> Dict[str, DispatchSite]:
        d = {s.alias: s for s in self.site_by_func.get(fi.qual, [])}
        # `impl = _select_backend()` where the helper holds the try/except import and returns the routine it imported: the
        # local is an alias of that dispatch site
        for n in ast.walk(fi.node):
            if isinstance(n, ast.Assign) and len(n.targets) == 1 and isinstance(n.targets[0], ast.Name) \
                    and isinstance(n.value, ast.Call) and isinstance(n.value.func, ast.Name) and not n.value.args:
                for t, _ in self.callees(fi, n.value):
                    sites = self.site_by_func.get(t.qual, [])
                    rets = [r for r in ast.walk(t.node) if isinstance(r, ast.Return)]
                    for st_ in sites:
                        if rets and all(isinstance(r.value, ast.Name) and r.value.id == st_.alias for r in rets):
                            d.setdefault(n.targets[0].id, st_)
        return d

    # ------------------------------------------------------------------ train parameters
    def _infer_train_params(self):
        tp: Dict[str, Set[str]] = {f.qual: set() for f in self.funcs}
        for f in self.funcs:
            params = {a.arg for a in f.node.args.args}
            if f.node.args.vararg:
                params.add(f.node.args.vararg.arg)
            for n in ast.walk(f.node):
                if isinstance(n, ast.Attribute) and n.attr in ('spikes', 't_start', 't_end', 'get_spikes_non_empty'):
                    b = n.value
                    while isinstance(b, ast.Subscript):
                        b = b.value
                    if isinstance(b, ast.Name) and b.id in params and b.id != 'self':
                        tp[f.qual].add(b.id)
        changed = True
        while changed:
            changed = False
            for f in self.funcs:
                params = {a.arg for a in f.node.args.args}
                if f.node.args.vararg:
                    params.add(f.node.args.vararg.arg)
                for n in ast.walk(f.node):
                    if not isinstance(n, ast.Call):
                        continue
                    for t, pre in self.callees(f, n):
                        if t.qual not in tp:
                            continue
                        tps = [a.arg for a in t.node.args.args if a.arg not in pre]
                        for k, a in enumerate(n.args):
                            if k >= len(tps) or tps[k] not in tp[t.qual]:
                                continue
                            for nm in self._train_roots(a):
                                if nm in params and nm not in tp[f.qual]:
                                    tp[f.qual].add(nm)
                                    changed = True
        self.train_params = tp

    @staticmethod
    def _train_roots(a: ast.AST) -> Set[str]:
        """names whose train objects flow into expression `a` (x, x[i], [x, y])"""
        out: Set[str] = set()
        if isinstance(a, ast.Name):
            out.add(a.id)
        elif isinstance(a, ast.Subscript):
            out |= WrapperModel._train_roots(a.value)
        elif isinstance(a, (ast.List, ast.Tuple)):
            for e in a.elts:
                out |= WrapperModel._train_roots(e)
        elif isinstance(a, ast.Starred):
            out |= WrapperModel._train_roots(a.value)
        return out

    def train_roots_in(self, fi: FuncInfo, a: ast.AST) -> Set[str]:
        """`_train_roots`, looking through locals of `fi` that are bound to a list of trains (`L = [t1, t2]`) or to the
        reconciled version of one (`L = reconcile_spike_trains(L)`)"""
        roots = self._train_roots(a)
        defs: Dict[str, List[ast.AST]] = {}
        for n in ast.walk(fi.node):
            if isinstance(n, ast.Assign) and len(n.targets) == 1 and isinstance(n.targets[0], ast.Name):
                defs.setdefault(n.targets[0].id, []).append(n.value)
        params = {x.arg for x in fi.node.args.args}
        for _ in range(4):
            new = set()
            for r in roots:
                if r in params or r not in defs:
                    new.add(r)
                    continue
                for v in defs[r]:
                    if isinstance(v, (ast.List, ast.Tuple, ast.Name)):
                        new |= self._train_roots(v)
                    elif isinstance(v, ast.Call) and isinstance(v.func, ast.Name) and v.func.id in (
                            'reconcile_spike_trains', 'reconcile_spike_trains_bi', 'list'):
                        for x in v.args:
                            new |= self._train_roots(x)
                    else:
                        new.add(r)
            if new == roots:
                break
            roots = new
        return roots

    # ------------------------------------------------------------------ reconcile prologue
    def reconcile_prologue(self, fi: FuncInfo) -> Optional[dict]:
        for k, st in enumerate(fi.node.body):
            if not isinstance(st, ast.If):
                continue
            t = st.test
            if isinstance(t, ast.Call) and isinstance(t.func, ast.Attribute) and t.func.attr == 'get' and t.args and \
                    isinstance(t.args[0], ast.Constant) and t.args[0].value == 'Reconcile':
                default_true = len(t.args) > 1 and isinstance(t.args[1], ast.Constant) and t.args[1].value is True
                rebound: Set[str] = set()
                sources: Set[str] = set()
                call_ok = False
                sets_false = False
                for s in st.body:
                    if isinstance(s, ast.Assign) and isinstance(s.value, ast.Call):
                        tg = self.callees(fi, s.value)
                        if tg and tg[0][0].name in ('reconcile_spike_trains', 'reconcile_spike_trains_bi'):
                            call_ok = True
                            for tt in s.targets:
                                for x in ast.walk(tt):
                                    if isinstance(x, ast.Name):
                                        rebound.add(x.id)
                            for a in s.value.args:
                                sources |= self._train_roots(a)
                    if isinstance(s, ast.Assign) and isinstance(s.targets[0], ast.Subscript) and \
                            isinstance(s.targets[0].slice, ast.Constant) and s.targets[0].slice.value == 'Reconcile' and \
                            isinstance(s.value, ast.Constant) and s.value.value is False:
                        sets_false = True
                return dict(index=k, node=st, rebound=rebound, sources=sources, ok=call_ok and default_true,
                            sets_false=sets_false, has_else=bool(st.orelse))
        return None


# ======================================================================================
# R13.2  reconcile dominates every sensitive use
# ======================================================================================
def sensitive_uses(wm: WrapperModel, fi: FuncInfo) -> List[Tuple[str, ast.AST, str]]:
    """(train parameter, node, what) for direct uses that require normalised trains: arguments of kernel calls
    and of default_thresh."""
    out: List[Tuple[str, ast.AST, str]] = []
    aliases = wm.kernel_aliases(fi)
    tps = wm.train_params.get(fi.qual, set())
    for n in ast.walk(fi.node):
        if not isinstance(n, ast.Call):
            continue
        if isinstance(n.func, ast.Name) and n.func.id in aliases:
            for a in n.args:
                for x in ast.walk(a):
                    if isinstance(x, ast.Name) and x.id in tps:
                        out.append((x.id, n, f"argument of kernel `{aliases[n.func.id].compiled_symbol}`"))
        else:
            tg = wm.callees(fi, n)
            if tg and tg[0][0].name == 'default_thresh':
                for a in n.args:
                    for nm in wm._train_roots(a):
                        if nm in tps:
                            out.append((nm, n, "argument of default_thresh ('auto' threshold)"))
    return out


def needs_reconciled(wm: WrapperModel) -> Dict[str, Dict[str, List[Tuple[str, str]]]]:
    """need[f][p] = [(where, why)]: train parameter p of f reaches a sensitive use without f reconciling it first."""
    need: Dict[str, Dict[str, List[Tuple[str, str]]]] = {f.qual: {} for f in wm.funcs}
    prolog = {f.qual: wm.reconcile_prologue(f) for f in wm.funcs}

    def covered(f: FuncInfo, p: str, node: ast.AST) -> bool:
        pr = prolog[f.qual]
        if not pr or not pr['ok'] or p not in pr['rebound']:
            return False
        k = top_level_index(f, node)
        return k > pr['index']

    for f in wm.funcs:
        for p, node, what in sensitive_uses(wm, f):
            if not covered(f, p, node):
                need[f.qual].setdefault(p, []).append((f.loc(node), what))
    changed = True
    it = 0
    while changed and it < 10:
        changed = False
        it += 1
        for f in wm.funcs:
            tps = wm.train_params.get(f.qual, set())
            for n in ast.walk(f.node):
                if not isinstance(n, ast.Call):
                    continue
                for t, pre in wm.callees(f, n):
                    if t.qual not in need or not need[t.qual]:
                        continue
                    tpar = [a.arg for a in t.node.args.args if a.arg not in pre]
                    for k, a in enumerate(n.args):
                        if k >= len(tpar) or tpar[k] not in need[t.qual]:
                            continue
                        for nm in wm._train_roots(a):
                            if nm in tps and not covered(f, nm, n):
                                lst = need[f.qual].setdefault(nm, [])
                                item = (f.loc(n), f"passed to {t.name}() which uses `{tpar[k]}` un-reconciled "
                                                  f"({need[t.qual][tpar[k]][0][1]} at {need[t.qual][tpar[k]][0][0]})")
                                if item not in lst:
                                    lst.append(item)
                                    changed = True
    return need


def r13_2_reconcile_dominates(ctx, rule: str = 'R13.2', only_modules: Optional[Set[str]] = None) -> List[Ob]:
    wm = wrapper_model(ctx)
    need = needs_reconciled(wm)
    obs: List[Ob] = []
    for f in wm.funcs:
        if only_modules is not None and f.module not in only_modules:
            continue
        tps = wm.train_params.get(f.qual, set())
        if not tps:
            continue
        pr = wm.reconcile_prologue(f)
        is_public = f.qual in wm.public
        if pr is not None:
            t = (f"{f.name}: the Reconcile prologue rebinds the train parameters it normalises "
                 f"({', '.join(sorted(pr['rebound']))}) from reconcile_spike_trains[_bi], default True")
            if pr['ok'] and pr['sources'] <= pr['rebound'] | tps and pr['rebound'] >= (pr['sources'] & tps):
                obs.append(ok(rule, t, f.loc(pr['node']), construct=f"{_fn(f)}::prologue"))
            else:
                obs.append(violation(rule, t, f.loc(pr['node']), key=f"{_fn(f)}::prologue-shape",
                                     detail=f"rebinds {sorted(pr['rebound'])} from {sorted(pr['sources'])}; ok={pr['ok']}"))
        if pr is not None and pr['ok']:
            # nothing is read from a train before it is reconciled: a spike count, an edge or the spikes themselves taken in
            # front of the prologue describe the caller's raw train (unsorted, repeated or out-of-range spike times), the
            # kernels see the reconciled one
            early = []
            for st_ in f.node.body[:pr['index']]:
                for x in ast.walk(st_):
                    if isinstance(x, ast.Attribute) and isinstance(x.value, ast.Name) and x.value.id in pr['rebound'] \
                            and x.attr in ('spikes', 't_start', 't_end', 'get_spikes_non_empty', 'sort', 'copy'):
                        early.append((x, f"`{ast.unparse(x)}`"))
                    elif isinstance(x, ast.Call) and isinstance(x.func, ast.Name) and x.func.id == 'len' and len(x.args) == 1 \
                            and isinstance(x.args[0], ast.Name) and x.args[0].id in pr['rebound']:
                        early.append((x, f"`{ast.unparse(x)}`"))
                    elif isinstance(x, ast.Subscript) and isinstance(x.value, ast.Name) and x.value.id in pr['rebound'] \
                            and x.value.id in tps and not f.node.args.vararg:
                        pass
            t = (f"{f.name}: nothing is read from a train in front of the Reconcile prologue (spike counts, edges and spike times "
                 f"are those of the reconciled trains)")
            if not early:
                obs.append(ok(rule, t, f.loc(pr['node']), construct=f"{_fn(f)}::no-early-read"))
            else:
                obs.append(violation(rule, t, f.loc(early[0][0]), key=f"{_fn(f)}::read-before-reconcile::{ast.unparse(early[0][0])[:50]}",
                                     detail=f"{early[0][1]} is evaluated before the trains are reconciled" +
                                            (f" (+{len(early) - 1} more)" if len(early) > 1 else '')))
        if not is_public:
            continue
        bad = need[f.qual]
        t = (f"{f.name} (public): every kernel call and every 'auto' threshold is reached only by trains that were "
             f"reconciled on the way (in this function or in the callee that uses them)")
        if not bad:
            obs.append(ok(rule, t, f.loc(), construct=_fn(f)))
        else:
            for p, why in sorted(bad.items()):
                obs.append(violation(rule, t, why[0][0], key=f"{_fn(f)}::unreconciled::{p}",
                                     detail=f"parameter `{p}`: {why[0][1]}" +
                                            (f" (+{len(why) - 1} more uses)" if len(why) > 1 else ''),
                                     construct=f"{_fn(f)}::{p}"))
    # explicit Reconcile=False at a call site requires the caller's own prologue before it
    for f in wm.funcs:
        if only_modules is not None and f.module not in only_modules:
            continue
        pr = wm.reconcile_prologue(f)
        for n in ast.walk(f.node):
            if isinstance(n, ast.Call):
                for k in n.keywords:
                    if k.arg == 'Reconcile' and isinstance(k.value, ast.Constant) and k.value.value is False:
                        t = f"{f.name}: `Reconcile=False` is forwarded only after this function reconciled the trains itself"
                        roots = set()
                        for a in n.args:
                            roots |= wm._train_roots(a)
                        good = pr is not None and pr['ok'] and top_level_index(f, n) > pr['index'] and \
                            (roots & wm.train_params.get(f.qual, set())) <= pr['rebound']
                        if good:
                            obs.append(ok(rule, t, f.loc(n), construct=f"{_fn(f)}::Reconcile=False"))
                        else:
                            obs.append(violation(rule, t, f.loc(n), key=f"{_fn(f)}::Reconcile=False-unreconciled"))
            if isinstance(n, ast.Assign) and isinstance(n.targets[0], ast.Subscript) and \
                    isinstance(n.targets[0].slice, ast.Constant) and n.targets[0].slice.value == 'Reconcile' and \
                    isinstance(n.value, ast.Constant) and n.value.value is False:
                t = f"{f.name}: kwargs['Reconcile'] = False is set only inside the Reconcile prologue (after reconciling) or unconditionally behind it"
                inside = pr is not None and any(x is n for s_ in pr['node'].body for x in ast.walk(s_))
                # ... or unconditionally behind it: where the prologue was skipped the keyword already was false
                behind = pr is not None and pr['ok'] and any(s_ is n for s_ in f.node.body[pr['index'] + 1:])
                if inside or behind:
                    obs.append(ok(rule, t, f.loc(n), construct=f"{_fn(f)}::kwargs-Reconcile"))
                else:
                    obs.append(violation(rule, t, f.loc(n), key=f"{_fn(f)}::kwargs-Reconcile-outside-prologue"))
    return obs


def wrapper_model(ctx) -> WrapperModel:
    return ctx.get('wrappers', lambda c: WrapperModel(c.repo))
