"""Index preconditions across a call (caller / helper agreement on the -1 cursor).

The merge kernels walk two spike arrays with cursors that start at -1 ("no spike of this train seen yet") and hand
both cursors to a helper (`get_tau`) that reads `spikes[i]`, `spikes[i+1]`, `spikes[i-1]`.  Whether such a read is
legal is decided at two sites that have to agree: either the helper guards the read itself (`i > -1`, `i > 0`,
`i < 0 or ...`), or every caller only calls with a cursor that is already >= 0 (>= 1).  A read of `spikes[-1]` is an
IndexError for an empty array (a train without spikes on the route that does not add auxiliary edge spikes), a wrong
neighbour otherwise, and an out-of-bounds read in the compiled code (wraparound is switched off there).

Rule: for every helper of the backends that is called with a cursor (a local that is initialised to -1 in the
caller) and subscripts one of its array parameters with that parameter:
  * a read `a[p]` needs p >= 0, a read `a[p-1]` needs p >= 1 (`a[p+1]` needs the upper bound `p < len(a)-1`);
  * the need is met by a dominating test inside the helper, or else it becomes a precondition of the helper;
  * at every call site a precondition on p is met by a dominating test on the argument, by `arg += 1` in front of the
    call on a cursor that is only ever set to -1 and incremented, or by the argument being the variable of a
    `for ... in range(n)` loop.  A call site that meets none of these while its cursor can still be -1 is reported.
Callers in .py files are matched with helpers in .py files, callers in .pyx files with the helpers of .pyx files.
"""
from __future__ import annotations

import ast
from typing import Dict, List, Optional, Set, Tuple

from .frontend import FuncInfo
from .report import Ob, ok, violation, inconclusive

BACKEND_PREFIX = 'pyspike.cython.'


def _fn(f: FuncInfo) -> str:
    return f"{f.path}::{f.name}"


def _parents(root: ast.AST) -> Dict[ast.AST, ast.AST]:
    par = {}
    for n in ast.walk(root):
        for c in ast.iter_child_nodes(n):
            par[c] = n
    return par


def _int(e: ast.AST) -> Optional[int]:
    if isinstance(e, ast.Constant) and isinstance(e.value, int) and not isinstance(e.value, bool):
        return e.value
    if isinstance(e, ast.UnaryOp) and isinstance(e.op, ast.USub) and isinstance(e.operand, ast.Constant) \
            and isinstance(e.operand.value, int):
        return -e.operand.value
    return None


def lower_bound(test: ast.AST, p: str, truth: bool) -> Optional[int]:
    """L such that (test == truth) implies p >= L, for an integer p that is never below -1; None if nothing follows"""
    if isinstance(test, ast.UnaryOp) and isinstance(test.op, ast.Not):
        return lower_bound(test.operand, p, not truth)
    if isinstance(test, ast.BoolOp):
        conj = isinstance(test.op, ast.And)
        if conj == truth:          # all operands have the value `truth`
            ls = [lower_bound(v, p, truth) for v in test.values]
            ls = [l for l in ls if l is not None]
            return max(ls) if ls else None
        return None
    if isinstance(test, ast.Compare) and len(test.ops) == 1:
        l, op, r = test.left, test.ops[0], test.comparators[0]
        if isinstance(r, ast.Name) and r.id == p and _int(l) is not None:
            # c OP p  ->  p OP' c
            flip = {ast.Lt: ast.Gt, ast.LtE: ast.GtE, ast.Gt: ast.Lt, ast.GtE: ast.LtE, ast.Eq: ast.Eq, ast.NotEq: ast.NotEq}
            l, r, op = r, l, flip[type(op)]()
        if isinstance(l, ast.Name) and l.id == p and _int(r) is not None:
            c = _int(r)
            k = type(op)
            if not truth:
                k = {ast.Lt: ast.GtE, ast.LtE: ast.Gt, ast.Gt: ast.LtE, ast.GtE: ast.Lt, ast.Eq: ast.NotEq, ast.NotEq: ast.Eq}[k]
            if k is ast.Gt:
                return c + 1
            if k is ast.GtE:
                return c
            if k is ast.Eq:
                return c
            if k is ast.NotEq and c == -1:
                return 0                     # never below -1 and not -1
    return None


def dominating_lower_bound(par: Dict[ast.AST, ast.AST], node: ast.AST, p: str, stop: ast.AST) -> int:
    """best lower bound on p that the tests enclosing `node` establish (walk up to `stop`); -1 if none"""
    best = -1
    cur = node
    while cur is not stop and cur in par:
        q = par[cur]
        if isinstance(q, (ast.If, ast.While)):
            if any(cur is s for s in q.body):
                l = lower_bound(q.test, p, True)
            elif isinstance(q, ast.If) and any(cur is s for s in q.orelse):
                l = lower_bound(q.test, p, False)
            else:
                l = None
            if l is not None:
                best = max(best, l)
        elif isinstance(q, ast.IfExp):
            l = lower_bound(q.test, p, True) if cur is q.body else (lower_bound(q.test, p, False) if cur is q.orelse else None)
            if l is not None:
                best = max(best, l)
        elif isinstance(q, ast.BoolOp):
            idx = next((k for k, v in enumerate(q.values) if v is cur), None)
            if idx:
                truth = isinstance(q.op, ast.And)     # and: the earlier operands were true; or: they were false
                for v in q.values[:idx]:
                    l = lower_bound(v, p, truth)
                    if l is not None:
                        best = max(best, l)
        cur = q
    return best


def _stores(fn: ast.AST, name: str) -> List[ast.AST]:
    out = []
    for n in ast.walk(fn):
        if isinstance(n, ast.Name) and n.id == name and isinstance(n.ctx, (ast.Store, ast.Del)):
            out.append(n)
    return out


def helper_requirements(h: FuncInfo) -> Tuple[Dict[str, Tuple[int, ast.AST]], List[Tuple[ast.AST, str, int, int]], Optional[str]]:
    """(param -> (needed lower bound at the call, the read that needs it), all reads [(node, param, need, established)], problem)"""
    params = [a.arg for a in h.node.args.args]
    par = _parents(h.node)
    reads = []
    req: Dict[str, Tuple[int, ast.AST]] = {}
    problem = None
    for n in ast.walk(h.node):
        if not (isinstance(n, ast.Subscript) and isinstance(n.value, ast.Name) and n.value.id in params):
            continue
        s = n.slice
        p, need = None, None
        if isinstance(s, ast.Name) and s.id in params:
            p, need = s.id, 0
        elif isinstance(s, ast.BinOp) and isinstance(s.left, ast.Name) and s.left.id in params and _int(s.right) is not None:
            c = _int(s.right)
            if isinstance(s.op, ast.Sub):
                p, need = s.left.id, c
            elif isinstance(s.op, ast.Add):
                p, need = s.left.id, -c
        if p is None or need is None:
            continue
        if need <= -1:
            continue                                   # a[p+1] with p >= -1: only the upper bound matters
        if _stores(h.node, p):
            # clamp idiom: `if p < 0: p = 0` (or `p = max(p, 0)`) as a statement of the body in front of the read, and
            # apart from that the parameter is only incremented
            cl = _clamp_floor(h, p, n, par)
            if cl is None:
                problem = f"index parameter `{p}` is re-bound inside {h.name} (not the clamp-then-increment idiom)"
                continue
            have = max(cl, dominating_lower_bound(par, n, p, h.node))
            reads.append((n, p, need, have))
            if have < need:
                problem = f"`{ast.unparse(n)}` in {h.name}: `{p}` is clamped to >= {cl} only, {need} needed"
            continue
        have = dominating_lower_bound(par, n, p, h.node)
        reads.append((n, p, need, have))
        if have < need and (p not in req or req[p][0] < need):
            req[p] = (need, n)
    return req, reads, problem


def _clamp_floor(h: FuncInfo, p: str, read: ast.AST, par: Dict[ast.AST, ast.AST]) -> Optional[int]:
    body = h.node.body
    top = read
    while par.get(top) is not h.node and top in par:
        top = par[top]
    if top not in body:
        return None
    idx = body.index(top)
    floor = None
    clamp_nodes: Set[ast.AST] = set()
    for st in body[:idx]:
        c = None
        if isinstance(st, ast.If) and not st.orelse and len(st.body) == 1 and isinstance(st.body[0], ast.Assign) \
                and len(st.body[0].targets) == 1 and isinstance(st.body[0].targets[0], ast.Name) and st.body[0].targets[0].id == p:
            v = _int(st.body[0].value)
            lb_else = lower_bound(st.test, p, False)          # the test is false: p >= lb_else already
            if v is not None and lb_else is not None:
                c = min(v, lb_else)
        elif isinstance(st, ast.Assign) and len(st.targets) == 1 and isinstance(st.targets[0], ast.Name) and st.targets[0].id == p \
                and isinstance(st.value, ast.Call) and isinstance(st.value.func, ast.Name) and st.value.func.id == 'max' \
                and len(st.value.args) == 2 and not st.value.keywords:
            a, b = st.value.args
            for x, y in ((a, b), (b, a)):
                if isinstance(x, ast.Name) and x.id == p and _int(y) is not None:
                    c = _int(y)
        if c is not None:
            floor = c if floor is None else max(floor, c)
            clamp_nodes |= set(ast.walk(st))
        elif _writes(st, p) and not _is_increment(st, p):
            floor = None
    if floor is None:
        return None
    # every other write is an increment
    for n in ast.walk(h.node):
        if n in clamp_nodes:
            continue
        if isinstance(n, ast.Name) and n.id == p and isinstance(n.ctx, (ast.Store, ast.Del)):
            q = par.get(n)
            if not (isinstance(q, (ast.AugAssign, ast.Assign)) and _is_increment(q, p)):
                return None
    return floor


def _cursor_init(fn: ast.AST, name: str) -> Optional[ast.AST]:
    for n in ast.walk(fn):
        if isinstance(n, ast.Assign) and any(isinstance(t, ast.Name) and t.id == name for t in n.targets) and _int(n.value) == -1:
            return n
        # cdef int i = -1 comes out of the front end as an assignment as well
    return None


def _only_incremented(fn: ast.AST, name: str) -> bool:
    for st in _stores(fn, name):
        pass
    for n in ast.walk(fn):
        if isinstance(n, ast.Assign) and any(isinstance(t, ast.Name) and t.id == name for t in n.targets):
            v = n.value
            if _int(v) == -1:
                continue
            if isinstance(v, ast.BinOp) and isinstance(v.op, ast.Add) and isinstance(v.left, ast.Name) and v.left.id == name \
                    and (_int(v.right) or 0) >= 1:
                continue
            return False
        if isinstance(n, ast.AugAssign) and isinstance(n.target, ast.Name) and n.target.id == name:
            if isinstance(n.op, ast.Add) and (_int(n.value) or 0) >= 1:
                continue
            return False
        if isinstance(n, (ast.For, ast.comprehension)) and any(isinstance(t, ast.Name) and t.id == name for t in ast.walk(n.target)):
            return False
        if isinstance(n, ast.Assign) and any(isinstance(t, (ast.Tuple, ast.List)) and
                                             any(isinstance(e, ast.Name) and e.id == name for e in ast.walk(t)) for t in n.targets):
            return False
    return True


def _is_increment(st: ast.stmt, name: str) -> bool:
    if isinstance(st, ast.AugAssign) and isinstance(st.target, ast.Name) and st.target.id == name \
            and isinstance(st.op, ast.Add) and (_int(st.value) or 0) >= 1:
        return True
    if isinstance(st, ast.Assign) and len(st.targets) == 1 and isinstance(st.targets[0], ast.Name) and st.targets[0].id == name:
        v = st.value
        return isinstance(v, ast.BinOp) and isinstance(v.op, ast.Add) and isinstance(v.left, ast.Name) and v.left.id == name \
            and (_int(v.right) or 0) >= 1
    return False


def _writes(st: ast.stmt, name: str) -> bool:
    return any(isinstance(n, ast.Name) and n.id == name and isinstance(n.ctx, (ast.Store, ast.Del)) for n in ast.walk(st))


def site_lower_bound(caller: FuncInfo, par: Dict[ast.AST, ast.AST], call: ast.Call, arg: ast.AST) -> Tuple[Optional[int], str]:
    """(lower bound on the argument established at the call site or None if unknown, how)"""
    c = _int(arg)
    if c is not None:
        return c, 'literal'
    if not isinstance(arg, ast.Name):
        return None, 'argument is not a plain cursor'
    name = arg.id
    fn = caller.node
    # variable of a range loop that encloses the call
    cur = call
    while cur in par:
        q = par[cur]
        if isinstance(q, ast.For) and isinstance(q.target, ast.Name) and q.target.id == name and any(cur is s for s in q.body):
            it = q.iter
            if isinstance(it, ast.Call) and isinstance(it.func, ast.Name) and it.func.id in ('range', 'xrange'):
                start = 0 if len(it.args) == 1 else _int(it.args[0])
                step = 1 if len(it.args) < 3 else _int(it.args[2])
                if start is not None and start >= 0 and step is not None and step > 0:
                    # the body may still move the cursor
                    if not any(_writes(s, name) for s in q.body):
                        return start, 'range loop variable'
            return None, 'loop variable of an iteration that is not a range'
        cur = q
    init = _cursor_init(fn, name)
    if init is None:
        return None, ('a parameter of the caller' if name in [a.arg for a in fn.args.args] else 'not a cursor that starts at -1')
    inits = [n for n in ast.walk(fn) if isinstance(n, ast.Assign) and any(isinstance(t, ast.Name) and t.id == name for t in n.targets)
             and _int(n.value) == -1]
    in_loop = False
    cur = init
    while cur in par:
        cur = par[cur]
        if isinstance(cur, (ast.For, ast.While)):
            in_loop = True
    if len(inits) != 1 or in_loop or not _only_incremented(fn, name):
        return None, 'the cursor is not monotone (set to -1 once, then only incremented)'
    # a monotone cursor keeps every lower bound that a test in front of the call established
    best = dominating_lower_bound(par, call, name, fn)
    # increments in front of the call in the enclosing blocks of the same iteration
    cur = call
    bumped = 0
    while cur in par:
        q = par[cur]
        for fld in ('body', 'orelse', 'finalbody'):
            blk = getattr(q, fld, None)
            if isinstance(blk, list) and any(cur is s for s in blk):
                idx = next(k for k, s in enumerate(blk) if s is cur)
                bumped += sum(1 for st in blk[:idx] if _is_increment(st, name))
                break
        if isinstance(q, (ast.While, ast.For)):
            break
        cur = q
    lb = max(best, -1 + bumped)
    if lb == best and best > -1:
        return lb, 'test in front of the call (the cursor only grows)'
    if bumped:
        return lb, 'incremented in front of the call (the cursor is set to -1 once and only incremented)'
    return lb, 'the cursor starts at -1 and nothing in front of the call moves or tests it'


def r_index_preconditions(ctx, rule: str) -> List[Ob]:
    repo = ctx.repo
    funcs = [f for f in repo.all_functions() if f.module.startswith(BACKEND_PREFIX)]
    by_name: Dict[Tuple[str, bool], List[FuncInfo]] = {}
    for f in funcs:
        if '.' not in f.name:
            by_name.setdefault((f.name, f.is_pyx), []).append(f)
    obs: List[Ob] = []
    # call sites that pass a -1-initialised cursor
    sites: Dict[str, List[Tuple[FuncInfo, ast.Call, Dict[ast.AST, ast.AST]]]] = {}
    for f in funcs:
        par = None
        for n in ast.walk(f.node):
            if isinstance(n, ast.Call) and isinstance(n.func, ast.Name) and (n.func.id, f.is_pyx) in by_name and n.func.id != f.name:
                if any(isinstance(a, ast.Name) and _cursor_init(f.node, a.id) is not None for a in n.args):
                    if par is None:
                        par = _parents(f.node)
                    sites.setdefault(f"{n.func.id}|{int(f.is_pyx)}", []).append((f, n, par))
    n_helpers = 0
    for key, lst in sorted(sites.items()):
        hname, is_pyx = key.split('|')
        for h in by_name[(hname, bool(int(is_pyx)))]:
            params = [a.arg for a in h.node.args.args]
            req, reads, problem = helper_requirements(h)
            if not reads and not problem:
                continue
            n_helpers += 1
            hf = _fn(h)
            if problem:
                obs.append(inconclusive(rule, f"{h.name} ({h.path}): index parameters are read as given", h.loc(), problem, construct=hf))
                continue
            for node, p, need, have in reads:
                t = (f"{h.name} ({h.path}): the read `{ast.unparse(node)}` is under a test that makes `{p}` >= {need}, or every caller "
                     f"establishes it (cursors start at -1)")
                if have >= need:
                    obs.append(ok(rule, t, h.loc(node), construct=f"{hf}::{ast.unparse(node)}::L{getattr(node, 'lineno', 0)}",
                                  detail=f"guarded inside {h.name}: {p} >= {have}"))
            for p, (need, node) in sorted(req.items()):
                pos = params.index(p)
                for caller, call, par in lst:
                    cf = _fn(caller)
                    arg = call.args[pos] if pos < len(call.args) else next((k.value for k in call.keywords if k.arg == p), None)
                    t = (f"{caller.name} ({caller.path}): `{ast.unparse(call)[:70]}` passes an index >= {need} for `{p}` - {h.name} "
                         f"reads `{ast.unparse(node)}` without a test of its own")
                    if arg is None:
                        obs.append(inconclusive(rule, t, caller.loc(call), 'argument not found', construct=f"{cf}::{hname}::{p}"))
                        continue
                    lb, how = site_lower_bound(caller, par, call, arg)
                    ckey = f"{cf}::call::{hname}::{p}::{ast.unparse(arg)}"
                    if lb is not None and lb >= need:
                        obs.append(ok(rule, t, caller.loc(call), construct=ckey + f"::L{call.lineno}", detail=how))
                    elif lb is not None:
                        obs.append(violation(rule, t, caller.loc(call), key=ckey,
                                             detail=f"`{ast.unparse(arg)}` can be {lb} here ({how}); {h.name} ({h.loc(node)}) then reads "
                                                    f"`{ast.unparse(node)}` in front of the first element: IndexError for a train without "
                                                    f"spikes, the last spike instead of 'no spike yet' otherwise"))
                    else:
                        obs.append(inconclusive(rule, t, caller.loc(call), how, construct=ckey))
    t = "helpers that are called with -1-initialised cursors and subscript their array parameters are found in the backends"
    if n_helpers == 0:
        obs.append(inconclusive(rule, t, 'pyspike/cython', 'no such helper / call site recognised (expected get_tau and its callers)',
                                construct='precond::helpers'))
    else:
        obs.append(ok(rule, t, 'pyspike/cython', construct='precond::helpers',
                      detail=f"{n_helpers} helper definitions, {sum(len(v) for v in sites.values())} call sites with a cursor argument"))
    return obs
