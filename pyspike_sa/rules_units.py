"""R08.1 (and R10.5 / R15.4 typing): affine-units typing of every backend routine, the three function classes and
isi_lengths.py.  Parameter types of kernels are read off the wrappers' call sites (`.spikes` -> Time array,
`.t_start` -> Time, `max_tau`/`MRTS` -> Duration, `.y`/`.mp` -> Scalar ...); helper signatures are inferred from
their first typed call and unified at every other call."""
from __future__ import annotations

import ast
from typing import Dict, List, Optional, Tuple

from .frontend import Repo, FuncInfo
from .kernels import discover_families
from .report import Ob, ok, violation, inconclusive, info
from .rules_wrappers import kernel_calls
from .units import UnitChecker, FnSig, Ty, Lit, ANY, TIME, DUR, SCAL, RATE, ATTR_TYPES
from .wrappers import wrapper_model


def _fn(fi: FuncInfo) -> str:
    return f"{fi.path}::{fi.name}"


KEYWORD_TYPES = {'MRTS': DUR, 'max_tau': DUR, 'RI': SCAL}


def arg_type(a: ast.AST):
    if isinstance(a, ast.Call) and isinstance(a.func, ast.Attribute) and a.func.attr == 'get_spikes_non_empty':
        return TIME
    if isinstance(a, ast.Attribute) and a.attr in ATTR_TYPES:
        return ATTR_TYPES[a.attr]
    if isinstance(a, ast.Name) and a.id in KEYWORD_TYPES:
        return KEYWORD_TYPES[a.id]
    return ANY


class LazySigs(dict):
    """helper name -> FnSig, inferred on first use from the argument types of the call"""

    def __init__(self, repo: Repo, module: str, owner_node: ast.FunctionDef, sink: List[Tuple[FuncInfo, UnitChecker]]):
        super().__init__()
        self.repo = repo
        self.module = module
        self.owner = owner_node
        self.sink = sink
        self.pending: Dict[str, ast.FunctionDef] = {}
        mi = repo.module(module)
        for nm, f in mi.functions.items():
            if '.' not in nm:
                self.pending[nm] = f.node
            elif f.cls and nm.count('.') == 1:
                self.pending['self.' + nm.split('.')[1]] = f.node
        # nested helpers of the owner
        for st in owner_node.body:
            if isinstance(st, ast.FunctionDef):
                self.pending[st.name] = st
        # cimported / imported helpers
        if mi.pyx:
            for nm in mi.pyx.cimports:
                for m2 in repo.modules.values():
                    if m2.is_pyx and m2.name != module and nm in m2.functions:
                        self.pending[nm] = m2.functions[nm].node
                        self._mod_of = getattr(self, '_mod_of', {})
                        self._mod_of[nm] = m2.name
        for local, (mod, sym) in mi.imports.items():
            if sym and mod in repo.modules and sym in repo.modules[mod].functions and mod.startswith('pyspike.cython'):
                self.pending[local] = repo.modules[mod].functions[sym].node
                self._mod_of = getattr(self, '_mod_of', {})
                self._mod_of[local] = mod
        self.call_types: Dict[str, List[object]] = {}

    def infer(self, name: str, arg_types: List[object]) -> Optional[FnSig]:
        if name in self:
            return self[name]
        if name not in self.pending:
            return None
        node = self.pending[name]
        params = [a.arg for a in node.args.args]
        pt = {p: (t if not isinstance(t, Lit) else SCAL) for p, t in zip(params, arg_types)}
        mod = getattr(self, '_mod_of', {}).get(name, self.module)
        sub = LazySigs(self.repo, mod, node, self.sink)
        chk = TypedChecker(node, sub, pt)
        # placeholder to cut recursion
        self[name] = FnSig([pt.get(p, ANY) for p in params], ANY)
        chk.run()
        ret = ANY
        for t, _ in chk.returns:
            if isinstance(t, Lit):
                t = SCAL
            ret = t if ret == ANY else chk.unify(ret, t, node, f"{name}() returns different types")
        self[name] = FnSig([pt.get(p, ANY) for p in params], ret)
        fi = None
        for m in self.repo.modules.values():
            for f in m.functions.values():
                if f.node is node:
                    fi = f
        if fi is not None:
            self.sink.append((fi, chk))
        return self[name]


class TypedChecker(UnitChecker):
    def __init__(self, fn, sigs: LazySigs, param_types):
        super().__init__(fn, sigs, param_types)
        self.lazy = sigs

    def call(self, e: ast.Call):
        if isinstance(e.func, ast.Name) and e.func.id not in self.sigs and e.func.id in self.lazy.pending:
            args = [self.ty(a) for a in e.args]
            self.lazy.infer(e.func.id, args)
        if isinstance(e.func, ast.Attribute) and isinstance(e.func.value, ast.Name) and e.func.value.id == 'self':
            key = 'self.' + e.func.attr
            if key in self.lazy.pending:
                args = [ANY] + [self.ty(a) for a in e.args]
                sig = self.lazy.infer(key, args)
                if sig is not None:
                    for k, (a, p_) in enumerate(zip(args[1:], sig.params[1:])):
                        if p_ != ANY and a != ANY:
                            self.unify(p_, a, e, f"argument {k + 1} of {key}()")
                    return sig.ret
        return super().call(e)


def _check_function(repo: Repo, fi: FuncInfo, param_types: Dict[str, object], results: List[Tuple[FuncInfo, UnitChecker]]):
    sigs = LazySigs(repo, fi.module, fi.node, results)
    chk = TypedChecker(fi.node, sigs, param_types)
    chk.run()
    results.append((fi, chk))
    return chk


def _emit(rule: str, fi: FuncInfo, chk: UnitChecker, expected_ret: Optional[List[Ty]], obs: List[Ob], what: str):
    fn = _fn(fi)
    seen = set()
    for msg, node in chk.errors:
        k = f"{fn}::units::{msg}"
        if k in seen:
            continue
        seen.add(k)
        obs.append(violation(rule, f"{fi.name} ({fi.path}): every expression is well-typed in the affine units system "
                             f"(shift and scale invariance)", fi.loc(node), key=k,
                             detail=f"{msg}: `{ast.unparse(node)[:120]}`", construct=f"{fn}::units"))
    if not chk.errors:
        obs.append(ok(rule, f"{fi.name} ({fi.path}): every expression is well-typed in the affine units system "
                      f"(shift and scale invariance) [{what}]", fi.loc(), construct=f"{fn}::units",
                      detail=f"{chk.n_judgements} typing judgements"))
    if expected_ret is not None:
        for t, node in chk.returns:
            ts = list(t[1]) if isinstance(t, tuple) and t and t[0] == 'tuple' else [t]
            ts = [SCAL if isinstance(x, Lit) else x for x in ts]
            title = (f"{fi.name} ({fi.path}): result has type ({', '.join(str(x) for x in expected_ret)}) - breakpoints "
                     f"transform with the time axis, values and multiplicities do not")
            if len(ts) == len(expected_ret) and all(a == b or a == ANY for a, b in zip(ts, expected_ret)):
                if any(a == ANY for a in ts):
                    obs.append(inconclusive(rule, title, fi.loc(node), f"untyped component in {[str(x) for x in ts]}",
                                            construct=f"{fn}::units::return"))
                else:
                    obs.append(ok(rule, title, fi.loc(node), construct=f"{fn}::units::return"))
            else:
                obs.append(violation(rule, title, fi.loc(node), key=f"{fn}::units::return::{[str(x) for x in ts]}",
                                     detail=f"found ({', '.join(str(x) for x in ts)})"))


def r08_1_units(ctx, rule: str = 'R08.1') -> List[Ob]:
    repo = ctx.repo
    wm = wrapper_model(ctx)
    obs: List[Ob] = []
    done = set()
    # ---- kernels, typed from their call sites
    for f in wm.funcs:
        for call, site, ks in kernel_calls(wm, f):
            if site.kind == 'nofallback':
                continue
            # expected result type from how the wrapper uses the result
            uses_ctor = None
            for n in ast.walk(f.node):
                if isinstance(n, ast.Call) and isinstance(n.func, ast.Name):
                    c = repo.resolve_class(f.module, n.func.id)
                    if c and c[1] in ('PieceWiseConstFunc', 'PieceWiseLinFunc', 'DiscreteFunc'):
                        uses_ctor = c[1]
            for k in ks:
                if k.qual in done:
                    continue
                done.add(k.qual)
                params = [a.arg for a in k.node.args.args]
                pt = {p: arg_type(a) for p, a in zip(params, call.args)}
                results: List[Tuple[FuncInfo, UnitChecker]] = []
                chk = _check_function(repo, k, pt, results)
                nret = max((len(t[1]) if isinstance(t, tuple) and t and t[0] == 'tuple' else 1) for t, _ in chk.returns) if chk.returns else 0
                if f.cls:        # add kernels return the arrays of the same class
                    exp = [TIME] + [SCAL] * (nret - 1)
                elif uses_ctor and site.kind == 'paired':
                    exp = [TIME] + [SCAL] * (nret - 1)
                else:
                    exp = [SCAL] * nret
                for fi2, c2 in results:
                    if fi2.qual in done and fi2 is not k:
                        continue
                    done.add(fi2.qual)
                    _emit(rule, fi2, c2, exp if fi2 is k else None, obs,
                          'kernel' if fi2 is k else 'helper typed from its call sites')
                # helper result types required
                for hn, want in (('get_tau', DUR), ('get_min_dist', DUR), ('get_min_dist_cython', DUR), ('dist_at_t', SCAL),
                                 ('Interpolate', DUR)):
                    sg = None
                    for fi2, c2 in results:
                        if fi2.name.split('.')[-1] == hn:
                            rts = [SCAL if isinstance(t, Lit) else t for t, _ in c2.returns]
                            title = f"{hn} ({fi2.path}): returns a {want}"
                            if rts and all(t == want for t in rts):
                                obs.append(ok(rule, title, fi2.loc(), construct=f"{_fn(fi2)}::units::ret"))
                            elif rts:
                                obs.append(violation(rule, title, fi2.loc(), key=f"{_fn(fi2)}::units::helper-return",
                                                     detail=str([str(t) for t in rts])))
    # ---- isi_lengths.py
    if 'pyspike.isi_lengths' in repo.modules:
        mi = repo.module('pyspike.isi_lengths')
        for nm, want, pt in (('isi_lengths', DUR, {'spike_times': TIME, 't_start': TIME, 't_end': TIME}),
                             ('default_thresh_', DUR, {'train_list': TIME, 't_start': TIME, 't_end': TIME})):
            if nm in mi.functions:
                results = []
                chk = _check_function(repo, mi.functions[nm], pt, results)
                for fi2, c2 in results:
                    if fi2.qual in done:
                        continue
                    done.add(fi2.qual)
                    _emit(rule, fi2, c2, [want] if fi2.name == nm else None, obs, 'threshold definition')
    # ---- function classes
    for cls, methods in (('PieceWiseConstFunc', ('integral', 'avrg', '__call__', 'get_plottable_data', 'mul_scalar')),
                         ('PieceWiseLinFunc', ('integral', 'avrg', '__call__', 'get_plottable_data', 'mul_scalar')),
                         ('DiscreteFunc', ('integral', 'avrg', 'mul_scalar'))):
        mod = f"pyspike.{cls}"
        if mod not in repo.modules:
            continue
        for m in methods:
            nm = f"{cls}.{m}"
            if nm not in repo.modules[mod].functions:
                continue
            fi = repo.modules[mod].functions[nm]
            pt = {'interval': TIME, 't': TIME, 'fac': SCAL, 'ival': TIME}
            results = []
            chk = _check_function(repo, fi, pt, results)
            if m == 'integral':
                exp = [DUR] if cls != 'DiscreteFunc' else [SCAL, SCAL]
            elif m == 'avrg':
                exp = [SCAL]
            elif m == '__call__':
                exp = [SCAL]
            elif m == 'get_plottable_data':
                exp = [TIME, SCAL]
            else:
                exp = None
            for fi2, c2 in results:
                if fi2.qual in done:
                    continue
                done.add(fi2.qual)
                _emit(rule, fi2, c2, exp if fi2 is fi else None, obs, 'function class')
    return obs
