"""Exits that leave a kernel before its merge loop ("fast paths").

The kernel rules (idiom, value rules, written extent, projection, symmetry) speak about the path through the merge
loop.  `main_path()` extracts that path from the IR of a kernel: an `if` in front of the loop all of whose arms but
one end in `return`/`raise` is replaced by the arm that goes on (the loop may also sit inside that arm - the form the
normaliser gives to `if c: return X` followed by the rest).  The arms that were cut off are *early exits*; nothing the
loop rules establish covers them, so each one is an obligation of its own here:

* in the addition kernels of the piecewise-constant and piecewise-linear classes an early exit is decided against
  the definition of the sum: it must be taken only when one operand has a single piece (`len(x_o) == 2`) and must
  return, element by element, the other operand's breakpoints and its values plus the single piece's value at the
  same point - constant for PieceWiseConst, the linear interpolation between (x_o[0], y1_o[0]) and (x_o[1], y2_o[0])
  for PieceWiseLin;
* any other early exit is undecided (the check then says so, exit 2): no rule of this framework states what a kernel
  may return without running its loop.
"""
from __future__ import annotations

import ast
from typing import List, Optional, Tuple

from . import canon as C
from .canon import Env
from .compare import Side, Region, Inconclusive
from .frontend import FuncInfo
from .ir import IRBuilder
from .report import Ob, ok, violation, inconclusive


def _fn(f: FuncInfo) -> str:
    return f"{f.path}::{f.name}"


def _terminates(seq: list) -> bool:
    return bool(seq) and seq[-1][0] in ('return', 'raise')


def _has_loop(seq: list) -> bool:
    for it in seq:
        if it[0] == 'while':
            return True
        if it[0] == 'if' and (any(_has_loop(b) for _, b, _ in it[1]) or _has_loop(it[2])):
            return True
    return False


def main_path(items: list) -> Tuple[list, list]:
    """-> (items of the path through the merge loop, early exits).  An early exit is (tests, arm items, node): `tests`
    is the list of (test expression, wanted truth value) leading into the arm, prefix items included by position."""
    out: list = []
    exits: list = []
    for k, it in enumerate(items):
        if it[0] == 'while':
            return out + items[k:], exits
        if it[0] == 'if' and _has_loop(items[k:]):
            alts, els = it[1], it[2]
            arms = [b for (_, b, _) in alts] + [els]
            live = [i for i, a in enumerate(arms) if not _terminates(a)]
            if not live:
                # every arm ends the function: the one that holds the loop is the way on
                live = [i for i, a in enumerate(arms) if _has_loop(a)]
            if len(live) == 1 and len(arms) > 1 and all(_terminates(a) for i, a in enumerate(arms) if i != live[0]):
                failed = []
                live_tests = []
                for i, (test, body, node) in enumerate(alts):
                    if i != live[0]:
                        exits.append((list(out), failed + [(test, True)], body, node))
                    else:
                        live_tests = failed + [(test, True)]
                    failed = failed + [(test, False)]
                if live[0] != len(alts) and els:
                    exits.append((list(out), failed, els, it[3]))
                if live[0] == len(alts):
                    live_tests = failed
                sub, ex2 = main_path(arms[live[0]] + items[k + 1:])
                # nested exits: what precedes this `if` is part of their prefix, the way into the live arm of their tests
                n_arm = len(arms[live[0]])
                exits.extend((list(out) + pre, live_tests + tests, body, node) for pre, tests, body, node in ex2)
                return out + sub, exits
        out.append(it)
    return out, exits


def kernel_exits(fi: FuncInfo) -> list:
    try:
        items = IRBuilder().build(fi.node.body)
    except Exception:
        return []
    return main_path(items)[1]


# ----------------------------------------------------------------------------------------------
# deciding the exits of the add kernels
# ----------------------------------------------------------------------------------------------
COPIES = ('np.array', 'np.asarray', 'np.copy', 'numpy.array', 'numpy.asarray')


def _elem(t, i, arrays) -> Optional[tuple]:
    """element i of an array-valued canonical term built from the array parameters by elementwise arithmetic"""
    if not C.is_poly(t):
        return None
    total = C.ZERO
    for mono, coeff in t[1]:
        prod = C.const(coeff)
        for a in mono:
            e = _elem_atom(a, i, arrays)
            if e is None:
                return None
            prod = C.mul(prod, e)
        total = C.add(total, prod)
    return total


def _elem_atom(a, i, arrays) -> Optional[tuple]:
    if a[0] == 'n':
        if a[1] in arrays:
            return C.atom(('sub', a, i))
        return C.atom(a)
    if a[0] == 'call' and isinstance(a[1], str) and a[1] in COPIES and len(a[2]) == 1:
        return _elem(a[2][0], i, arrays)
    if a[0] == 'sub':
        return C.atom(a)            # a scalar element such as y2[0]
    if a[0] == 'k':
        return C.atom(a)
    return None


def _exit_value(fi: FuncInfo, prefix: list, tests: list, arm: list):
    """-> (canonical returned value, path conditions) of an early exit; raises Inconclusive"""
    from .rules_projection import PathExec
    pe = PathExec(Side(fi, label=fi.name))
    env = Env()
    for it in prefix:
        if it[0] == 'simple':
            pe.cmp.exec_simple(it[1], env, Region(), pe.side)
        elif it[0] in ('def', 'import', 'assert'):
            continue
        else:
            raise Inconclusive(f"`{it[0]}` in front of the early exit")
    conds = []
    for test, want in tests:
        c = C.canon_cond(test, env)
        conds.append(c if want else C.mk_not(c))
    for it in arm[:-1]:
        if it[0] == 'simple':
            pe.cmp.exec_simple(it[1], env, Region(), pe.side)
        else:
            raise Inconclusive(f"`{it[0]}` inside the early exit")
    last = arm[-1]
    if last[0] != 'return' or last[1] is None:
        return None, conds
    return C.canon_expr(last[1], env), conds


def _decide_add_exit(fi: FuncInfo, cls: str, value, conds) -> Tuple[str, str]:
    ps = [a.arg for a in fi.node.args.args]
    k = {'PieceWiseConstFunc': 2, 'PieceWiseLinFunc': 3}.get(cls)
    if k is None or len(ps) != 2 * k:
        return 'inconclusive', f"no definition of a fast path for the add kernel of {cls}"
    ops = (ps[:k], ps[k:])
    sa = C.single_atom(value) if value is not None and C.is_poly(value) else None
    if sa is None or sa[0] != 'tuple' or len(sa[1]) != k:
        return 'violation', f"returns {C.show(value)[:120] if value is not None else 'nothing'}: expected {k} arrays"
    condset = set(conds)
    single = None
    for o in (0, 1):
        L = C.canon_expr(ast.parse(f"len({ops[o][0]})", mode='eval').body, Env())
        if C.mk_cmp('eq', L, C.const(2)) in condset:
            single = o
            break
    if single is None:
        return 'violation', ("the exit is not restricted to an operand with a single piece (no `len(x) == 2` on the path: "
                             f"[{', '.join(C.show(c) for c in conds)}]); a result without the merge is then not the pointwise sum")
    o, s = ops[single], ops[1 - single]
    i = C.atom(('n', '#i'))
    i1 = C.add(i, C.ONE)
    arrays = set(ps)

    def el(name, idx):
        return C.atom(('sub', ('n', name), idx))
    want = [el(s[0], i)]
    if k == 2:
        want.append(C.add(el(s[1], i), el(o[1], C.ZERO)))
    else:
        def iv(t):
            slope = C.div(C.sub(el(o[2], C.ZERO), el(o[1], C.ZERO)), C.sub(el(o[0], C.ONE), el(o[0], C.ZERO)))
            return C.add(el(o[1], C.ZERO), C.mul(slope, C.sub(t, el(o[0], C.ZERO))))
        want.append(C.add(el(s[1], i), iv(el(s[0], i))))
        want.append(C.add(el(s[2], i), iv(el(s[0], i1))))
    names = ['breakpoints', 'values'] if k == 2 else ['breakpoints', 'left values', 'right values']
    for j in range(k):
        got = _elem(sa[1][j], i, arrays)
        if got is None:
            return 'inconclusive', f"component {j + 1} ({C.show(sa[1][j])[:100]}) is not elementwise arithmetic on the operands"
        if got != want[j]:
            return 'violation', (f"{names[j]} of the fast path: element i is {C.show(got)[:160]}; the sum with a single-piece operand "
                                 f"is {C.show(want[j])[:200]}")
    return 'ok', f"single-piece operand `{o[0]}`: result equals the definition element by element"


def early_exit_obs(ctx, fams, rule: str) -> List[Ob]:
    """One obligation per early exit of every kernel of the given families (none on the unchanged library)."""
    obs: List[Ob] = []
    n_kernels = 0
    for f in fams:
        if f is None:
            continue
        for k in (f.py, f.pyx, f.single):
            if k is None:
                continue
            n_kernels += 1
            try:
                items = IRBuilder().build(k.node.body)
            except Exception as e:
                obs.append(inconclusive(rule, f"{k.name} ({k.path}): statement forms of the kernel are known", k.loc(), str(e),
                                        construct=f"{_fn(k)}::exits"))
                continue
            if not _has_loop(items):
                continue
            _, exits = main_path(items)
            t0 = f"{k.name} ({k.path}): every way out of the kernel in front of its merge loop is accounted for"
            if not exits:
                obs.append(ok(rule, t0, k.loc(), construct=f"{_fn(k)}::exits", detail='no early exit'))
                continue
            for prefix, tests, arm, node in exits:
                where = k.loc(node)
                if arm and arm[-1][0] == 'raise':
                    obs.append(ok(rule, t0, where, construct=f"{_fn(k)}::exit::raise::{getattr(node, 'lineno', 0) - k.node.lineno}",
                                  detail='raises (rejects the input)'))
                    continue
                cls = f.wrapper.cls if f.wrapper is not None else None
                t = (f"{k.name} ({k.path}): the early exit `if {' and '.join(('' if w else 'not ') + ast.unparse(x) for x, w in tests)[:80]}: "
                     f"return ...` returns what the merge would")
                try:
                    value, conds = _exit_value(k, prefix, tests, arm)
                except (Inconclusive, C.CanonError) as e:
                    obs.append(inconclusive(rule, t, where, str(e), construct=f"{_fn(k)}::exit"))
                    continue
                if cls in ('PieceWiseConstFunc', 'PieceWiseLinFunc'):
                    verdict, text = _decide_add_exit(k, cls, value, conds)
                else:
                    verdict, text = 'inconclusive', ("a fast path in front of the merge loop: no rule states what this kernel may "
                                                     "return without running its loop")
                ckey = f"{_fn(k)}::exit::{'&'.join(C.show(c) for c in conds)[:80]}"
                if verdict == 'ok':
                    obs.append(ok(rule, t, where, construct=ckey, detail=text))
                elif verdict == 'violation':
                    obs.append(violation(rule, t, where, key=ckey, detail=text))
                else:
                    obs.append(inconclusive(rule, t, where, text, construct=ckey))
    return obs


# ----------------------------------------------------------------------------------------------
# numpy arithmetic in the Python kernels (R18.10)
# ----------------------------------------------------------------------------------------------
def numpy_arithmetic_obs(ctx, fams, rule: str) -> List[Ob]:
    """The Python kernels compute on numpy scalars: `0.0/0.0` at an event where both trains end is nan (and the entry is
    trimmed or overwritten afterwards), exactly as in the compiled copy under cdivision.  With plain Python floats the
    same expression raises ZeroDivisionError.  Obligation: no array parameter of a Python kernel (or an alias of one)
    is converted to Python numbers - `.tolist()`, `list(p)`, `[float(x) for x in p]`, `map(float, p)`."""
    obs: List[Ob] = []
    for f in fams:
        if f is None:
            continue
        k = f.py
        if k is None:
            continue
        params = {a.arg for a in k.node.args.args}
        alias = set(params)
        for _ in range(3):
            for n in ast.walk(k.node):
                if isinstance(n, ast.Assign) and len(n.targets) == 1 and isinstance(n.targets[0], ast.Name):
                    v = n.value
                    while isinstance(v, ast.Call) and v.args and (C.dotted(v.func) or '') in ('np.asarray', 'np.array', 'np.ascontiguousarray'):
                        v = v.args[0]
                    if isinstance(v, ast.Name) and v.id in alias:
                        alias.add(n.targets[0].id)
        bad = []
        for n in ast.walk(k.node):
            if isinstance(n, ast.Call):
                if isinstance(n.func, ast.Attribute) and n.func.attr == 'tolist':
                    b = n.func.value
                    while isinstance(b, ast.Call) and b.args:
                        b = b.args[0]
                    if isinstance(b, ast.Name) and b.id in alias:
                        bad.append(n)
                elif isinstance(n.func, ast.Name) and n.func.id in ('list', 'tuple') and len(n.args) == 1 \
                        and isinstance(n.args[0], ast.Name) and n.args[0].id in alias:
                    bad.append(n)
                elif isinstance(n.func, ast.Name) and n.func.id == 'map' and len(n.args) == 2 and isinstance(n.args[0], ast.Name) \
                        and n.args[0].id == 'float' and isinstance(n.args[1], ast.Name) and n.args[1].id in alias:
                    bad.append(n)
            elif isinstance(n, (ast.ListComp, ast.GeneratorExp)) and isinstance(n.elt, ast.Call) and isinstance(n.elt.func, ast.Name) \
                    and n.elt.func.id == 'float' and len(n.generators) == 1 and isinstance(n.generators[0].iter, ast.Name) \
                    and n.generators[0].iter.id in alias:
                bad.append(n)
        t = (f"{k.name} ({k.path}): the kernel computes on the numpy values of its array arguments (0.0/0.0 is nan there, as in the "
             f"compiled copy; with Python floats it raises)")
        if bad:
            for n in bad:
                obs.append(violation(rule, t, k.loc(n), key=f"{_fn(k)}::python-numbers::{ast.unparse(n)[:50]}",
                                     detail=f"`{ast.unparse(n)[:80]}` turns the spike times into Python floats: a division 0.0/0.0 that numpy "
                                            f"answers with nan (trimmed afterwards) raises ZeroDivisionError"))
        else:
            obs.append(ok(rule, t, k.loc(), construct=f"{_fn(k)}::numpy-values"))
    return obs
