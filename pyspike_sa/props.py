"""Property -> rules table."""
from __future__ import annotations

from .rules_siblings import SiblingEngine, r12_1_pairing, r12_2_routines
from .rules_projection import r12_3_projections


def eng(ctx) -> SiblingEngine:
    return ctx.get('siblings', lambda c: SiblingEngine(c.repo))


COMMON_ASSUMPTIONS = [
    "the .pyx dialect is the closed one of pyspike_sa/frontend.py (anything else is an ANALYSIS-ERROR); Cython's C-level "
    "semantics (cdivision, boundscheck=False, integer width) are not modelled",
    "canonical forms are exact over the reals, not over IEEE floats",
    "valid spike trains: strictly increasing finite times inside [t_start, t_end], t_start < t_end (the properties' quantifier)",
]

PROPS = {}

PROPS['C12'] = dict(
    level='translation_validation',
    rules=[lambda c: r12_1_pairing(eng(c)), lambda c: r12_2_routines(eng(c)), lambda c: r12_3_projections(eng(c))],
    min_instances={'R12.1': 20, 'R12.2': 14, 'R12.3': 100},
    explanation=(
        "Translation validation between the two sources of every backend routine, from the parsed .pyx and .py files "
        "(Cython is not installed here, so nothing can be executed on the compiled side). R12.1: the dispatch sites "
        "found by role pair existing symbols and setup.py builds every imported/cimported extension; R12.2: each "
        "compiled routine and its fallback (10 kernel pairs + helper pairs) are equal after normalisation - symbolic "
        "value numbering of straight-line regions, canonical polynomial forms, lifted element-wise stores, cursor "
        "facts from the verified merge idiom (L1), last-ISI reuse (L2, premises checked), length relations of the "
        "function classes (L3); R12.3: each compiled single-pass kernel is the compiled profile kernel with its "
        "output statements replaced by the integration template (state projection + per-path template). NOT decided: "
        "C-level semantics of the generated code, floating-point rounding."),
    assumptions=COMMON_ASSUMPTIONS + [
        "L3: value arrays of function objects are one shorter than (PWC/PWL) or as long as (Discrete) the breakpoint array",
        "discrete single-pass kernels: an overwritten previous entry was 0 (coincidence is one-to-one; not decided statically)",
    ],
)
