"""Property -> rules table.  Every entry: level, rules (callables ctx -> [Ob]), min_instances (anti-vacuity),
explanation (what is decided, what is not), assumptions."""
from __future__ import annotations

from typing import Callable, Dict, List, Optional, Set

from .report import Ob
from .rules_siblings import SiblingEngine, r12_1_pairing, r12_2_routines
from .rules_projection import r12_3_projections
from .rules_effects import r13_1_no_param_written, r09_2_ownership, r_fresh_results, kernel_results_fresh
from .wrappers import r13_2_reconcile_dominates
from .rules_wrappers import (r_kernel_call_typestates, r05_1_route_identity, r14_1_dispatchers,
                             r14_4_positional_binding, r14_5_keyword_flow)
from .rules_indexkinds import r14_2_index_kinds, r06_4_matrix_fills
from .rules_guards import r18_1_guarded_divisions
from .rules_coincidence import r16_1_bounded_window, r03_5_limit_derivation, r03_2_strict_tests, r03_4_interpolate
from .rules_symmetry import r07_1_symmetry


def eng(ctx) -> SiblingEngine:
    return ctx.get('siblings', lambda c: SiblingEngine(c.repo))


def only_rules(fn: Callable, keep: Set[str]) -> Callable:
    """run a multi-rule function and keep only the obligations of the listed rules"""
    def g(ctx):
        return [o for o in fn(ctx) if o.rule in keep or o.rule.split('-')[0] in keep]
    return g


def relabel(fn: Callable, mapping: Dict[str, str]) -> Callable:
    def g(ctx):
        out = []
        for o in fn(ctx):
            if o.rule in mapping:
                o = Ob(mapping[o.rule], o.title, o.status, o.where, o.detail, o.key, o.construct, o.extra)
            out.append(o)
        return out
    return g


COMMON_ASSUMPTIONS = [
    "the .pyx dialect is the closed one of pyspike_sa/frontend.py (anything else is an ANALYSIS-ERROR); Cython's C-level "
    "semantics (cdivision, boundscheck=False, integer width) are not modelled",
    "canonical forms are exact over the reals, not over IEEE floats",
    "valid spike trains: strictly increasing finite times inside [t_start, t_end], t_start < t_end (the properties' quantifier)",
    "closed tables of copying / in-place numpy operations (pyspike_sa/effects.py) and of positive divisor classes (pyspike_sa/rules_guards.py)",
]

PROPS: Dict[str, dict] = {}

from .rules_units import r08_1_units
from . import rules_kernelspec as KS
from .rules_symmetry import infer_mode


# ---------------------------------------------------------------------------------------------
# kernel selections (by role, through the families discovered from the dispatch sites)
# ---------------------------------------------------------------------------------------------
def fam_by_class(ctx, cls: Optional[str] = None, wrapper_suffix: Optional[str] = None):
    out = []
    for f in eng(ctx).families:
        if cls is not None and f.wrapper.cls == cls:
            out.append(f)
        if wrapper_suffix is not None and f.wrapper.name.endswith(wrapper_suffix):
            out.append(f)
    return out


def measure_family(ctx, result_class: str, discrete_kind: Optional[str] = None):
    """measure families whose wrapper builds a `result_class` object from the kernel result"""
    import ast as _ast
    out = []
    for f in eng(ctx).families:
        if f.wrapper.cls:
            continue
        uses = set()
        for n in _ast.walk(f.wrapper.node):
            if isinstance(n, _ast.Call) and isinstance(n.func, _ast.Name):
                c = ctx.repo.resolve_class(f.wrapper.module, n.func.id)
                if c:
                    uses.add(c[1])
        if result_class in uses:
            out.append(f)
    return out


def isi_family(ctx):
    fs = measure_family(ctx, 'PieceWiseConstFunc')
    return fs[0] if fs else None


def spike_family(ctx):
    fs = measure_family(ctx, 'PieceWiseLinFunc')
    return fs[0] if fs else None


def discrete_families(ctx):
    """{'sync': fam, 'order': fam, 'dir': fam, 'single': fam} classified by the constants their kernels store"""
    out = {}
    e = eng(ctx)
    for f in e.families:
        if f.wrapper.cls or not e.has_merge_loop(f.py):
            if not f.wrapper.cls and not e.has_merge_loop(f.py):
                out['single'] = f
            continue
        roles, _ = e.roles_of(f.py)
        if roles is None or roles.kind != 'cursor':
            continue
        if f in (isi_family(ctx), spike_family(ctx)):
            continue
        mode, negs, rk = infer_mode(f.py, roles.loop[-1])
        if mode == 'anti':
            out['order'] = f
        elif rk == 'swap':
            out['dir'] = f
        else:
            out['sync'] = f
    return out


def kernels_of(fams) -> Set[str]:
    names = set()
    for f in fams:
        if f is None:
            continue
        for k in (f.py, f.pyx, f.single):
            if k is not None:
                names.add(k.name)
    return names


def merge_idiom_obs(ctx, fams, rule: str) -> List[Ob]:
    e = eng(ctx)
    out: List[Ob] = []
    for f in fams:
        if f is None:
            continue
        for k in (f.py, f.pyx, f.single):
            if k is None or not e.has_merge_loop(k):
                continue
            roles, obs = e.roles_of(k)
            for o in obs:
                out.append(Ob(rule, f"{k.name} ({k.path}): {o.title}", o.status, o.where, o.detail, o.key, o.construct, o.extra))
    return out


def helper_pairs_named(ctx, names: Set[str]) -> Set[str]:
    return names
