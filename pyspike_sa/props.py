"""Property -> rules table.  Every entry: level, rules (callables ctx -> [Ob]), min_instances (anti-vacuity),
explanation (what is decided, what is not), assumptions."""
from __future__ import annotations

from typing import Callable, Dict, List, Optional, Set

from .report import Ob
from .rules_siblings import SiblingEngine, r12_1_pairing, r12_2_routines
from .rules_projection import r12_3_projections
from .rules_effects import r13_1_no_param_written, r09_2_ownership, r_fresh_results, kernel_results_fresh
from .wrappers import r13_2_reconcile_dominates
from .rules_wrappers import (r_kernel_call_typestates, r05_1_route_identity, r14_1_dispatchers,
                             r14_4_positional_binding, r14_5_keyword_flow)
from .rules_indexkinds import r14_2_index_kinds, r06_4_matrix_fills
from .rules_guards import r18_1_guarded_divisions
from .rules_coincidence import r16_1_bounded_window, r03_5_limit_derivation, r03_2_strict_tests, r03_4_interpolate
from .rules_symmetry import r07_1_symmetry, add_kernel_symmetry


def eng(ctx) -> SiblingEngine:
    return ctx.get('siblings', lambda c: SiblingEngine(c.repo))


def only_rules(fn: Callable, keep: Set[str]) -> Callable:
    """run a multi-rule function and keep only the obligations of the listed rules"""
    def g(ctx):
        return [o for o in fn(ctx) if o.rule in keep or o.rule.split('-')[0] in keep]
    return g


def relabel(fn: Callable, mapping: Dict[str, str]) -> Callable:
    def g(ctx):
        out = []
        for o in fn(ctx):
            if o.rule in mapping:
                o = Ob(mapping[o.rule], o.title, o.status, o.where, o.detail, o.key, o.construct, o.extra)
            out.append(o)
        return out
    return g


COMMON_ASSUMPTIONS = [
    "the .pyx dialect is the closed one of pyspike_sa/frontend.py (anything else is an ANALYSIS-ERROR); Cython's C-level "
    "semantics (cdivision, boundscheck=False, integer width) are not modelled",
    "canonical forms are exact over the reals, not over IEEE floats",
    "valid spike trains: strictly increasing finite times inside [t_start, t_end], t_start < t_end (the properties' quantifier)",
    "closed tables of copying / in-place numpy operations (pyspike_sa/effects.py) and of positive divisor classes (pyspike_sa/rules_guards.py)",
]

PROPS: Dict[str, dict] = {}

from .rules_units import r08_1_units
from . import rules_kernelspec as KS
from .rules_symmetry import infer_mode


# ---------------------------------------------------------------------------------------------
# kernel selections (by role, through the families discovered from the dispatch sites)
# ---------------------------------------------------------------------------------------------
def fam_by_class(ctx, cls: Optional[str] = None, wrapper_suffix: Optional[str] = None):
    out = []
    for f in eng(ctx).families:
        if cls is not None and f.wrapper.cls == cls:
            out.append(f)
        if wrapper_suffix is not None and f.wrapper.name.endswith(wrapper_suffix):
            out.append(f)
    return out


def measure_family(ctx, result_class: str, discrete_kind: Optional[str] = None):
    """measure families whose wrapper builds a `result_class` object from the kernel result"""
    import ast as _ast
    out = []
    for f in eng(ctx).families:
        if f.wrapper.cls:
            continue
        uses = set()
        for n in _ast.walk(f.wrapper.node):
            if isinstance(n, _ast.Call) and isinstance(n.func, _ast.Name):
                c = ctx.repo.resolve_class(f.wrapper.module, n.func.id)
                if c:
                    uses.add(c[1])
        if result_class in uses:
            out.append(f)
    return out


def isi_family(ctx):
    fs = measure_family(ctx, 'PieceWiseConstFunc')
    return fs[0] if fs else None


def spike_family(ctx):
    fs = measure_family(ctx, 'PieceWiseLinFunc')
    return fs[0] if fs else None


def discrete_families(ctx):
    """{'sync': fam, 'order': fam, 'dir': fam, 'single': fam}: classified by the public wrapper that dispatches to them"""
    from .rules_symmetry import family_kind
    out = {}
    for f in eng(ctx).families:
        k = family_kind(f)
        if k in ('sync', 'order', 'dir', 'single'):
            out[k] = f
    return out


def kernels_of(fams) -> Set[str]:
    names = set()
    for f in fams:
        if f is None:
            continue
        for k in (f.py, f.pyx, f.single):
            if k is not None:
                names.add(k.name)
    return names


def merge_idiom_obs(ctx, fams, rule: str) -> List[Ob]:
    e = eng(ctx)
    out: List[Ob] = []
    for f in fams:
        if f is None:
            continue
        for k in (f.py, f.pyx, f.single):
            if k is None:
                continue
            if not e.has_merge_loop(k):
                if not any(k2 is not None and e.has_merge_loop(k2) for k2 in (f.py, f.pyx, f.single)):
                    continue            # a family of per-spike scans: no merge loop in any copy
                from .report import inconclusive
                out.append(inconclusive(rule, f"{k.name} ({k.path}): the merge loop over both cursors is found", k.loc(),
                                        'no loop of the shape `while c1 + c2 < ...` with a three-way branch',
                                        construct=f"{k.path}::{k.name}::merge-loop"))
                continue
            roles, obs = e.roles_of(k)
            for o in obs:
                out.append(Ob(rule, f"{k.name} ({k.path}): {o.title}", o.status, o.where, o.detail, o.key, o.construct, o.extra))
    return out


def _exits(ctx, fams, rule: str) -> List[Ob]:
    """every return of a kernel in front of its merge loop is an obligation of its own (rules_exits.py): the loop rules
    speak about the path through the loop only"""
    from .rules_exits import early_exit_obs
    return early_exit_obs(ctx, fams, rule)


def helper_pairs_named(ctx, names: Set[str]) -> Set[str]:
    return names

from . import rules_misc as RM
from . import rules_classes as RC
from .rules_kernelspec import (isi_spec, spike_spec, dist_at_t_spec, get_min_dist_spec, discrete_spec, written_extent,
                               guarded_subscripts)


# ---------------------------------------------------------------------------------------------
# rule bundles
# ---------------------------------------------------------------------------------------------
def _sib(ctx, fams, rule='R12.2') -> List[Ob]:
    """sibling agreement of the kernels of the given families and of the helpers they call"""
    e = eng(ctx)
    names = kernels_of(fams)
    out = []
    import ast as _ast
    helper_names = set()
    for f in fams:
        if f is None:
            continue
        for k in (f.py, f.pyx, f.single):
            if k is None:
                continue
            for n in _ast.walk(k.node):
                if isinstance(n, _ast.Call) and isinstance(n.func, _ast.Name):
                    helper_names.add(n.func.id)
    for pyx, py, fam in e.all_pairs():
        if fam is not None and (py.name in names or pyx.name in names):
            out.extend(e.pair_obligations(pyx, py, rule, fam))
        elif fam is None and (pyx.name in helper_names or py.name in helper_names):
            out.extend(e.pair_obligations(pyx, py, rule, None))
    return out


def _proj(ctx, fams, rule='R05.2') -> List[Ob]:
    from .rules_projection import projection_obligations
    out = []
    for f in fams:
        if f is not None and f.single is not None:
            out.extend(projection_obligations(eng(ctx), f, rule))
    return out


def _sigma(ctx, fams, rule='R07.1', modes=('sym', 'swap', 'anti')) -> List[Ob]:
    return r07_1_symmetry(ctx, eng(ctx), rule, modes, only=kernels_of(fams))


def _units_of(ctx, fams, rule='R08.1') -> List[Ob]:
    names = kernels_of(fams)
    allo = ctx.get('units', lambda c: r08_1_units(c, 'R08.1'))
    out = []
    for o in allo:
        head = o.title.split(' ', 1)[0].split('.')[0]
        nm = o.title.split(' ', 1)[0]
        if fams is None or nm in names or head in names or nm.split('.')[-1] in ('get_tau', 'Interpolate', 'get_min_dist', 'get_min_dist_cython', 'dist_at_t') and _helper_used(ctx, fams, nm.split('.')[-1]):
            out.append(Ob(rule, o.title, o.status, o.where, o.detail, o.key, o.construct, o.extra))
    return out


def _helper_used(ctx, fams, helper: str) -> bool:
    import ast as _ast
    for f in fams or []:
        if f is None:
            continue
        for k in (f.py, f.pyx, f.single):
            if k is None:
                continue
            for n in _ast.walk(k.node):
                if isinstance(n, _ast.Call) and isinstance(n.func, _ast.Name) and n.func.id == helper:
                    return True
    return False


def _ensure_helpers(ctx):
    """helper adapters (extra length parameter of the compiled nearest-spike helper) are registered by the sibling run"""
    e = eng(ctx)
    if not getattr(e, '_adapters_ready', False):
        e._adapters([], 'init')
        e._adapters_ready = True
    return e


def _isi_rules(ctx) -> List[Ob]:
    e = _ensure_helpers(ctx)
    f = isi_family(ctx)
    if f is None:
        from .report import inconclusive
        return [inconclusive('R01.1', 'ISI family (wrapper building a PieceWiseConstFunc from a kernel) found', 'pyspike/isi_distance.py')]
    out = merge_idiom_obs(ctx, [f], 'R01.1')
    out += isi_spec(e, f.py, True) + isi_spec(e, f.pyx, True)
    if f.single is not None:
        out += isi_spec(e, f.single, False)
    for k in (f.py, f.pyx):
        out += [Ob('R01.5', o.title, o.status, o.where, o.detail, o.key, o.construct, o.extra) for o in written_extent(e, k, 'R01.5', 1)]
    out += _epilogue_trim(ctx, [f.py, f.pyx], 'R01.5')
    out += _nonempty_aux(ctx)
    return out


def _carry(obs, wanted: set, new_rule: str, premise_rules: tuple = ()) -> List[Ob]:
    """obligations of the rules in `wanted`, re-labelled; undecided premises of those rules (e.g. 'merge idiom
    established') are carried along, so that a kernel whose shape is not recognised cannot pass silently"""
    out = []
    for o in obs:
        if o.rule in wanted or (o.status == 'inconclusive' and o.rule in premise_rules):
            out.append(Ob(new_rule, o.title, o.status, o.where, o.detail, o.key, o.construct, o.extra))
    return out


def _nonempty_aux(ctx, rule='R01.6') -> List[Ob]:
    """get_spikes_non_empty: an empty train is represented by exactly its two edges"""
    import ast as _ast
    from .report import ok, violation
    fi = ctx.repo.func('pyspike.SpikeTrain', 'SpikeTrain.get_spikes_non_empty')
    src = _ast.unparse(fi.node)
    t = "SpikeTrain.get_spikes_non_empty: a train without spikes is represented by [t_start, t_end] (one interval spanning the recording); otherwise the spikes themselves"
    from . import canon as C
    from .rules_classes import MethodPaths
    from .compare import Inconclusive
    from .report import inconclusive
    good = False
    detail = src[:300]
    try:
        mp = MethodPaths(fi).run()
        ln = C.atom(('call', 'len', (C.atom(('attr', ('n', 'self'), 'spikes')),)))
        empty = {C.mk_cmp('lt', ln, C.ONE), C.mk_cmp('eq', ln, C.ZERO), C.mk_cmp('le', ln, C.ZERO)}
        nonempty = {C.mk_cmp('gt', ln, C.ZERO), C.mk_cmp('ge', ln, C.ONE), C.mk_cmp('ne', ln, C.ZERO)}
        empty |= {C.mk_not(c) for c in nonempty}
        nonempty |= {C.mk_not(c) for c in empty}
        spikes = C.atom(('attr', ('n', 'self'), 'spikes'))
        edges = C.atom(('list', (C.atom(('attr', ('n', 'self'), 't_start')), C.atom(('attr', ('n', 'self'), 't_end')))))
        seen = {'empty': 0, 'nonempty': 0}
        good = len(mp.results) == 2
        for v, conds, env, stores, node in mp.results:
            cs = set(conds)
            if cs & empty and not cs & nonempty:
                # the returned value is built from exactly the two edges (np.array / np.unique wrappers allowed)
                atoms = C.atoms_of(v) if v is not None else set()
                has_edges = ('attr', ('n', 'self'), 't_start') in atoms and ('attr', ('n', 'self'), 't_end') in atoms
                good = good and has_edges
                seen['empty'] += 1
            elif cs & nonempty and not cs & empty:
                good = good and v == spikes
                seen['nonempty'] += 1
            else:
                good = False
        good = good and seen == {'empty': 1, 'nonempty': 1}
        detail = f"paths: {[(C.show(v) if v is not None else None, [C.show(c) for c in conds]) for v, conds, *_ in mp.results]}"[:400]
    except (Inconclusive, C.CanonError) as e:
        return [inconclusive(rule, t, fi.loc(), str(e), construct='SpikeTrain.get_spikes_non_empty')]
    return [ok(rule, t, fi.loc(), construct='SpikeTrain.get_spikes_non_empty') if good else
            violation(rule, t, fi.loc(), key='pyspike/SpikeTrain.py::get_spikes_non_empty::aux-edges', detail=detail)]


def _epilogue_trim(ctx, kernels, rule) -> List[Ob]:
    """after the scan: either the last breakpoint already is t_end (drop the duplicate) or t_end is appended"""
    from .rules_kernelspec import _parts, _paths, _returned_names
    from .report import ok, violation, inconclusive
    from . import canon as C
    e = eng(ctx)
    out = []
    for k in kernels:
        pre, loop, post = _parts(k)
        ret = _returned_names(k)
        params = [a.arg for a in k.node.args.args]
        te = C.atom(('n', params[3]))
        try:
            paths = _paths(e, k, [it for it in post if it[0] != 'return'], returns=True)
        except Exception as ex:
            out.append(inconclusive(rule, f"{k.name}: epilogue paths", k.loc(), str(ex)))
            continue
        ret_top = next((it for it in post if it[0] == 'return'), None)

        def returned_upper(env):
            # upper bound of the returned prefix of the time axis, when the return expression spells the trimming itself
            ri = env.returned or ret_top
            if ri is None or ri[1] is None:
                return None
            try:
                rv = C.canon_expr(ri[1], env)
            except C.CanonError:
                return None
            sa = C.single_atom(rv) if C.is_poly(rv) else rv
            comps = list(sa[1]) if sa is not None and sa[0] == 'tuple' else [rv]
            for comp in comps:
                ca = C.single_atom(comp) if C.is_poly(comp) else comp
                if ca is not None and ca[0] == 'sub' and isinstance(ca[2], tuple) and ca[2] and ca[2][0] == 'slice' \
                        and ca[1] == ('n', ret[0]):
                    return ca[2][2]
            return None
        t = (f"{k.name} ({k.path}): after the scan the time axis ends with exactly one t_end: if the last emitted breakpoint equals t_end the "
             f"running index steps back, otherwise t_end is stored at the running index")
        good = len(paths) == 2
        detail = f"{len(paths)} epilogue paths"
        if good:
            for env, stores, conds in paths:
                tst = [r for key, r in stores if key == ret[0]]
                idx = None
                eqc = [c for c in conds if c[0] == 'cmp' and c[1] in ('eq', 'ne')]
                if not eqc:
                    good = False
                    continue
                is_eq = eqc[0][1] == 'eq'
                cnt = [n for n in C.names_of(eqc[0][2]) if n not in (params[3], ret[0])]
                if len(cnt) != 1:
                    good = False
                    continue
                c = cnt[0]
                want_cond = C.mk_cmp('eq', C.atom(('sub', ('n', ret[0]), C.sub(C.atom(('n', c)), C.ONE))), te)
                hi = returned_upper(env)
                if is_eq:
                    # (the step back may be spelled in the returned slices instead: `return st[:index], ...`)
                    good &= eqc[0] == want_cond and not tst and \
                        (C.to_poly(env.get(c)) == C.sub(C.atom(('n', c)), C.ONE)
                         or (hi is not None and C.to_poly(env.get(c)) == C.atom(('n', c)) and hi == C.atom(('n', c))))
                else:
                    good &= C.mk_not(eqc[0]) == want_cond and len(tst) == 1 and tst[0][1] == C.atom(('n', c)) and tst[0][2] == te and \
                        C.to_poly(env.get(c)) == C.atom(('n', c))
                detail = f"cond {C.show(eqc[0])}"
        out.append(ok(rule, t, k.loc(), construct=f"{k.path}::{k.name}::trim") if good else
                   violation(rule, t, k.loc(), key=f"{k.path}::{k.name}::end-trim", detail=detail))
    return out


def _spike_rules(ctx) -> List[Ob]:
    e = _ensure_helpers(ctx)
    f = spike_family(ctx)
    if f is None:
        from .report import inconclusive
        return [inconclusive('R02.1', 'SPIKE family found', 'pyspike/spike_distance.py')]
    out = merge_idiom_obs(ctx, [f], 'R02.1')
    for k in (f.py, f.pyx, f.single):
        if k is None:
            continue
        out += spike_spec(e, k, k is not f.single)
        mi = ctx.repo.module(k.module)
        for hn in ('dist_at_t',):
            if hn in mi.functions:
                out += dist_at_t_spec(e, mi.functions[hn])
        for hn in ('get_min_dist', 'get_min_dist_cython'):
            if hn in mi.functions:
                out += get_min_dist_spec(e, mi.functions[hn])
    for k in (f.py, f.pyx):
        out += [Ob('R02.7', o.title, o.status, o.where, o.detail, o.key, o.construct, o.extra) for o in written_extent(e, k, 'R02.7', 1)]
    out += _epilogue_trim(ctx, [f.py, f.pyx], 'R02.7')
    # de-duplicate helper obligations (same helper reached through several kernels)
    seen, ded = set(), []
    for o in out:
        k_ = (o.rule, o.title, o.where, o.status)
        if k_ in seen:
            continue
        seen.add(k_)
        ded.append(o)
    return ded


def _discrete_rules(ctx, which=('sync', 'order', 'dir')) -> List[Ob]:
    e = _ensure_helpers(ctx)
    d = discrete_families(ctx)
    out: List[Ob] = []
    for kind in which:
        f = d.get(kind)
        if f is None:
            from .report import inconclusive
            out.append(inconclusive('R03.3', f"discrete family `{kind}` found", 'pyspike/cython'))
            continue
        for k in (f.py, f.pyx):
            out += discrete_spec(e, k, kind)
        if f.single is not None:
            out += discrete_spec(e, f.single, kind + '1')
    return out


def _unreachable_info(ctx, rule='R18.6') -> List[Ob]:
    from .report import info
    e = eng(ctx)
    used = {(s.compiled_module, s.compiled_symbol) for s in e.sites}
    out = []
    for f in ctx.repo.all_functions(pyx=True):
        mi = ctx.repo.module(f.module)
        if mi.pyx and f.name in mi.pyx.cdef_funcs:
            continue
        if (f.module, f.name) not in used:
            out.append(info(rule, f"compiled routine `{f.name}` is imported by no dispatch site: not analysed as reachable code", f.loc()))
    return out


def _guarded_subscripts_all(ctx, rule='R18.2') -> List[Ob]:
    e = eng(ctx)
    used = {(s.compiled_module, s.compiled_symbol) for s in e.sites}
    out = []
    for f in ctx.repo.all_functions():
        if f.module == 'pyspike.isi_lengths':
            out += guarded_subscripts(f, rule, arrays={'spike_times'})
        elif f.module.startswith('pyspike.cython'):
            mi = ctx.repo.module(f.module)
            if f.is_pyx and not (mi.pyx and f.name in mi.pyx.cdef_funcs) and (f.module, f.name) not in used:
                continue        # unreachable compiled routine: reported as info (R18.6)
            out += guarded_subscripts(f, rule)
    return out


def _extents_all(ctx, rule='R18.3') -> List[Ob]:
    e = _ensure_helpers(ctx)
    out = []
    for f in e.families:
        delta = 1
        if f.wrapper.cls == 'DiscreteFunc':
            delta = 0
        for k in (f.py, f.pyx):
            out += written_extent(e, k, rule, delta)
    return out


# ---------------------------------------------------------------------------------------------
# the table
# ---------------------------------------------------------------------------------------------
def P(pid, level, rules, explanation, assumptions=(), min_instances=None):
    PROPS[pid] = dict(level=level, rules=rules, explanation=explanation,
                      assumptions=COMMON_ASSUMPTIONS + list(assumptions), min_instances=min_instances or {})


NOT_DECIDED = " NOT decided (stated, not hidden): "

P('C01', 'other',
  [_isi_rules,
   lambda c: _exits(c, [isi_family(c)], 'R01.9'),
   lambda c: _sib(c, [isi_family(c)], 'R12.2'),
   lambda c: _proj(c, [isi_family(c)], 'R05.2'),
   lambda c: _sigma(c, [isi_family(c)], 'R07.1'),
   lambda c: _units_of(c, [isi_family(c)], 'R08.1')],
  "Structural clauses of the ISI-profile definition, decided on all three copies of the ISI kernel (Python profile kernel, compiled "
  "profile kernel, compiled single-pass kernel) per path of prologue / loop body / epilogue: R01.1 the cursor-merge idiom (lemma L1: "
  "loop bound, strict three-way comparison, short-circuit order, exclusive guards, single increments); R01.2 exactly one breakpoint per "
  "iteration = the spike just consumed; R01.3 value |v1-v2|/max(v1,v2,MRTS) over the updated intervals; R01.4 the four edge rules and the "
  "interior rule against the documented table; R01.5 end trimming, written extent, len(x)=len(y)+1; R01.6 empty trains become the two "
  "edges; plus sibling equality, projection of the single-pass kernel, train-swap symmetry and units typing of these kernels."
  + NOT_DECIDED + "that the clauses compose to the definition on every interleaving (loop invariant over runtime index values).",
  ["lemmas L1, L2 of DESIGN.md section 5"],
  {'R01.1': 50, 'R01.3': 20, 'R01.4': 60, 'R01.2': 12, 'R12.2': 1, 'R05.2': 15, 'R07.1': 6})

P('C02', 'other',
  [_spike_rules,
   lambda c: _exits(c, [spike_family(c)], 'R02.9'),
   lambda c: _sib(c, [spike_family(c)], 'R12.2'),
   lambda c: _proj(c, [spike_family(c)], 'R05.2'),
   lambda c: _sigma(c, [spike_family(c)], 'R07.1'),
   lambda c: _units_of(c, [spike_family(c)], 'R08.1')],
  "Structural clauses of the SPIKE-profile definition on the three copies of the SPIKE kernel and their helpers: R02.1 merge idiom; R02.2 "
  "dist_at_t equals the documented plain / RI / adaptive formula (3 copies); R02.3 a shared spike time stores 0 on both sides; R02.5 auxiliary "
  "spikes mirrored outside the edges; R02.6 shape of the nearest-spike helper and the role of every one of its call sites (other train, "
  "other cursor, other auxiliary pair); R02.7 extent / end trimming; plus sibling equality (kernels and helpers), single-pass projection "
  "(trapezoid template), train-swap symmetry (kernels, dist_at_t) and units typing - which together pin the linear interpolation terms of one "
  "train to those of the other and of the other backend." + NOT_DECIDED +
  "that restarting the nearest-spike search at the other train's cursor never misses the global minimum; the value between breakpoints.",
  ["lemmas L1, L4"],
  {'R02.1': 40, 'R02.2': 6, 'R02.3': 8, 'R02.5': 6, 'R02.6': 30, 'R12.2': 3, 'R07.1': 6, 'R05.2': 40})

P('C03', 'other',
  [lambda c: merge_idiom_obs(c, [discrete_families(c).get('sync')], 'R03.1'),
   lambda c: _exits(c, [discrete_families(c).get('sync'), discrete_families(c).get('single')], 'R03.9'),
   lambda c: _discrete_rules(c, ('sync',)),
   lambda c: r03_2_strict_tests(c, 'R03.2'),
   lambda c: r03_4_interpolate(c, 'R03.4'),
   lambda c: r03_5_limit_derivation(c, 'R03.5'),
   lambda c: r16_1_bounded_window(c, 'R16.1'),
   lambda c: _sib(c, [discrete_families(c).get('sync'), discrete_families(c).get('single')], 'R12.2'),
   lambda c: _proj(c, [discrete_families(c).get('sync')], 'R05.2'),
   lambda c: _sigma(c, [discrete_families(c).get('sync')], 'R07.1', ('sym',)),
   lambda c: _units_of(c, [discrete_families(c).get('sync'), discrete_families(c).get('single')], 'R08.1')],
  "R03.1 merge idiom of the three coincidence kernels; R03.2 every coincidence test in the tree (all get_tau call sites) is the strict "
  "`delta < tau` on exactly the two spikes handed to get_tau, conjoined with the cursor guard; R03.3 constants: tie = (2,2), coincidence marks "
  "current and previous event, edge entries copy neighbours, empty-empty = (1,1); R03.4 Interpolate decided exactly on the 13 weak orderings of "
  "its arguments (spec, monotone in MRTS, MRTS=0 gives min), both copies; R03.5 uniform limit derivation; R16.1 window bounded by limit/2; "
  "sibling equality incl. the per-spike filter scan and get_tau; single-pass projection; train-swap symmetry with lemma L5; units."
  + NOT_DECIDED + "mutual one-to-one coincidence, equal counts per train, agreement of the per-spike scan with the merged scan as values.",
  ["lemmas L1, L4, L5"],
  {'R03.1': 50, 'R03.2': 30, 'R03.3': 15, 'R03.4': 7, 'R03.5': 25, 'R16.1': 2})

P('C04', 'other',
  [lambda c: _discrete_rules(c, ('order', 'dir')),
   lambda c: _exits(c, [discrete_families(c).get('order'), discrete_families(c).get('dir')], 'R04.9'),
   lambda c: _sigma(c, [discrete_families(c).get('order'), discrete_families(c).get('dir')], 'R04.1', ('anti', 'swap')),
   lambda c: [o for o in r14_2_index_kinds(c, 'R04.4', 'R04.6', 'R04.4') if o.rule in ('R04.4', 'R04.6') and 'auto-threshold' not in o.key
              and 'spike_directionality.py' in o.where],
   lambda c: r06_4_matrix_fills(c, 'R04.3'),
   lambda c: _sib(c, [discrete_families(c).get('order'), discrete_families(c).get('dir')], 'R12.2'),
   lambda c: _proj(c, [discrete_families(c).get('order'), discrete_families(c).get('dir')], 'R05.2'),
   lambda c: only_rules(lambda cc: r03_2_strict_tests(cc, 'R04.5'), {'R04.5'})(c),
   lambda c: [o for o in r03_5_limit_derivation(c, 'R04.5') if 'order' in o.title or 'directionality' in o.title],
   lambda c: _units_of(c, [discrete_families(c).get('order'), discrete_families(c).get('dir')], 'R08.1')],
  "R04.1 train-swap antisymmetry as a proof by program symmetry: sigma(P) == -P for the order kernels, sigma(P) == P with the two per-spike "
  "arrays exchanged for the directionality profile kernels (hence swapping the trains negates order profile and un-normalised directionality, "
  "all inputs); R04.2 leader = +1 sign table in every branch of every copy; R04.3 matrix fill D[a,b] = d, D[b,a] = -d on zeros, entry = pair "
  "function on (train a, train b); R04.4 index kinds of the per-spike accumulation and the matrix (position vs train id) and normalisation by "
  "the selected count; R04.5 same strict coincidence test as SPIKE-Sync; sibling equality and projections."
  + NOT_DECIDED + "the synfire-indicator identity and per-spike averages for N > 3 as numbers.",
  ["lemmas L1, L5"],
  {'R04.1': 8, 'R04.2': 25, 'R04.3': 6, 'R04.4': 8})

P('C05', 'other',
  [lambda c: r05_1_route_identity(c, 'R05.1'),
   lambda c: _proj(c, eng(c).families, 'R05.2'),
   lambda c: _exits(c, eng(c).families, 'R05.9'),
   lambda c: r18_1_guarded_divisions(c, 'R05.3', 'R05.4'),
   lambda c: [o for o in only_rules(lambda cc: r14_2_index_kinds(cc, 'R14.2', 'R05.5', 'R14.3'), {'R05.5'})(c)
              if 'selection-reordered' not in (o.key or '')],     # the layout of a matrix is not a matter of C05
   lambda c: RM.r06_aggregation(c, 'R05.5', 'R05.5'),
   lambda c: RC.avrg_spec(c, 'DiscreteFunc', 'R05.6') + RC.avrg_spec(c, 'PieceWiseConstFunc', 'R05.6') + RC.avrg_spec(c, 'PieceWiseLinFunc', 'R05.6'),
   lambda c: [Ob('R05.6', o.title, o.status, o.where, o.detail, o.key, o.construct, o.extra)
              for cls in ('DiscreteFunc', 'PieceWiseConstFunc', 'PieceWiseLinFunc') for o in RC.integral_spec(c, cls, 'R05.6')],
   lambda c: [Ob('R05.7', o.title, o.status, o.where, o.detail, o.key, o.construct, o.extra)
              for o in r_kernel_call_typestates(c, ('R15.1', '', '')) if o.rule == 'R15.1']],
  "R05.1 route identity: on the fallback and interval paths the scalar is literally `profile_function(same trains, same settings)."
  "avrg/integral(interval)` of the same measure, and the compiled single-pass call receives the same argument roles as the profile "
  "kernel; R05.2 each compiled single-pass kernel is a projection of the compiled profile kernel (state projection + integration "
  "template per path); R05.3 every division by a pooled multiplicity / spike count is dominated by a zero test on the same variable; R05.4 "
  "the zero alternative is the conventional literal (SPIKE-Sync of nothing = 1); R05.5 pair enumeration, divide-and-conquer slices, 1/M scaling, "
  "pooled sums; R05.6 avrg of the three classes = integral / length (ratio with the empty convention for discrete profiles); R05.7 scalar and profile "
  "routes resolve MRTS='auto' from the same trains (resolved before any per-pair call, never left to each pair)."
  + NOT_DECIDED + "exactness of integral() as numbers and pointwise exactness of add() - the multivariate equality composes those.",
  [],
  {'R05.1': 10, 'R05.2': 100, 'R05.3': 25, 'R05.5': 30})

P('C06', 'other',
  [lambda c: only_rules(lambda cc: r14_2_index_kinds(cc, 'R14.2', 'R06.1', 'R14.3'), {'R06.1'})(c),
   lambda c: RM.r06_aggregation(c, 'R06.2', 'R06.3'),
   lambda c: _exits(c, eng(c).families, 'R06.9'),
   lambda c: r06_4_matrix_fills(c, 'R06.4'),
   lambda c: _sigma(c, [isi_family(c), spike_family(c), discrete_families(c).get('sync')], 'R06.5', ('sym',)),
   lambda c: r18_1_guarded_divisions(c, 'R06.6', 'R06.6', modules={'pyspike.spike_sync', 'pyspike.generic', 'pyspike.spike_directionality'}),
   lambda c: add_kernel_symmetry(c, eng(c), 'R06.7', {'PieceWiseConstFunc', 'PieceWiseLinFunc', 'DiscreteFunc'}),
   lambda c: RC.add_method_spec(c, 'R06.8')],
  "R06.1 all 7 pair comprehensions enumerate every unordered pair once (outer range complete, inner start exactly i+1, one kind per pair); "
  "R06.2 divide-and-conquer splits into complementary slices, leaves evaluate pairs[0], halves combined by add; R06.3 1/M with M = number of "
  "pairs for ISI/SPIKE, no rescaling for discrete profiles, mean / pooled ratio on the scalar routes; R06.4 matrices: zeros init, mirrored "
  "entry, pair order, full SPIKE-Sync diagonal; R06.5 kernel symmetry makes each pair value independent of the order inside the pair; R06.6 the "
  "pooled ratio tests the variable it divides by (order independence of the guard); R06.7 (=R09.8/R11.6) the three profile-addition kernels are "
  "invariant under exchanging their operands (sigma(P) == P), so the summed multivariate profile does not depend on the order in which the pair "
  "profiles are added; R06.8 (=R09.9/R11.7) on every path of the three add() methods the object's arrays are replaced by the components "
  "of one add-kernel call on (own arrays, operand's arrays) and nothing else is stored: no shortcut bypasses the merge."
  + NOT_DECIDED + "independence of floating-point summation order; equality of the D&C sum to the mean at every time (needs C09 as values).",
  [],
  {'R06.1': 18, 'R06.2': 3, 'R06.3': 7, 'R06.4': 8, 'R06.5': 12, 'R06.7': 6})

P('C07', 'other',
  [lambda c: merge_idiom_obs(c, [f for f in eng(c).families if not f.wrapper.cls], 'R07.0'),
   lambda c: _exits(c, [f for f in eng(c).families if not f.wrapper.cls], 'R07.9'),
   lambda c: _sigma(c, eng(c).families, 'R07.1', ('sym',)),
   lambda c: only_rules(lambda cc: _discrete_rules(cc, ('sync', 'order')), {'R07.3'})(c),
   lambda c: only_rules(_isi_rules, {'R01.3'})(c),
   lambda c: _carry(_spike_rules(c), {'R02.4', 'R02.8'}, 'R07.7', ('R02.3', 'R02.4')),
   lambda c: only_rules(lambda cc: r18_1_guarded_divisions(cc, 'R07.5', 'R07.5'), {'R07.5'})(c),
   lambda c: only_rules(lambda cc: r_kernel_call_typestates(cc, ('', '', 'R07.2')), {'R07.2'})(c),
   lambda c: [Ob('R07.6', o.title, o.status, o.where, o.detail, o.key, o.construct, o.extra)
              for o in r_kernel_call_typestates(c, ('R15.1', '', '')) if o.rule == 'R15.1']],
  "R07.0 premises of the symmetry proofs: every measure kernel is the strict, exclusive three-way cursor merge (a non-strict comparison would send "
  "a shared spike time down the train-1 branch only); R07.1 train-swap symmetry of all ISI, SPIKE and SPIKE-Sync kernels (9 copies + helpers) as a proof by program symmetry: sigma(P) == P, so "
  "f(a,b) and f(b,a) are the same computation, bit for bit, for all inputs; R07.2 wrappers pass both trains' arrays in parameter order with the "
  "edges of a reconciled train; R07.3 every stored discrete entry lies between 0 (resp. -mp) and its multiplicity; R07.4 (=R01.3) the ISI value has "
  "the |a-b|/max(a,b,.) shape with the same a, b; R07.5 empty-input conventions are literals behind zero tests; R07.6 the 'auto' threshold a "
  "wrapper hands to a kernel is computed from all of its train parameters (both trains of a pair), so it cannot depend on the argument order; R07.7 "
  "(=R02.4, R02.8) premises of the range argument for SPIKE: the intervals that weight the two trains are the edge-corrected inter-spike intervals, "
  "and every distance to the nearest spike is defined by the search (or is 0 at a shared time) - a shortened interval or a distance to one "
  "particular spike lets profile values leave [0,1]; R07.9 no kernel is left in front of its merge loop by an exit that the loop rules do not cover."
  + NOT_DECIDED + "SPIKE in [0,1], finiteness, d(x,x) = 0 and ranges after normalisation (value reasoning).",
  ["lemmas L1, L4, L5"],
  {'R07.1': 15, 'R07.3': 15, 'R01.3': 20})

P('C08', 'other',
  [lambda c: c.get('units', lambda cc: r08_1_units(cc, 'R08.1')),
   lambda c: only_rules(lambda cc: RM.r15_4_threshold_definition(cc, 'R15.4', 'R08.2'), {'R08.2'})(c),
   lambda c: _mirror_kernels(c),
   lambda c: _exits(c, [f for f in eng(c).families if not f.wrapper.cls], 'R08.9'),
   lambda c: _carry(_spike_rules(c), {'R02.4'}, 'R08.4', ('R02.3', 'R02.4')),
   lambda c: _carry(_spike_rules(c), {'R02.8'}, 'R08.5', ('R02.3',)),
   lambda c: r03_5_limit_derivation(c, 'R08.3')],
  "R08.1 proof by typing: every backend routine (both copies, helpers typed from their call sites), the methods of the three function classes and "
  "isi_lengths.py type-check in the affine units system (Time = weight 1, Duration, Scalar); by lemma L6 a well-typed routine is invariant under "
  "t -> lambda t + c with durations scaled by lambda: scalar outputs unchanged, time outputs transformed, every branch decision unchanged - the whole "
  "first sentence of C08 over the reals; R08.2 the start-edge and end-edge rules of the ISI kernels, of the SPIKE auxiliary spikes and of isi_lengths are "
  "images of each other under the reflection rho (computed on canonical terms); R08.4 (=R02.4) the SPIKE kernels use, at the start edge and when a train steps onto its last spike, the two interval rules that are each other's reflection (max(edge gap, neighbouring ISI) if N>1 else the edge gap); R08.5 (=R02.8) at the start edge as at the end edge every distance to the nearest spike of the other train is defined by the nearest-spike search (a shortcut at one edge only breaks the mirror image); R08.3 the coincidence limit uses only t_end - t_start and 2 max_tau."
  + NOT_DECIDED + "reversal covariance of the scan as a whole, sign flip of the order profile under reversal, floating-point effects.",
  ["lemma L6 (typing implies invariance); input construction (SpikeTrain.__init__, generate_poisson_spikes) is outside the typed scope"],
  {'R08.1': 100, 'R08.2': 8, 'R08.3': 25})

P('C09', 'other',
  [lambda c: r13_1_no_param_written(c, 'R09.1', modules={'pyspike.PieceWiseConstFunc', 'pyspike.PieceWiseLinFunc', 'pyspike.DiscreteFunc',
                                                           'pyspike.cython.python_backend', 'pyspike.cython.cython_add'}),
   lambda c: r09_2_ownership(c, 'R09.2', {'PieceWiseConstFunc', 'PieceWiseLinFunc', 'DiscreteFunc'}),
   lambda c: kernel_results_fresh(c, 'R09.2', [k for f in eng(c).families if f.wrapper.cls for k in (f.py, f.pyx)]),
   lambda c: merge_idiom_obs(c, [f for f in eng(c).families if f.wrapper.cls], 'R09.3'),
   lambda c: _exits(c, [f for f in eng(c).families if f.wrapper.cls in ('PieceWiseConstFunc', 'PieceWiseLinFunc')], 'R09.10'),
   lambda c: [o for f in eng(c).families if f.wrapper.cls in ('PieceWiseConstFunc', 'PieceWiseLinFunc') for k in (f.py, f.pyx)
              for o in written_extent(_ensure_helpers(c), k, 'R09.4', 1)],
   lambda c: [o for o in RC.add_value_rules(c, _ensure_helpers(c), 'R09.5') if o.rule == 'R09.5'],
   lambda c: RC.mul_scalar_spec(c, 'R09.6'),
   lambda c: add_kernel_symmetry(c, eng(c), 'R09.8', {'PieceWiseConstFunc', 'PieceWiseLinFunc'}),
   lambda c: RC.add_method_spec(c, 'R09.9', {'PieceWiseConstFunc', 'PieceWiseLinFunc'}),
   lambda c: _sib(c, [f for f in eng(c).families if f.wrapper.cls in ('PieceWiseConstFunc', 'PieceWiseLinFunc')], 'R12.2'),
   lambda c: _average_profile(c)],
  "R09.1 no add kernel and no class method stores through an alias of an argument (interprocedural effect analysis, both backends): the added "
  "operand is never modified, for all inputs and histories; R09.2 every array stored into an object is freshly allocated (copying constructor, "
  "kernel results are views of arrays allocated in the kernel), copy() shares nothing: in-place scaling can never reach another object; R09.3 "
  "add-merge idiom (strict comparisons, tie advances both: strictly increasing union of breakpoints); R09.4 written extent, slice-length agreement "
  "of the tail copies, len(x)=len(y)+1; R09.5 value rules at a new breakpoint (sum of piece values; own value + linear interpolation of the other "
  "operand); R09.6 mul_scalar / copy / constructor shapes; R09.8 operand-swap symmetry of the add kernels as a proof by program symmetry (sigma(P) == P "
  "under x1,y1.. <-> x2,y2.., using the wrapper's asserted common end points and the loop-exit fact): f.add(g) and g.add(f) compute the same arrays, "
  "and the two tail-copy branches are mirror images; R09.9 every path of add() goes through the add kernel (own arrays, operand's arrays, components "
  "stored in order, nothing else stored); sibling equality of the add kernels; average_profile route."
  + NOT_DECIDED + "pointwise equality and integral additivity as numbers; independence of the addition order up to rounding.",
  ["lemma L3"],
  {'R09.1': 30, 'R09.2': 15, 'R09.3': 40, 'R09.4': 20, 'R09.5': 15})

P('C10', 'other',
  [lambda c: RC.integral_spec(c, 'PieceWiseConstFunc', 'R10.1') + RC.integral_spec(c, 'PieceWiseLinFunc', 'R10.1'),
   lambda c: RC.avrg_spec(c, 'PieceWiseConstFunc', 'R10.2') + RC.avrg_spec(c, 'PieceWiseLinFunc', 'R10.2') + RC.class_siblings(c, 'R10.2'),
   lambda c: RC.call_spec(c, 'PieceWiseConstFunc', 'R10.3') + RC.call_spec(c, 'PieceWiseLinFunc', 'R10.3'),
   lambda c: RC.plottable_spec(c, 'PieceWiseConstFunc', 'R10.4') + RC.plottable_spec(c, 'PieceWiseLinFunc', 'R10.4'),
   lambda c: _units_classes(c, 'R10.5')],
  "Per-path semantic tables (canonical forms, index searches kept as opaque np.searchsorted atoms): R10.1 integral: which search (side) bounds which "
  "end, the `start > end` same-piece test, and the algebra of the three cases for constant and linear pieces (whole-piece sum + two partial pieces, "
  "trapezoids over interpolated end values); R10.2 avrg = integral / length for none, one and several intervals, identical in both classes; R10.3 "
  "__call__: edge limits, midpoint rule at interior breakpoints, piece value / interpolation, identically on the scalar and the sequence path; R10.4 "
  "plottable arrays (length algebra and interleaving); R10.5 units: integrals are value x duration, averages and evaluations are values."
  + NOT_DECIDED + "what np.searchsorted returns for each position of a, b (the rules pin the sides and the algebra around them, not its result); exactness as numbers.",
  [],
  {'R10.1': 6, 'R10.2': 7, 'R10.3': 14, 'R10.4': 5, 'R10.5': 10})

P('C11', 'other',
  [lambda c: merge_idiom_obs(c, [f for f in eng(c).families if f.wrapper.cls == 'DiscreteFunc'], 'R11.0'),
   lambda c: _exits(c, [f for f in eng(c).families if f.wrapper.cls == 'DiscreteFunc'], 'R11.9'),
   lambda c: [o for o in RC.add_value_rules(c, _ensure_helpers(c), 'R09.5') if o.rule == 'R11.1'],
   lambda c: [o for f in eng(c).families if f.wrapper.cls == 'DiscreteFunc' for k in (f.py, f.pyx)
              for o in written_extent(_ensure_helpers(c), k, 'R11.1x', 0)],
   lambda c: RC.integral_spec(c, 'DiscreteFunc', 'R11.2'),
   lambda c: RC.avrg_spec(c, 'DiscreteFunc', 'R11.3'),
   lambda c: RC.plottable_discrete_spec(c, 'R11.5'),
   lambda c: add_kernel_symmetry(c, eng(c), 'R11.6', {'DiscreteFunc'}),
   lambda c: RC.add_method_spec(c, 'R11.7', {'DiscreteFunc'}),
   lambda c: r13_1_no_param_written(c, 'R11.4', modules={'pyspike.DiscreteFunc'}) + r09_2_ownership(c, 'R11.4', {'DiscreteFunc'}),
   lambda c: _sib(c, [f for f in eng(c).families if f.wrapper.cls == 'DiscreteFunc'], 'R12.2')],
  "R11.0 add-merge idiom of the discrete add kernel (strict, tie advances both: one entry per distinct event time); R11.1 entry rules: tie sums "
  "value and multiplicity, otherwise the advancing operand's (x, y, mp) triple is copied with one index, start-edge entry copies its neighbour, "
  "extent and equal lengths of the three returned arrays; R11.2 integral: open-interval index selection (right/left), the same slice for values "
  "and multiplicities, edges excluded without interval, several intervals add up; R11.3 avrg = ratio, 1 when nothing is inside; R11.4 operand purity "
  "and ownership; R11.5 the multiplicity-aware smoothing of get_plottable_data against its documented table (window test, wanted multiplicity, own-"
  "contribution shortcut, whole/fractional neighbours on both sides, normalisation by the accumulated multiplicity); R11.6 operand-swap symmetry "
  "of the add kernel; R11.7 every path of DiscreteFunc.add goes through the add kernel; sibling equality of the discrete add kernel."
  + NOT_DECIDED + "that the smoothing clauses compose to the documented mean for every distribution of multiplicities (value reasoning).",
  ["lemma L3"],
  {'R11.0': 20, 'R11.1': 15, 'R11.2': 4, 'R11.3': 3})

P('C12', 'translation_validation',
  [lambda c: r12_1_pairing(eng(c)), lambda c: r12_2_routines(eng(c)), lambda c: r12_3_projections(eng(c)),
   lambda c: _carry(_discrete_rules(c, ('sync', 'order')), {'R03.6'}, 'R12.6', ('R03.3',)),
   lambda c: only_rules(lambda cc: r_kernel_call_typestates(cc, ('', '', '')), {'R12.4'})(c),
   lambda c: only_rules(lambda cc: r05_1_route_identity(cc, 'R12.4'), {'R12.4'})(c),
   lambda c: only_rules(lambda cc: r03_4_interpolate(cc, 'R12.5'), {'R12.5'})(c)],
  "Translation validation between the two sources of every backend routine, from the parsed .pyx and .py files (Cython is not installed here, so "
  "nothing can be executed on the compiled side). R12.1: the dispatch sites found by role pair existing symbols and setup.py builds every "
  "imported/cimported extension; R12.2: each compiled routine and its fallback (10 kernel pairs + helper pairs) are equal after normalisation - "
  "symbolic value numbering of straight-line regions, canonical polynomial forms, lifted element-wise stores, cursor facts from the verified merge "
  "idiom (L1), last-ISI reuse (L2, premises checked), length relations of the function classes (L3); R12.3: each compiled single-pass kernel is the "
  "compiled profile kernel with its output statements replaced by the integration template (state projection + per-path template); R12.4 the "
  "single-pass call sites receive the same argument roles; R12.5 the two Interpolate spellings agree on all 13 weak orderings."
  + NOT_DECIDED + "C-level semantics of the generated code, floating-point rounding.",
  ["L3: value arrays of function objects are one shorter than (PWC/PWL) or as long as (Discrete) the breakpoint array",
   "discrete single-pass kernels: an overwritten previous entry was 0 (coincidence is one-to-one; not decided statically)"],
  {'R12.1': 20, 'R12.2': 14, 'R12.3': 100})

P('C13', 'other',
  [lambda c: r13_1_no_param_written(c, 'R13.1'),
   lambda c: r13_2_reconcile_dominates(c, 'R13.2'),
   lambda c: RM.r13_3_reconcile_shape(c, 'R13.3'),
   lambda c: r_fresh_results(c, 'R13.3', [('pyspike.spikes', 'reconcile_spike_trains'), ('pyspike.spikes', 'reconcile_spike_trains_bi')]),
   lambda c: r09_2_ownership(c, 'R13.4', {'SpikeTrain'}),
   lambda c: RM.r_spiketrain_ctor(c, 'R13.6')],
  "R13.1 (fully decided, modulo the closed tables of copying / in-place operations): no function of the package - wrappers, classes, both "
  "backends - stores through an alias of a parameter, calls an in-place method on one, or passes one to a callee that does: no input is ever "
  "modified, for all inputs, call forms and backends; R13.2 on every route from a public entry point, trains are reconciled (by the function "
  "itself or by the callee that uses them) before they reach a kernel call or the 'auto' threshold, the rebound names are what flows on, and "
  "Reconcile=False is forwarded only after reconciling; R13.3 reconcile applies sort+dedup, global min/max edges, two-sided clipping and returns new "
  "objects; R13.4 the SpikeTrain constructor copies." + NOT_DECIDED + "set-equality of reconciled and input spike times, the 1e-6 tolerance, idempotence as values.",
  [],
  {'R13.1': 100, 'R13.2': 40, 'R13.3': 6})

P('C14', 'other',
  [lambda c: r14_1_dispatchers(c, 'R14.1'),
   lambda c: r14_2_index_kinds(c, 'R14.2', 'R06.1', 'R14.3'),
   lambda c: r14_4_positional_binding(c, 'R14.4'),
   lambda c: r14_5_keyword_flow(c, 'R14.5'),
   lambda c: r06_4_matrix_fills(c, 'R14.6')],
  "R14.1 the 8 var-args dispatchers agree: one list / several trains go to the same multivariate function, two trains to the bivariate function of "
  "the same measure (same kernels reached), all keywords forwarded; R14.2 position-vs-train-id typing of every subscript derived from a pair list "
  "(train list by id, per-selection containers by position); R14.3 normalisation by the selected count, 'auto' threshold from the selection; R14.4 every "
  "tracked keyword passed positionally lands on the parameter of the same name (through functools.partial and function-valued parameters), explicit "
  "keywords are fed from the same-named variable; R14.5 no tracked keyword in scope is dropped on the way to a callee that accepts it; R14.6 matrices "
  "are filled at positions of the selection." + NOT_DECIDED + "numerical equality of results between call forms beyond route identity.",
  [],
  {'R14.1': 15, 'R14.2': 25, 'R14.4': 50, 'R14.5': 120})

P('C15', 'other',
  [lambda c: only_rules(lambda cc: r_kernel_call_typestates(cc, ('R15.1', '', '')), {'R15.1'})(c),
   lambda c: RM.r15_2_mrts_sinks(c, eng(c), 'R15.2'),
   lambda c: RM.r15_3_defaults(c, 'R15.3'),
   lambda c: RM.r15_4_threshold_definition(c, 'R15.4', 'R08.2'),
   lambda c: r03_4_interpolate(c, 'R15.5'),
   lambda c: only_rules(lambda cc: r13_2_reconcile_dominates(cc, 'R15.6'), {'R15.6'})(c)],
  "R15.1 typestate: the MRTS argument of every kernel call is the local that went through `isinstance(MRTS, str) -> default_thresh(all train "
  "parameters)`, multivariate wrappers write the resolved value into kwargs after reconciling ('auto' == passing the threshold); R15.2 inside both "
  "backends MRTS is read only in monotone sinks (a floor inside max(...) of a denominator, the Interpolate threshold); R15.3 defaults MRTS = 0, RI = "
  "False in resolve_keywords and in every kernel; R15.4 the threshold is sqrt(sum(x^2)/len(x)) over the ISI lengths of every train, with the "
  "documented edge rules (and their mirror relation) and the recording length for an empty train; R15.5 Interpolate is non-decreasing in its "
  "threshold and equals min(a,b) at threshold 0 (13 weak orderings, both copies); R15.6 default_thresh only sees reconciled trains."
  + NOT_DECIDED + "the composed monotonicity statements and the no-op region below every ISI as values.",
  [],
  {'R15.1': 15, 'R15.2': 18, 'R15.3': 20, 'R15.4': 8, 'R15.5': 7})

P('C16', 'other',
  [lambda c: r16_1_bounded_window(c, 'R16.1'),
   lambda c: _exits(c, list(discrete_families(c).values()), 'R16.9'),
   lambda c: only_rules(lambda cc: r_kernel_call_typestates(cc, ('', 'R16.2', '')), {'R16.2'})(c),
   lambda c: r03_5_limit_derivation(c, 'R16.3'),
   lambda c: r03_2_strict_tests(c, 'R16.4'),
   lambda c: _sib(c, [], 'R12.2') + [o for o in r12_2_routines(eng(c), only={'get_tau'}, rule='R12.2')]],
  "R16.1 upper-bound abstract interpretation of both get_tau copies (inlining Interpolate, refining on comparisons): every returned window is at most "
  "limit/2; R16.3 the limit is min(t_end - t_start, 2 max_tau) exactly when max_tau > 0 at all 11 derivation sites of all coincidence consumers "
  "(SPIKE-Sync, order, directionality, filter) and is what get_tau receives; R16.4 every consumer applies the strict `delta < window` test - together: no "
  "two spikes max_tau or more apart are coincident; R16.2 every kernel call has passed `if max_tau is None: max_tau = 0.0` and the number is only read by "
  "the `> 0` test, so None, 0 and 0.0 take the same path; sibling equality of get_tau."
  + NOT_DECIDED + "'enlarging max_tau never removes a coincidence' as a value statement (min is monotone in the cap by shape).",
  [],
  {'R16.1': 2, 'R16.2': 7, 'R16.3': 25, 'R16.4': 30})

P('C17', 'other',
  [lambda c: RM.r17_filter(c, 'R17.1', 'R17.2'),
   lambda c: _exits(c, [discrete_families(c).get('single')], 'R17.9'),
   lambda c: r13_1_no_param_written(c, 'R17.3', names={'filter_by_spike_sync', 'coincidence_single_python', 'coincidence_single_profile_cython'}),
   lambda c: r_fresh_results(c, 'R17.3', [('pyspike.spike_sync', 'filter_by_spike_sync')]),
   lambda c: [o for o in r13_2_reconcile_dominates(c, 'R17.3') if 'filter_by_spike_sync' in o.title],
   lambda c: [o for o in r_kernel_call_typestates(c, ('R17.3', 'R17.3', 'R17.3'), only_funcs={'filter_by_spike_sync'}) if o.rule == 'R17.3'],
   lambda c: _sib(c, [discrete_families(c).get('single')], 'R12.2'),
   lambda c: [o for o in r03_2_strict_tests(c, 'R17.4') if 'coincidence_single' in o.title],
   lambda c: [o for o in r03_5_limit_derivation(c, 'R17.4') if 'coincidence_single' in o.title]],
  "R17.1 kept and removed masks are syntactic complements (`v > E` / `v <= E`) over canonically equal v and E on the same train, both wrapped in new "
  "trains on the train's own interval; R17.2 the keep test is the strict `>` against threshold*(N-1), N = number of trains, and the count runs over all "
  "N trains skipping exactly the train itself, adding the per-spike indicator of (this train, other train); R17.3 inputs untouched, result fresh, "
  "reconcile first, MRTS resolved, max_tau converted; R17.4 the per-spike scan shares get_tau, the limit derivation and the strict test with the "
  "profile kernels, and equals its compiled sibling." + NOT_DECIDED + "equality of the per-spike indicator with the multivariate profile value.",
  [],
  {'R17.1': 2, 'R17.2': 2, 'R17.3': 8, 'R17.4': 4})

P('C18', 'other',
  [lambda c: r18_1_guarded_divisions(c, 'R18.1', 'R05.4'),
   lambda c: _exits(c, eng(c).families, 'R18.9'),
   lambda c: __import__('pyspike_sa.rules_exits', fromlist=['x']).numpy_arithmetic_obs(c, [f for f in eng(c).families if not f.wrapper.cls], 'R18.10'),
   _guarded_subscripts_all,
   _extents_all,
   lambda c: r_kernel_call_typestates(c, ('R15.1', 'R16.2', 'R18.4')),
   lambda c: only_rules(lambda cc: _discrete_rules(cc, ('sync', 'order')), {'R18.5', 'R03.6'})(c),
   lambda c: _epilogue_trim(c, [k for f in (isi_family(c), spike_family(c)) if f for k in (f.py, f.pyx)], 'R18.5'),
   _unreachable_info,
   lambda c: _nonempty_aux(c, 'R18.4'),
   lambda c: _carry(_isi_rules(c), {'R01.4'}, 'R18.7', ('R01.3', 'R01.4')),
   lambda c: _carry(_spike_rules(c), {'R02.5', 'R02.4'}, 'R18.7', ('R02.3', 'R02.4', 'R02.5')),
   lambda c: [Ob('R18.7', o.title, o.status, o.where, o.detail, o.key, o.construct, o.extra)
              for o in RM.r15_4_threshold_definition(c, 'R15.4', 'R08.2') if o.rule == 'R15.4' and 'isi_lengths' in o.title]],
  "R18.1 every division by a pooled multiplicity or a spike count is dominated by a zero test on the same variable (all other divisors are "
  "classified positive with a reason); R18.2 every constant subscript [1], [N-2], [-2] of a spike array is under `N > 1` for that train; R18.3 "
  "written-extent analysis of the 10 kernels that allocate with np.empty: no unwritten cell is returned, returned lengths are related as the "
  "classes require; R18.4 kernels that read element 0 unconditionally only receive get_spikes_non_empty(), the others the plain spikes; max_tau "
  "is a number, MRTS is resolved (each otherwise a TypeError/IndexError on valid input); R18.5 time axis framed by t_start / t_end with the "
  "duplicate end removed; R18.6 unreachable compiled code is listed, not trusted; R18.7 the one-spike ('N > 1 else') alternatives of every edge "
  "correction (ISI intervals, SPIKE auxiliary spikes, isi_lengths) are the documented expressions - a distance to the opposite edge or to the own edge "
  "as specified, never a difference that is 0 for a spike sitting on the edge (which would give 0/0)."
  + NOT_DECIDED + "finiteness of values (no zero ISI for strictly increasing trains) and strict monotonicity of the emitted axis as numbers.",
  [],
  {'R18.1': 25, 'R18.2': 40, 'R18.3': 50, 'R18.4': 30, 'R18.5': 10})

P('C20', 'other',
  [lambda c: RM.r20_1_multiset(c, 'R20.1'),
   lambda c: r13_1_no_param_written(c, 'R20.2', names={'merge_spike_trains', 'psth', 'generate_poisson_spikes'}),
   lambda c: r_fresh_results(c, 'R20.2', [('pyspike.spikes', 'merge_spike_trains')]),
   lambda c: RM.r20_4_poisson(c, 'R20.4'),
   lambda c: RM.r_spiketrain_ctor(c, 'R20.5')],
  "R20.1 merge_spike_trains derives its spikes from the `.spikes` of every train of the list through concatenation and sorting only (no "
  "de-duplicating, filtering or slicing operation on the path) and carries the first train's interval; psth pools every train before the histogram "
  "call and uses bin_count+1 equally spaced edges from t_start to t_end; R20.2 neither function modifies its inputs, the merged train is fresh."
  + NOT_DECIDED + "histogram counts, Poisson generation (random values), equal bin widths as numbers.",
  [],
  {'R20.1': 4, 'R20.2': 3})


import ast as _ast_mod


def _mirror_kernels(ctx, rule='R08.2') -> List[Ob]:
    """rho-mirror of the ISI edge rules and of the SPIKE auxiliary spikes, on the values the kernels actually compute"""
    from .rules_kernelspec import _parts, _paths, _returned_names
    from .report import ok, violation, inconclusive
    from . import canon as C
    e = _ensure_helpers(ctx)
    out: List[Ob] = []
    # ---- ISI: prologue value (first spike after t_start) vs. end value after the last advance
    f = isi_family(ctx)
    for k in ([f.py, f.pyx, f.single] if f else []):
        if k is None:
            continue
        roles, _ = e.roles_of(k)
        if roles is None or not roles.ok:
            out.append(inconclusive(rule, f"{k.name}: merge idiom (premise)", k.loc()))
            continue
        params = [a.arg for a in k.node.args.args]
        s = {1: params[0], 2: params[1]}
        N = {i: C.atom(('call', 'len', (C.atom(('n', s[i])),))) for i in (1, 2)}
        rf = RM.Reflect(params[2], params[3], {s[1]: N[1], s[2]: N[2]})
        pre, loop, post = _parts(k)
        pro = _paths(e, k, pre)
        seed = C.Env()
        seed.call_adapters = e._adapters([], 'x')
        seed.vals[roles.n1], seed.vals[roles.n2] = N[1], N[2]
        lp = _paths(e, k, loop[2], seed)
        for i, cur in ((1, roles.c1), (2, roles.c2)):
            ts = C.atom(('n', params[2]))
            first_c = C.mk_cmp('gt', C.atom(('sub', ('n', s[i]), C.ZERO)), ts)
            # interval variable: assigned on the prologue path together with the cursor
            gt1 = C.mk_cmp('gt', N[i], C.ONE)

            def merged(entries, any_value=False):
                """values of one variable over paths: as they are when they already are `a if N > 1 else b`
                values; paths that branch on `N > 1` instead are folded back into such a value"""
                out_ = []
                yes = [v for cs_, v in entries if gt1 in cs_]
                no = [v for cs_, v in entries if C.mk_not(gt1) in cs_]
                for cs_, v in entries:
                    if gt1 not in cs_ and C.mk_not(gt1) not in cs_:
                        sa_ = C.single_atom(v)
                        if any_value or (sa_ is not None and sa_[0] == 'ifexp'):
                            out_.append(v)
                for a_ in dict.fromkeys(yes):
                    for b_ in dict.fromkeys(no):
                        out_.append(C.atom(('ifexp', gt1, a_, b_)))
                return out_
            start_entries: Dict[str, list] = {}
            for env, st, conds in pro:
                if first_c in conds:
                    for nm, v in env.vals.items():
                        if nm not in (roles.c1, roles.c2, roles.n1, roles.n2) and C.is_poly(v) and ('n', s[i]) in C.atoms_of(v) \
                                and not nm.startswith('N_'):
                            start_entries.setdefault(nm, []).append((conds, v))
            start_vals = []
            for nm, ents in start_entries.items():
                for v in merged(ents):
                    start_vals.append((nm, v))
            end_vals = []
            cnew = C.add(C.atom(('n', cur)), C.ONE)
            last_c = C.mk_not(C.mk_cmp('lt', cnew, C.sub(N[i], C.ONE)))
            end_entries = []
            for env, st, conds in lp:
                if last_c in conds:
                    for nm, v in env.vals.items():
                        if start_vals and nm == start_vals[0][0]:
                            end_entries.append((conds, C.subst_atoms(v, {('n', cur): C.sub(N[i], C.const(2))})))
            end_vals = list(dict.fromkeys(merged(end_entries, any_value=True)))
            t = f"{k.name} ({k.path}): train {i}: the last-interval rule is the mirror image (time reflection) of the first-interval rule"
            if not start_vals or not end_vals:
                out.append(inconclusive(rule, t, k.loc(), f"start={len(start_vals)} end={len(end_vals)}"))
                continue
            rs = rf.rho_dur(start_vals[0][1])
            nm = start_vals[0][0]
            # compiled spelling re-uses the previous interval (lemma L2): substitute it
            l2 = C.sub(C.atom(('sub', ('n', s[i]), C.sub(N[i], C.ONE))), C.atom(('sub', ('n', s[i]), C.sub(N[i], C.const(2)))))
            for n_end, ev in enumerate(end_vals):
                cands = {ev, C.subst_atoms(ev, {('n', nm): l2})}
                t2 = t + f" (end path {n_end})"
                if rs is not None and (rs in cands or any(RM._one_spike_equal(rs, c_, s[i], N[i]) for c_ in cands)):
                    out.append(ok(rule, t2, k.loc(), construct=f"{k.path}::{k.name}::mirror::{i}::{n_end}"))
                else:
                    out.append(violation(rule, t2, k.loc(), key=f"{k.path}::{k.name}::isi-mirror::train{i}::end{n_end}",
                                         detail=f"rho(first rule) = {C.show(rs) if rs is not None else '?'}\nlast rule = {C.show(ev)}"))
    # ---- SPIKE: r(lower auxiliary spike) == upper auxiliary spike
    f = spike_family(ctx)
    for k in ([f.py, f.pyx, f.single] if f else []):
        if k is None:
            continue
        params = [a.arg for a in k.node.args.args]
        pre, loop, post = _parts(k)
        pro = _paths(e, k, pre)
        # cells merged over all prologue paths (the same cells filled by `x[0] = a if c else b` or under `if c:`)
        from .rules_kernelspec import _const_cells_over_paths
        lens_ = [C.atom(('call', 'len', (C.atom(('n', p_)),))) for p_ in params[:2]]
        for it_ in pre:
            if it_[0] == 'simple' and isinstance(it_[1], _ast_mod.Assign) and isinstance(it_[1].value, _ast_mod.Name) \
                    and isinstance(it_[1].targets[0], _ast_mod.Name) and it_[1].value.id in params[:2]:
                lens_.append(C.atom(('call', 'len', (C.atom(('n', it_[1].value.id)),))))
        aux = _const_cells_over_paths(pro, _returned_names(k), [C.mk_cmp('gt', L_, C.ONE) for L_ in lens_])
        from .rules_kernelspec import scalar_aux_pairs
        for pr_, vals_ in scalar_aux_pairs(k, pro, [C.mk_cmp('gt', L_, C.ONE) for L_ in lens_]).items():
            # the same pair kept in two scalars
            aux[f"{pr_[0]} / {pr_[1]}"] = {0: vals_[pr_[0]], 1: vals_[pr_[1]]}
        arrays = {}
        for key, cells in aux.items():
            for v in cells.values():
                for a in C.atoms_of(v):
                    if a[0] == 'sub' and a[1][0] == 'n':
                        arrays[a[1][1]] = C.atom(('call', 'len', (C.atom(a[1]),)))
        rf = RM.Reflect(params[2], params[3], arrays)
        n_ok = 0
        for key, cells in sorted(aux.items()):
            if set(cells) != {0, 1}:
                continue
            t = f"{k.name} ({k.path}): `{key}`: the upper auxiliary spike is the mirror image (time reflection) of the lower one"
            r = rf.r_time(cells[0])
            if r is None:
                sa = C.single_atom(cells[0])
                if sa is not None and sa[0] == 'ifexp':
                    a_, b_ = rf.r_time(sa[2]), rf.r_time(sa[3])
                    r = C.atom(('ifexp', sa[1], a_, b_)) if a_ is not None and b_ is not None else None
            if r is not None and r == cells[1]:
                out.append(ok(rule, t, k.loc(), construct=f"{k.path}::{k.name}::aux-mirror::{key}"))
                n_ok += 1
            else:
                out.append(violation(rule, t, k.loc(), key=f"{k.path}::{k.name}::aux-mirror::{key}",
                                     detail=f"r(lower) = {C.show(r) if r is not None else '?'}\nupper = {C.show(cells[1])}"))
    return out


def _units_classes(ctx, rule) -> List[Ob]:
    allo = ctx.get('units', lambda c: r08_1_units(c, 'R08.1'))
    return [Ob(rule, o.title, o.status, o.where, o.detail, o.key, o.construct, o.extra) for o in allo
            if o.title.startswith('PieceWiseConstFunc') or o.title.startswith('PieceWiseLinFunc')]


def _top_env(fi):
    """state after the once-assigned, side-effect free top-level definitions of a function (`n = len(xs)` ...)"""
    import ast as _ast
    from . import canon as C
    env = C.Env()
    stores = {}
    for n in _ast.walk(fi.node):
        if isinstance(n, _ast.Name) and isinstance(n.ctx, _ast.Store):
            stores[n.id] = stores.get(n.id, 0) + 1
    _params = {a_.arg for a_ in fi.node.args.args + fi.node.args.kwonlyargs}
    for st in fi.node.body:
        if isinstance(st, _ast.Assign) and len(st.targets) == 1 and isinstance(st.targets[0], _ast.Name) \
                and stores.get(st.targets[0].id) == 1 and st.targets[0].id not in _params:
            try:
                env.vals[st.targets[0].id] = C.canon_expr(st.value, env)
            except C.CanonError:
                pass
    return env


def _average_profile(ctx, rule='R09.7') -> List[Ob]:
    import ast as _ast
    from .report import ok, violation
    from . import canon as C
    fi = ctx.repo.func('pyspike.DiscreteFunc', 'average_profile')
    p = fi.node.args.args[0].arg
    env = _top_env(fi)
    P = C.atom(('n', p))
    n_prof = C.atom(('call', 'len', (P,)))
    acc = None
    steps = {'copy': False, 'add-all-others': False, 'scale': False, 'return': False}
    for st in fi.node.body:
        if isinstance(st, _ast.Assign) and len(st.targets) == 1 and isinstance(st.targets[0], _ast.Name) \
                and isinstance(st.value, _ast.Call) and isinstance(st.value.func, _ast.Attribute) and st.value.func.attr == 'copy' \
                and not st.value.args:
            try:
                if C.canon_expr(st.value.func.value, env) == C.atom(('sub', ('n', p), C.ZERO)):
                    acc = st.targets[0].id
                    steps['copy'] = True
            except C.CanonError:
                pass
        elif isinstance(st, _ast.For) and acc and isinstance(st.target, _ast.Name) and not st.orelse:
            try:
                it = C.canon_expr(st.iter, env)
                want_it = C.mk_call('range', (C.ONE, n_prof), ())
                want_it = want_it if C.is_poly(want_it) else C.atom(want_it)
                body = [b_ for b_ in st.body if not isinstance(b_, _ast.Pass)]
                # every profile but the first: by index 1..len-1, or as the elements of profiles[1:]
                by_index = it == want_it
                rest = C.canon_expr(_ast.parse(f"{p}[1:]", mode='eval').body, env)
                by_elem = it == rest
                elem = C.atom(('sub', ('n', p), C.atom(('n', st.target.id)))) if by_index else C.atom(('n', st.target.id))
                if (by_index or by_elem) and len(body) == 1 and isinstance(body[0], _ast.Expr) and isinstance(body[0].value, _ast.Call) \
                        and isinstance(body[0].value.func, _ast.Attribute) and body[0].value.func.attr == 'add' \
                        and isinstance(body[0].value.func.value, _ast.Name) and body[0].value.func.value.id == acc \
                        and len(body[0].value.args) == 1 \
                        and C.canon_expr(body[0].value.args[0], env) == elem:
                    steps['add-all-others'] = True
            except C.CanonError:
                pass
        elif isinstance(st, _ast.Expr) and acc and isinstance(st.value, _ast.Call) and isinstance(st.value.func, _ast.Attribute) \
                and st.value.func.attr == 'mul_scalar' and isinstance(st.value.func.value, _ast.Name) and st.value.func.value.id == acc \
                and len(st.value.args) == 1:
            try:
                steps['scale'] = C.canon_expr(st.value.args[0], env) == C.div(C.ONE, n_prof)
            except C.CanonError:
                pass
        elif isinstance(st, _ast.Return) and acc and isinstance(st.value, _ast.Name) and st.value.id == acc:
            steps['return'] = True
    good = all(steps.values())
    t = "average_profile: a copy of the first profile, plus every other profile, scaled by 1/len(profiles)"
    return [ok(rule, t, fi.loc(), construct='average_profile') if good else
            violation(rule, t, fi.loc(), key='pyspike/DiscreteFunc.py::average_profile::route',
                      detail=f"steps recognised: {steps}")]


# ---------------------------------------------------------------------------------------------
# rules added after rounds d and P of independent changes (DESIGN.md 11.7): appended to the explanations
# ---------------------------------------------------------------------------------------------
_EXITS = (" {rid} every way out of these kernels in front of their merge loop is an obligation of its own: the loop rules speak about the path "
          "through the loop; an early exit of a piecewise add kernel is decided against the definition of the sum, any other is undecided.")
_ADDENDA = {
    'C01': _EXITS.format(rid='R01.9'),
    'C02': (" R02.8 every local that holds a distance to the nearest spike of the other train is, at each of its definitions, a result of the "
            "nearest-spike search, a copy of such a local, or the 0 of a shared spike time." + _EXITS.format(rid='R02.9')),
    'C03': (" R03.6 every returned array of the discrete profile kernels is the prefix [:counter+2] of the scanned array (start entry, every "
            "recorded event, end entry), also when the slice is part of the return expression." + _EXITS.format(rid='R03.9')),
    'C04': (" R04.4 also: the selection `indices` is only ever re-bound to an order-preserving copy of itself (a sorted or de-duplicated selection "
            "flips the sign of pairs listed in descending order)." + _EXITS.format(rid='R04.9')),
    'C05': (" R05.1 also: the averaging interval reaches the route selection and avrg/integral as the caller gave it (never re-bound)."
            + _EXITS.format(rid='R05.9')),
    'C06': _EXITS.format(rid='R06.9'),
    'C08': _EXITS.format(rid='R08.9'),
    'C09': (" R09.10 early exits of the add kernels: accepted only when conditioned on a single-piece operand and equal, element by element, to "
            "the other operand's breakpoints and values plus the piece's value (constant / linear interpolation) at the same point."),
    'C11': _EXITS.format(rid='R11.9'),
    'C12': (" R12.6 (=R03.6) the discrete profile kernels return every recorded event (premise of comparing the summed profile with the "
            "single-pass kernels). Routines without loops that the lock-step comparison cannot align are compared as functions from decisions "
            "to results: every pair of compatible paths returns the same canonical value and performs the same stores; three-argument "
            "comparison-only routines are compared on the 13 weak orderings of their arguments."),
    'C13': (" R13.3 also: nothing but copies lies between the selection of the spikes inside the common interval and the new trains (a value-changing "
            "step after the duplicates were removed can make two times equal)."),
    'C14': " R14.2 also: the selection is used in the caller's order (only order-preserving copies of `indices`).",
    'C16': _EXITS.format(rid='R16.9'),
    'C17': _EXITS.format(rid='R17.9'),
    'C18': (" R18.5 also covers R03.6 (trimming of the discrete profiles). R18.10 the Python kernels compute on the numpy values of their "
            "array arguments (no conversion to Python numbers: 0.0/0.0 is nan there and trimmed afterwards, with Python floats it raises)."
            + _EXITS.format(rid='R18.9')),
}
for _pid, _txt in _ADDENDA.items():
    PROPS[_pid]['explanation'] = PROPS[_pid]['explanation'] + _txt


# ---------------------------------------------------------------------------------------------
# exact decisions (rules_exact.py): scopes per property - the functions the property speaks about; everything reachable
# from them by name is searched as well
# ---------------------------------------------------------------------------------------------
def _scope(mods=(), names=(), name_parts=()):
    mods, names, name_parts = set(mods), set(names), tuple(name_parts)

    def pred(f):
        last = f.name.split('.')[-1]
        return f.module in mods or last in names or f.name in names or any(p in last for p in name_parts)
    return pred


_BACKENDS = ('pyspike.cython.python_backend', 'pyspike.cython.directionality_python_backend', 'pyspike.cython.cython_profiles',
             'pyspike.cython.cython_distances', 'pyspike.cython.cython_add', 'pyspike.cython.cython_directionality',
             'pyspike.cython.cython_get_tau', 'pyspike.cython.cython_simulated_annealing')
_EXACT = {
    'C01': ('R01.8', _scope(mods=('pyspike.isi_distance',), name_parts=('isi_distance', 'isi_profile')), 'the ISI profile'),
    'C02': ('R02.10', _scope(mods=('pyspike.spike_distance',), names=('get_min_dist', 'get_min_dist_cython', 'dist_at_t'),
                             name_parts=('spike_distance', 'spike_profile')), 'the SPIKE profile'),
    'C03': ('R03.8', _scope(names=('get_tau', 'Interpolate', 'spike_sync_profile_bi', 'spike_sync_profile_multi', 'spike_sync_profile',
                                   'filter_by_spike_sync'), name_parts=('coincidence',)), 'SPIKE-Sync coincidence detection'),
    'C04': ('R04.8', _scope(mods=('pyspike.spike_directionality', 'pyspike.cython.directionality_python_backend',
                                  'pyspike.cython.cython_directionality'), names=('get_tau', 'Interpolate')),
            'spike-train order and directionality'),
    'C05': ('R05.8', _scope(mods=('pyspike.isi_distance', 'pyspike.spike_distance', 'pyspike.spike_sync', 'pyspike.spike_directionality',
                                  'pyspike.generic'), names=('integral', 'avrg')), 'the scalar measures and the profile averages'),
    'C06': ('R06.10', _scope(mods=('pyspike.generic',), names=('add', 'average_profile'), name_parts=('_multi', '_matrix', 'add_')),
            'the multivariate aggregates'),
    'C07': ('R07.8', _scope(mods=_BACKENDS + ('pyspike.isi_distance', 'pyspike.spike_distance', 'pyspike.spike_sync',
                                               'pyspike.spike_directionality')), 'ranges, symmetry and identity of the measures'),
    'C08': ('R08.6', _scope(mods=_BACKENDS + ('pyspike.isi_distance', 'pyspike.spike_distance', 'pyspike.spike_sync',
                                               'pyspike.spike_directionality', 'pyspike.generic', 'pyspike.isi_lengths',
                                               'pyspike.PieceWiseConstFunc', 'pyspike.PieceWiseLinFunc', 'pyspike.DiscreteFunc')),
            'shift, scale and reversal covariance (a fixed tolerance is a hidden time scale)'),
    'C09': ('R09.11', _scope(names=('PieceWiseConstFunc.add', 'PieceWiseLinFunc.add', 'PieceWiseConstFunc.mul_scalar',
                                    'PieceWiseLinFunc.mul_scalar', 'PieceWiseConstFunc.copy', 'PieceWiseLinFunc.copy',
                                    'PieceWiseConstFunc.__init__', 'PieceWiseLinFunc.__init__'), name_parts=('add_piece_wise',)),
            'the sum of piecewise functions'),
    'C10': ('R10.6', _scope(names=tuple(f"{c_}.{m_}" for c_ in ('PieceWiseConstFunc', 'PieceWiseLinFunc')
                                        for m_ in ('__call__', 'integral', 'avrg', 'get_plottable_data', '__init__'))),
            'evaluation, integral and average'),
    'C11': ('R11.8', _scope(mods=('pyspike.DiscreteFunc',), name_parts=('add_discrete',)), 'discrete profiles'),
    'C12': ('R12.7', _scope(mods=_BACKENDS), 'both backends'),
    'C13': ('R13.5', _scope(mods=('pyspike.spikes', 'pyspike.SpikeTrain')), 'reconciliation of the inputs'),
    'C14': ('R14.7', _scope(mods=('pyspike.isi_distance', 'pyspike.spike_distance', 'pyspike.spike_sync', 'pyspike.spike_directionality',
                                  'pyspike.generic')), 'the call forms and index selections'),
    'C15': ('R15.7', _scope(mods=('pyspike.isi_lengths', 'pyspike.generic'), names=('get_tau', 'Interpolate', 'dist_at_t')),
            'MRTS and the automatic threshold'),
    'C16': ('R16.5', _scope(mods=('pyspike.spike_sync', 'pyspike.spike_directionality'), names=('get_tau', 'Interpolate'),
                            name_parts=('coincidence',)), 'the max_tau bound'),
    'C17': ('R17.5', _scope(names=('filter_by_spike_sync',), name_parts=('coincidence_single',)), 'the SPIKE-Sync filter'),
    'C18': ('R18.8', _scope(mods=_BACKENDS + ('pyspike.isi_distance', 'pyspike.spike_distance', 'pyspike.spike_sync',
                                               'pyspike.spike_directionality', 'pyspike.generic', 'pyspike.isi_lengths',
                                               'pyspike.PieceWiseConstFunc', 'pyspike.PieceWiseLinFunc', 'pyspike.DiscreteFunc',
                                               'pyspike.spikes', 'pyspike.SpikeTrain')), 'well-formed results'),
    'C20': ('R20.3', _scope(mods=('pyspike.psth',), names=('merge_spike_trains',)), 'merging and histogramming'),
}


def _mk_exact(rid, pred, what):
    def run(c):
        from .rules_exact import r_exact_decisions
        return r_exact_decisions(c, rid, pred, what)
    return run


for _pid, (_rid, _pred, _what) in _EXACT.items():
    PROPS[_pid]['rules'] = list(PROPS[_pid]['rules']) + [_mk_exact(_rid, _pred, _what)]
    PROPS[_pid]['explanation'] += (f" {_rid} exact decisions: in the code that {_what} depends on (scope functions and everything reachable from "
                                   "them by name) no tolerant comparison - np.isclose, np.allclose, math.isclose, |a-b| against a small constant - "
                                   "decides anything; only almost_equal compares up to a tolerance.")


# ---------------------------------------------------------------------------------------------
# dependency chains: the code between a property's public entry points and the kernels it is decided on
# ---------------------------------------------------------------------------------------------
# A property that is stated for "the bivariate profile" or "the distance" is observed through the public functions, and
# those reach the kernels through shared plumbing: the generic multi-train drivers (also for a two-element list or a
# list with `indices` naming two trains), keyword forwarding, the representation of empty trains, the averaging methods
# of the function classes.  A defect there breaks the property although no kernel changed.  The obligations of that
# plumbing are therefore carried into every property whose entry points reach it (the same rule functions, restricted to
# the functions reachable from the entry modules, re-labelled with a rule id of the carrying property).
def _reached_fns(ctx, modules) -> Set[str]:
    import ast as _ast

    def build(c):
        from .wrappers import wrapper_model, _fn as _wfn
        wm = wrapper_model(c)
        seen: Dict[str, object] = {}
        work = [f for f in wm.funcs if f.module in modules]
        while work:
            f = work.pop()
            if f.qual in seen:
                continue
            seen[f.qual] = f
            for n in _ast.walk(f.node):
                if not isinstance(n, _ast.Call):
                    continue
                for t, _k in wm.callees(f, n):
                    work.append(t)
                for a in list(n.args) + [k.value for k in n.keywords]:
                    if isinstance(a, _ast.Call) and a.args and isinstance(a.func, (_ast.Name, _ast.Attribute)) \
                            and _ast.unparse(a.func).split('.')[-1] == 'partial':
                        a = a.args[0]
                    if isinstance(a, _ast.Name):
                        if a.id in wm.partials.get(f.qual, {}):
                            work.append(wm.partials[f.qual][a.id][0])
                        else:
                            r = wm.repo.resolve_symbol(f.module, a.id)
                            if r is not None:
                                work.append(r)
        return {_wfn(f) for f in seen.values()}
    return ctx.get(('reached-fns', tuple(sorted(modules))), build)


def _of_fns(obs: List[Ob], fns: Set[str], rule: str) -> List[Ob]:
    out = []
    for o in obs:
        ks = [k for k in (o.key, o.construct) if k]
        if any(k == fn or k.startswith(fn + '::') or k.startswith(fn + '.') for k in ks for fn in fns):
            out.append(Ob(rule, o.title, o.status, o.where, o.detail, o.key, o.construct, o.extra))
    return out


def _plumbing(ctx, modules, rule: str) -> List[Ob]:
    """pair enumeration / aggregation, index kinds and keyword flow of the wrappers and generic drivers reached from
    `modules` (R06.1-R06.3, R14.2, R14.5 restricted to those functions)"""
    from .rules_wrappers import r14_5_keyword_flow
    fns = _reached_fns(ctx, set(modules))
    agg = ctx.get('chain-agg', lambda c: RM.r06_aggregation(c, 'R06.2', 'R06.3'))
    kinds = ctx.get('chain-kinds', lambda c: r14_2_index_kinds(c, 'R14.2', 'R06.1', 'R14.3'))
    kw = ctx.get('chain-kw', lambda c: r14_5_keyword_flow(c, 'R14.5'))
    # (R14.3 - the selection-size clause and the pooled automatic threshold - is a statement about `indices` against the
    # sub-list and stays with C14)
    return _of_fns(agg, fns, rule) + _of_fns([o for o in kinds if o.rule != 'R14.3'], fns, rule) + _of_fns(kw, fns, rule)


def _class_averages(ctx, rule: str, classes=('PieceWiseConstFunc', 'PieceWiseLinFunc', 'DiscreteFunc')) -> List[Ob]:
    out: List[Ob] = []
    for cls in classes:
        key = ('chain-avrg', cls)
        obs = ctx.get(key, lambda c, cls=cls: RC.integral_spec(c, cls, 'R10.1') + RC.avrg_spec(c, cls, 'R10.2'))
        out += [Ob(rule, o.title, o.status, o.where, o.detail, o.key, o.construct, o.extra) for o in obs]
    return out


def _layer_reconcile(ctx, modules, rule: str) -> List[Ob]:
    """every entry point reached from `modules` brings its trains onto the common interval before a kernel sees them (R13.2),
    and the reconciliation keeps exactly the spikes inside that interval, unchanged and in new objects (R13.3)"""
    fns = _reached_fns(ctx, set(modules))
    dom = ctx.get('chain-reconcile-dom', lambda c: r13_2_reconcile_dominates(c, 'R13.2'))
    shape = ctx.get('chain-reconcile-shape', lambda c: RM.r13_3_reconcile_shape(c, 'R13.3'))
    ctor = ctx.get('chain-spiketrain-ctor', lambda c: RM.r_spiketrain_ctor(c, 'R13.6'))
    return _of_fns(dom, fns, rule) + [Ob(rule, o.title, o.status, o.where, o.detail, o.key, o.construct, o.extra) for o in shape + ctor]


def _layer_defaults(ctx, rule: str) -> List[Ob]:
    obs = ctx.get('chain-defaults', lambda c: RM.r15_3_defaults(c, 'R15.3'))
    return [Ob(rule, o.title, o.status, o.where, o.detail, o.key, o.construct, o.extra) for o in obs]


def _layer_class_ops(ctx, rule: str, classes=('PieceWiseConstFunc', 'PieceWiseLinFunc', 'DiscreteFunc')) -> List[Ob]:
    """mul_scalar scales every value array in place by the factor (and nothing else), add() is the definition's sum"""
    mul = ctx.get('chain-mul', lambda c: RC.mul_scalar_spec(c, 'R09.6'))
    add = ctx.get('chain-add', lambda c: RC.add_method_spec(c, 'R09.9'))
    keep = tuple(f"{c}." for c in classes)
    return [Ob(rule, o.title, o.status, o.where, o.detail, o.key, o.construct, o.extra) for o in mul + add
            if any(k in (o.key or '') + (o.construct or '') + o.title for k in keep)]


def _layer_typestates(ctx, modules, rule: str) -> List[Ob]:
    """what reaches a kernel call: MRTS resolved to a number (one threshold for the whole call, not one per pair), max_tau
    defaulted, spike arrays from get_spikes_non_empty / .spikes of reconciled trains - for the calls reached from `modules`"""
    fns = _reached_fns(ctx, set(modules))
    ts = ctx.get('chain-typestates', lambda c: r_kernel_call_typestates(c, ('R15.1', 'R16.2', 'R18.4')))
    mr = ctx.get('chain-mrts-kwargs', lambda c: [o for o in r_kernel_call_typestates(c, ('R05.7', '', '')) if o.rule == 'R05.7'])
    return _of_fns(ts, fns, rule) + _of_fns(mr, fns, rule)


def _layer_plottable(ctx, rule: str) -> List[Ob]:
    obs = ctx.get('chain-plottable', lambda c: RC.plottable_discrete_spec(c, 'R11.5') + RC.plottable_spec(c, 'PieceWiseConstFunc', 'R10.4')
                  + RC.plottable_spec(c, 'PieceWiseLinFunc', 'R10.4'))
    return [Ob(rule, o.title, o.status, o.where, o.detail, o.key, o.construct, o.extra) for o in obs]


def _layer_guards(ctx, rule: str) -> List[Ob]:
    obs = ctx.get('chain-guards', lambda c: r18_1_guarded_divisions(c, 'R18.1', 'R05.4'))
    return [Ob(rule, o.title, o.status, o.where, o.detail, o.key, o.construct, o.extra) for o in obs]


def _layer_add_kernels(ctx, rule: str) -> List[Ob]:
    """the add kernels of the three classes: compiled source and fallback agree, values of the sum per clause"""
    fams = [f for f in eng(ctx).families if f.wrapper.cls]
    obs = ctx.get('chain-addkernels', lambda c: _sib(c, fams, 'R12.2') + [o for o in RC.add_value_rules(c, _ensure_helpers(c), 'R09.5')])
    return [Ob(rule, o.title, o.status, o.where, o.detail, o.key, o.construct, o.extra) for o in obs]


def _layer_discrete_defs(ctx, rule: str, kinds=('sync', 'order', 'dir')) -> List[Ob]:
    obs = ctx.get(('chain-discrete', kinds), lambda c: _discrete_rules(c, kinds))
    return [Ob(rule, o.title, o.status, o.where, o.detail, o.key, o.construct, o.extra) for o in obs
            if o.rule in ('R03.3', 'R04.2', 'R03.6')]


def _layer_profile_ctor(ctx, rid, modules=None) -> List[Ob]:
    from .rules_wrappers import r_profile_from_kernel
    return r_profile_from_kernel(ctx, rid, modules)


def _layer_index_precond(ctx, rid) -> List[Ob]:
    from .rules_precond import r_index_preconditions
    return r_index_preconditions(ctx, rid)


def _layer_kernel_args(ctx, rid, mods=None) -> List[Ob]:
    from .rules_pairvalues import r_kernel_arguments
    return r_kernel_arguments(ctx, rid, mods)


def _layer_pair_values(ctx, rid) -> List[Ob]:
    from .rules_pairvalues import r_pair_value_providers
    return r_pair_value_providers(ctx, rid)


def _layer_isi_lengths(ctx, rid) -> List[Ob]:
    return [Ob(rid, o.title, o.status, o.where, o.detail, o.key, o.construct, o.extra)
            for o in RM.r15_4_threshold_definition(ctx, 'R15.4', 'R08.2') if o.rule == 'R15.4']


_CHAIN_TXT = {
    'guards': ("{rid} (=R18.1/R05.4) every division by a spike count or a summed multiplicity is dominated by a zero test on that very "
               "quantity, and the zero branch returns the convention of its kind (1 for a summed multiplicity, 0 for a spike count) - in "
               "every call form alike; a helper that serves divisors of both kinds cannot satisfy both."),
    'add_kernels': ("{rid} (=R12.2/R09.5/R11.1) the add kernels of the function classes (both copies): merged support, values of the sum, "
                    "edge entries of discrete sums."),
    'discrete_defs': ("{rid} (=R03.3/R04.2/R03.6) the discrete profile kernels store exactly the documented marks and multiplicities, "
                      "frame them with copies of the first / last event (value and multiplicity together) and return every recorded "
                      "event."),
    'typestates': ("{rid} (=R15.1/R16.2/R18.4/R05.7) what reaches a kernel call from these entry points: MRTS already resolved to one "
                   "number for the whole call (never the string, never re-resolved per pair), max_tau defaulted, spike arrays taken "
                   "from the reconciled trains."),
    'plottable': ("{rid} (=R10.4/R11.5) the plottable arrays (including the multiplicity-aware smoothing of discrete profiles, whose left "
                  "and right scans mirror each other) equal their reference programs."),
    'plumbing': ("{rid} the plumbing between the public entry points and the kernels (carried from C06 / C14, restricted to the functions "
                 "reachable from the entry modules): pair enumeration and summation of the generic drivers (also the single-pair branch "
                 "that serves a two-element list or `indices` naming two trains), position / train-id kinds of every index, and keyword "
                 "forwarding (MRTS, RI, max_tau, interval reach the pair function as given)."),
    'aux': "{rid} (=R01.6) a train without spikes is represented by exactly its two edges, every other train by its spikes themselves.",
    'avrg': ("{rid} (=R10.1/R10.2/R11.2/R11.3) integral and avrg of the function classes are the definition's (sum of the pieces / the "
             "entries inside the interval, divided by the interval length / the multiplicities): the scalar results are these averages."),
    'isi_lengths': ("{rid} (=R15.4) isi_lengths / default_thresh are the documented, time-reflection symmetric definition (the automatic "
                    "threshold enters every measure called with MRTS='auto')."),
    'ownership': ("{rid} (=R09.2) constructors and copy() of the function classes own their arrays: an operation on a copy cannot change "
                  "what integral / avrg / evaluation of the original return."),
    'reconcile': ("{rid} (=R13.2/R13.3) every entry point brings its trains onto the common interval before a kernel sees them, and "
                  "reconciliation keeps exactly the spikes inside that interval (strict comparisons against the edges, nothing re-scaled)."),
    'defaults': ("{rid} (=R15.3) keyword defaults: resolve_keywords and the kernels agree on MRTS=0, RI=False, max_tau=0 (None), so a "
                 "setting that is left out means the same on every route."),
    'profile_ctor': ("{rid} the bivariate profile functions hand the arrays returned by their kernel to the function class unchanged (no "
                     "entry dropped, sliced, re-ordered or overwritten between the kernel call and the constructor): integral, avrg, add and "
                     "evaluation are written against the kernel's layout (edge entries at both ends of a discrete profile)."),
    'index_precond': ("{rid} caller / helper agreement on the -1 cursor: every read `a[p]` / `a[p-1]` of a backend helper that receives a "
                      "cursor (get_tau) is under a test of its own, or every call site establishes the bound (dominating test, increment of "
                      "a monotone cursor, range variable); otherwise an empty train is an IndexError and a non-empty one reads the wrong "
                      "neighbour."),
    'merge_idiom': ("{rid} (=R01.1/R02.1/R03.1) the cursor-merge idiom of every kernel (lemma L1: the loop bound is the number of "
                    "spikes of both trains as given - no spike is set aside in front of the loop -, strict three-way comparison, "
                    "exclusive guards, single increments): a kernel that drops or doubles an event at one edge breaks the mirror image."),
    'kernel_args': ("{rid} every kernel call of the measure modules receives the trains' own spike arrays (`<train>.spikes` / "
                    "`<train>.get_spikes_non_empty()`) and edges (`<train>.t_start`, `<train>.t_end`), possibly through a local bound once "
                    "to exactly that: nothing is selected, sliced, windowed or re-framed between the (reconciled) train and the kernel - "
                    "the kernels' edge rules are written for all spikes of a train on its own interval."),
    'pair_values': ("{rid} the private providers of the pooled pair (summed profile values, summed multiplicities) of SPIKE-Sync and "
                    "spike train order return that pair as the kernel / the bivariate profile's integral computed it on every path: the "
                    "multivariate scalar is the ratio of the totals of exactly these pairs (a substituted pair such as (1, 1) for a silent "
                    "pair changes the pooled value although every two-train call still looks right)."),
    'class_ops': ("{rid} (=R09.6/R09.9) mul_scalar scales exactly the value arrays by the factor, add() is the definition's sum of two "
                  "functions: multivariate profiles are built with these two operations."),
}
_ISI, _SPK, _SYN, _DIR = 'pyspike.isi_distance', 'pyspike.spike_distance', 'pyspike.spike_sync', 'pyspike.spike_directionality'
_CHAINS = {
    'C01': [('R01.11', 'plumbing', lambda c: _plumbing(c, (_ISI,), 'R01.11')),
            ('R01.12', 'avrg', lambda c: _class_averages(c, 'R01.12', ('PieceWiseConstFunc',))),
            ('R01.13', 'reconcile', lambda c: _layer_reconcile(c, (_ISI,), 'R01.13')),
            ('R01.14', 'defaults', lambda c: _layer_defaults(c, 'R01.14')),
            ('R01.15', 'typestates', lambda c: _layer_typestates(c, (_ISI,), 'R01.15')),
            ('R01.16', 'profile_ctor', lambda c: _layer_profile_ctor(c, 'R01.16', (_ISI,))),
            ('R01.17', 'isi_lengths', lambda c: _layer_isi_lengths(c, 'R01.17')),
            ('R01.18', 'class_ops', lambda c: _layer_class_ops(c, 'R01.18')),
            ('R01.19', 'kernel_args', lambda c: _layer_kernel_args(c, 'R01.19', (_ISI,)))],
    'C02': [('R02.11', 'plumbing', lambda c: _plumbing(c, (_SPK,), 'R02.11')),
            ('R02.12', 'aux', lambda c: _nonempty_aux(c, 'R02.12')),
            ('R02.13', 'avrg', lambda c: _class_averages(c, 'R02.13', ('PieceWiseLinFunc',))),
            ('R02.14', 'reconcile', lambda c: _layer_reconcile(c, (_SPK,), 'R02.14')),
            ('R02.15', 'defaults', lambda c: _layer_defaults(c, 'R02.15')),
            ('R02.16', 'typestates', lambda c: _layer_typestates(c, (_SPK,), 'R02.16')),
            ('R02.17', 'profile_ctor', lambda c: _layer_profile_ctor(c, 'R02.17', (_SPK,))),
            ('R02.18', 'isi_lengths', lambda c: _layer_isi_lengths(c, 'R02.18')),
            ('R02.19', 'class_ops', lambda c: _layer_class_ops(c, 'R02.19')),
            ('R02.20', 'kernel_args', lambda c: _layer_kernel_args(c, 'R02.20', (_SPK,)))],
    'C03': [('R03.10', 'plumbing', lambda c: _plumbing(c, (_SYN,), 'R03.10')),
            ('R03.11', 'avrg', lambda c: _class_averages(c, 'R03.11', ('DiscreteFunc',))),
            ('R03.12', 'reconcile', lambda c: _layer_reconcile(c, (_SYN,), 'R03.12')),
            ('R03.13', 'defaults', lambda c: _layer_defaults(c, 'R03.13')),
            ('R03.14', 'typestates', lambda c: _layer_typestates(c, (_SYN,), 'R03.14')),
            ('R03.15', 'guards', lambda c: _layer_guards(c, 'R03.15')),
            ('R03.16', 'profile_ctor', lambda c: _layer_profile_ctor(c, 'R03.16', (_SYN,))),
            ('R03.17', 'index_precond', lambda c: _layer_index_precond(c, 'R03.17')),
            ('R03.18', 'isi_lengths', lambda c: _layer_isi_lengths(c, 'R03.18')),
            ('R03.19', 'class_ops', lambda c: _layer_class_ops(c, 'R03.19')),
            ('R03.20', 'kernel_args', lambda c: _layer_kernel_args(c, 'R03.20', (_SYN,)))],
    'C04': [('R04.10', 'plumbing', lambda c: _plumbing(c, (_DIR,), 'R04.10')),
            ('R04.11', 'avrg', lambda c: _class_averages(c, 'R04.11', ('DiscreteFunc',))),
            ('R04.12', 'reconcile', lambda c: _layer_reconcile(c, (_DIR,), 'R04.12')),
            ('R04.13', 'defaults', lambda c: _layer_defaults(c, 'R04.13')),
            ('R04.14', 'typestates', lambda c: _layer_typestates(c, (_DIR,), 'R04.14')),
            ('R04.15', 'guards', lambda c: _layer_guards(c, 'R04.15')),
            ('R04.16', 'profile_ctor', lambda c: _layer_profile_ctor(c, 'R04.16', (_DIR,))),
            ('R04.17', 'index_precond', lambda c: _layer_index_precond(c, 'R04.17')),
            ('R04.18', 'isi_lengths', lambda c: _layer_isi_lengths(c, 'R04.18')),
            ('R04.19', 'pair_values', lambda c: _layer_pair_values(c, 'R04.19')),
            ('R04.20', 'kernel_args', lambda c: _layer_kernel_args(c, 'R04.20', (_DIR,)))],
    'C05': [('R05.10', 'class_ops', lambda c: _layer_class_ops(c, 'R05.10')),
            ('R05.11', 'reconcile', lambda c: _layer_reconcile(c, (_ISI, _SPK, _SYN, _DIR), 'R05.11')),
            ('R05.12', 'plumbing', lambda c: _plumbing(c, (_ISI, _SPK, _SYN, _DIR), 'R05.12')),
            ('R05.13', 'profile_ctor', lambda c: _layer_profile_ctor(c, 'R05.13')),
            ('R05.14', 'aux', lambda c: _nonempty_aux(c, 'R05.14')),
            ('R05.15', 'pair_values', lambda c: _layer_pair_values(c, 'R05.15'))],
    'C06': [('R06.11', 'plumbing', lambda c: _plumbing(c, (_ISI, _SPK, _SYN), 'R06.11')),
            ('R06.12', 'class_ops', lambda c: _layer_class_ops(c, 'R06.12')),
            ('R06.13', 'reconcile', lambda c: _layer_reconcile(c, (_ISI, _SPK, _SYN), 'R06.13')),
            ('R06.14', 'avrg', lambda c: _class_averages(c, 'R06.14')),
            ('R06.15', 'profile_ctor', lambda c: _layer_profile_ctor(c, 'R06.15', (_ISI, _SPK, _SYN))),
            ('R06.16', 'isi_lengths', lambda c: _layer_isi_lengths(c, 'R06.16')),
            ('R06.17', 'defaults', lambda c: _layer_defaults(c, 'R06.17')),
            ('R06.18', 'aux', lambda c: _nonempty_aux(c, 'R06.18')),
            ('R06.19', 'pair_values', lambda c: _layer_pair_values(c, 'R06.19'))],
    'C07': [('R07.10', 'avrg', lambda c: _class_averages(c, 'R07.10')),
            ('R07.11', 'reconcile', lambda c: _layer_reconcile(c, (_ISI, _SPK, _SYN, _DIR), 'R07.11')),
            ('R07.12', 'discrete_defs', lambda c: _layer_discrete_defs(c, 'R07.12')),
            ('R07.13', 'profile_ctor', lambda c: _layer_profile_ctor(c, 'R07.13')),
            ('R07.14', 'isi_lengths', lambda c: _layer_isi_lengths(c, 'R07.14')),
            ('R07.15', 'class_ops', lambda c: _layer_class_ops(c, 'R07.15')),
            ('R07.16', 'kernel_args', lambda c: _layer_kernel_args(c, 'R07.16', (_ISI, _SPK, _SYN)))],
    'C15': [('R15.8', 'reconcile', lambda c: _layer_reconcile(c, (_ISI, _SPK, _SYN, _DIR), 'R15.8')),
            ('R15.9', 'plumbing', lambda c: _plumbing(c, (_ISI, _SPK, _SYN, _DIR), 'R15.9')),
            ('R15.10', 'typestates', lambda c: _layer_typestates(c, (_ISI, _SPK, _SYN, _DIR), 'R15.10')),
            ('R15.11', 'class_ops', lambda c: _layer_class_ops(c, 'R15.11')),
            ('R15.12', 'avrg', lambda c: _class_averages(c, 'R15.12'))],
    'C08': [('R08.7', 'isi_lengths', lambda c: [Ob('R08.7', o.title, o.status, o.where, o.detail, o.key, o.construct, o.extra)
                                                 for o in RM.r15_4_threshold_definition(c, 'R15.4', 'R08.2') if o.rule == 'R15.4']),
            ('R08.8', 'aux', lambda c: _nonempty_aux(c, 'R08.8')),
            ('R08.10', 'reconcile', lambda c: _layer_reconcile(c, (_ISI, _SPK, _SYN, _DIR), 'R08.10')),
            ('R08.11', 'plottable', lambda c: _layer_plottable(c, 'R08.11')),
            ('R08.12', 'discrete_defs', lambda c: _layer_discrete_defs(c, 'R08.12')),
            ('R08.13', 'avrg', lambda c: _class_averages(c, 'R08.13')),
            ('R08.14', 'profile_ctor', lambda c: _layer_profile_ctor(c, 'R08.14')),
            ('R08.15', 'index_precond', lambda c: _layer_index_precond(c, 'R08.15')),
            ('R08.16', 'defaults', lambda c: _layer_defaults(c, 'R08.16')),
            ('R08.17', 'merge_idiom', lambda c: merge_idiom_obs(c, [f for f in eng(c).families if not f.wrapper.cls], 'R08.17')),
            ('R08.18', 'kernel_args', lambda c: _layer_kernel_args(c, 'R08.18', (_ISI, _SPK, _SYN, _DIR)))],
    'C09': [('R09.12', 'avrg', lambda c: _class_averages(c, 'R09.12', ('PieceWiseConstFunc', 'PieceWiseLinFunc')))],
    'C11': [('R11.10', 'avrg', lambda c: _class_averages(c, 'R11.10', ('DiscreteFunc',)))],
    'C10': [('R10.7', 'ownership', lambda c: r09_2_ownership(c, 'R10.7', {'PieceWiseConstFunc', 'PieceWiseLinFunc'}))],
    'C12': [('R12.8', 'avrg', lambda c: _class_averages(c, 'R12.8')),
            ('R12.9', 'plumbing', lambda c: _plumbing(c, (_ISI, _SPK, _SYN, _DIR), 'R12.9')),
            ('R12.10', 'typestates', lambda c: _layer_typestates(c, (_ISI, _SPK, _SYN, _DIR), 'R12.10')),
            ('R12.11', 'guards', lambda c: _layer_guards(c, 'R12.11')),
            ('R12.12', 'profile_ctor', lambda c: _layer_profile_ctor(c, 'R12.12')),
            ('R12.13', 'index_precond', lambda c: _layer_index_precond(c, 'R12.13')),
            ('R12.14', 'isi_lengths', lambda c: _layer_isi_lengths(c, 'R12.14')),
            ('R12.15', 'class_ops', lambda c: _layer_class_ops(c, 'R12.15')),
            ('R12.16', 'reconcile', lambda c: _layer_reconcile(c, (_ISI, _SPK, _SYN, _DIR), 'R12.16')),
            ('R12.17', 'kernel_args', lambda c: _layer_kernel_args(c, 'R12.17', (_ISI, _SPK, _SYN, _DIR)))],
    'C14': [('R14.8', 'defaults', lambda c: _layer_defaults(c, 'R14.8')),
            ('R14.9', 'reconcile', lambda c: _layer_reconcile(c, (_ISI, _SPK, _SYN, _DIR), 'R14.9')),
            ('R14.10', 'typestates', lambda c: _layer_typestates(c, (_ISI, _SPK, _SYN, _DIR), 'R14.10')),
            ('R14.11', 'guards', lambda c: _layer_guards(c, 'R14.11')),
            ('R14.12', 'isi_lengths', lambda c: _layer_isi_lengths(c, 'R14.12')),
            ('R14.13', 'class_ops', lambda c: _layer_class_ops(c, 'R14.13')),
            ('R14.14', 'avrg', lambda c: _class_averages(c, 'R14.14')),
            ('R14.15', 'pair_values', lambda c: _layer_pair_values(c, 'R14.15'))],
    'C16': [('R16.6', 'plumbing', lambda c: _plumbing(c, (_SYN, _DIR), 'R16.6')),
            ('R16.7', 'defaults', lambda c: _layer_defaults(c, 'R16.7')),
            ('R16.8', 'reconcile', lambda c: _layer_reconcile(c, (_SYN, _DIR), 'R16.8')),
            ('R16.10', 'typestates', lambda c: _layer_typestates(c, (_SYN, _DIR), 'R16.10')),
            ('R16.11', 'index_precond', lambda c: _layer_index_precond(c, 'R16.11')),
            ('R16.12', 'isi_lengths', lambda c: _layer_isi_lengths(c, 'R16.12')),
            ('R16.13', 'class_ops', lambda c: _layer_class_ops(c, 'R16.13')),
            ('R16.14', 'avrg', lambda c: _class_averages(c, 'R16.14', ('DiscreteFunc',))),
            ('R16.15', 'discrete_defs', lambda c: _layer_discrete_defs(c, 'R16.15'))],
    'C17': [('R17.6', 'defaults', lambda c: _layer_defaults(c, 'R17.6')),
            ('R17.7', 'reconcile', lambda c: _layer_reconcile(c, (_SYN,), 'R17.7')),
            ('R17.8', 'isi_lengths', lambda c: _layer_isi_lengths(c, 'R17.8'))],
    'C18': [('R18.11', 'reconcile', lambda c: _layer_reconcile(c, (_ISI, _SPK, _SYN, _DIR), 'R18.11')),
            ('R18.12', 'avrg', lambda c: _class_averages(c, 'R18.12')),
            ('R18.13', 'plumbing', lambda c: _plumbing(c, (_ISI, _SPK, _SYN, _DIR), 'R18.13')),
            ('R18.14', 'add_kernels', lambda c: _layer_add_kernels(c, 'R18.14')),
            ('R18.15', 'index_precond', lambda c: _layer_index_precond(c, 'R18.15')),
            ('R18.16', 'profile_ctor', lambda c: _layer_profile_ctor(c, 'R18.16')),
            ('R18.17', 'class_ops', lambda c: _layer_class_ops(c, 'R18.17')),
            ('R18.18', 'kernel_args', lambda c: _layer_kernel_args(c, 'R18.18', (_ISI, _SPK, _SYN, _DIR)))],
}
for _pid, _items in _CHAINS.items():
    for _rid, _kind, _fn_ in _items:
        PROPS[_pid]['rules'] = list(PROPS[_pid]['rules']) + [_fn_]
        PROPS[_pid]['explanation'] += ' ' + _CHAIN_TXT[_kind].format(rid=_rid)
