"""Property -> rules table.  Every entry: level, rules (callables ctx -> [Ob]), min_instances (anti-vacuity),
explanation (what is decided, what is not), assumptions."""
from __future__ import annotations

from typing import Callable, Dict, List, Optional, Set

from .report import Ob
from .rules_siblings import SiblingEngine, r12_1_pairing, r12_2_routines
from .rules_projection import r12_3_projections
from .rules_effects import r13_1_no_param_written, r09_2_ownership, r_fresh_results, kernel_results_fresh
from .wrappers import r13_2_reconcile_dominates
from .rules_wrappers import (r_kernel_call_typestates, r05_1_route_identity, r14_1_dispatchers,
                             r14_4_positional_binding, r14_5_keyword_flow)
from .rules_indexkinds import r14_2_index_kinds, r06_4_matrix_fills
from .rules_guards import r18_1_guarded_divisions
from .rules_coincidence import r16_1_bounded_window, r03_5_limit_derivation, r03_2_strict_tests, r03_4_interpolate
from .rules_symmetry import r07_1_symmetry


def eng(ctx) -> SiblingEngine:
    return ctx.get('siblings', lambda c: SiblingEngine(c.repo))


def only_rules(fn: Callable, keep: Set[str]) -> Callable:
    """run a multi-rule function and keep only the obligations of the listed rules"""
    def g(ctx):
        return [o for o in fn(ctx) if o.rule in keep or o.rule.split('-')[0] in keep]
    return g


def relabel(fn: Callable, mapping: Dict[str, str]) -> Callable:
    def g(ctx):
        out = []
        for o in fn(ctx):
            if o.rule in mapping:
                o = Ob(mapping[o.rule], o.title, o.status, o.where, o.detail, o.key, o.construct, o.extra)
            out.append(o)
        return out
    return g


COMMON_ASSUMPTIONS = [
    "the .pyx dialect is the closed one of pyspike_sa/frontend.py (anything else is an ANALYSIS-ERROR); Cython's C-level "
    "semantics (cdivision, boundscheck=False, integer width) are not modelled",
    "canonical forms are exact over the reals, not over IEEE floats",
    "valid spike trains: strictly increasing finite times inside [t_start, t_end], t_start < t_end (the properties' quantifier)",
    "closed tables of copying / in-place numpy operations (pyspike_sa/effects.py) and of positive divisor classes (pyspike_sa/rules_guards.py)",
]

PROPS: Dict[str, dict] = {}
