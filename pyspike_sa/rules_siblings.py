"""Sibling rules (C12 and, restricted to a kernel set, the kernel properties):
R12.1 pairing table / build list, R12.2 routine equivalence, L2 / allocation side conditions."""
from __future__ import annotations

import ast
from typing import Callable, Dict, List, Optional, Set, Tuple

from . import canon as C
from .canon import Env
from .compare import Comparer, Side, Inconclusive, Mismatch
from .frontend import Repo, FuncInfo, FrontEndError
from .idioms import recognise_cursor_merge, recognise_add_merge, MergeRoles
from .ir import IRBuilder, assigned_names
from .kernels import Family, discover_families, helper_pairs
from .report import Ob, ok, violation, inconclusive, info

# length relations of the three function classes (lemma L3): value arrays relative to the breakpoint
# array of the same object.  Checked on the producer side by the extent rules (R18.3 / R09.4).
CLASS_VALUE_LEN_DELTA = {
    'PieceWiseConstFunc': 1,   # len(x) = len(y) + 1
    'PieceWiseLinFunc': 1,     # len(x) = len(y1) + 1 = len(y2) + 1
    'DiscreteFunc': 0,         # len(x) = len(y) = len(mp)
}


def _fn(fi: FuncInfo) -> str:
    return f"{fi.path}::{fi.name}"


# ----------------------------------------------------------------------------
def add_kernel_lens(fam: Family) -> Dict[str, Tuple[str, int]]:
    """For an `add` family: kernel parameter (by position) -> (breakpoint parameter, delta), read off the
    wrapper's call `impl(self.x, self.y, f.x, f.y)` and the class table."""
    cls = fam.wrapper.cls
    if cls not in CLASS_VALUE_LEN_DELTA:
        return {}
    delta = CLASS_VALUE_LEN_DELTA[cls]
    call = None
    for n in ast.walk(fam.wrapper.node):
        if isinstance(n, ast.Call) and isinstance(n.func, ast.Name) and n.func.id == fam.site.alias:
            call = n
    if call is None:
        return {}
    out: Dict[int, Tuple[int, int]] = {}
    xpos: Dict[str, int] = {}
    for k, a in enumerate(call.args):
        if isinstance(a, ast.Attribute) and isinstance(a.value, ast.Name) and a.attr == 'x':
            xpos[a.value.id] = k
    for k, a in enumerate(call.args):
        if isinstance(a, ast.Attribute) and isinstance(a.value, ast.Name) and a.attr != 'x' and a.value.id in xpos:
            out[k] = (xpos[a.value.id], delta)
    return out  # type: ignore[return-value]


def _lens_for(fi: FuncInfo, rel: Dict[int, Tuple[int, int]], rename: Dict[str, str]) -> Dict[str, Callable]:
    params = [a.arg for a in fi.node.args.args]
    lens: Dict[str, Callable] = {}
    for k, (xk, delta) in rel.items():
        if k >= len(params) or xk >= len(params):
            continue
        pn = rename.get(params[k], params[k])
        xn = rename.get(params[xk], params[xk])
        lens[pn] = (lambda xn=xn, delta=delta: (lambda env: C.sub(C.atom(('call', 'len', (C.atom(('n', xn)),))),
                                                                    C.const(delta))))()
    return lens


def positional_rename(src: FuncInfo, dst: FuncInfo, extra_src_params: Set[str] = frozenset()) -> Dict[str, str]:
    """Rename the parameters of `src` to the names of `dst`'s parameters at the same position
    (after dropping `extra_src_params`)."""
    ps = [a.arg for a in src.node.args.args if a.arg not in extra_src_params]
    pd = [a.arg for a in dst.node.args.args]
    ren = {}
    for a, b in zip(ps, pd):
        if a != b:
            ren[a] = b
    return ren


# ----------------------------------------------------------------------------
# L2: last-difference invariant   (0 <= c < N-1  ->  v == arr[c+1]-arr[c]  at the loop head)
# ----------------------------------------------------------------------------
def _is_increment(st, name: str) -> bool:
    if isinstance(st, ast.AugAssign) and isinstance(st.target, ast.Name) and st.target.id == name and isinstance(st.op, ast.Add):
        return True
    if isinstance(st, ast.Assign) and len(st.targets) == 1 and isinstance(st.targets[0], ast.Name) and st.targets[0].id == name \
            and isinstance(st.value, ast.BinOp) and isinstance(st.value.op, ast.Add):
        return any(isinstance(x, ast.Name) and x.id == name for x in (st.value.left, st.value.right))
    return False


def last_difference_invariants(fi: FuncInfo, roles: MergeRoles, rule: str) -> Tuple[List[Tuple[str, str, str, str]], List[Ob]]:
    """Variables v for which the invariant holds, with the obligations that establish it.
    Only variables that are *read in their own end-edge update* (the L2 reuse) are examined."""
    obs: List[Ob] = []
    found: List[Tuple[str, str, str, str]] = []
    env = Env()
    chain = roles.chain
    bodies = [chain[1][0][1], chain[1][1][1], chain[2]]
    for cur, n, arr in ((roles.c1, roles.n1, roles.arr1), (roles.c2, roles.n2, roles.arr2)):
        if arr is None:
            continue
        cand: Set[str] = set()
        # sub-ifs `if cur < n-1: v = arr[cur+1]-arr[cur] else: v = f(v)`
        exp_guard = C.mk_cmp('lt', C.atom(('n', cur)), C.add(C.atom(('n', n)), C.const(-1)))
        exp_val = C.sub(C.atom(('sub', ('n', arr), C.add(C.atom(('n', cur)), C.ONE))),
                        C.atom(('sub', ('n', arr), C.atom(('n', cur)))))
        sites = []
        all_ok = True
        for body in bodies:
            inc_seen = False
            for it in body:
                if it[0] == 'simple':
                    if _is_increment(it[1], cur):
                        inc_seen = True
                if it[0] == 'if' and len(it[1]) >= 1:
                    try:
                        g = C.canon_cond(it[1][0][0], env)
                    except C.CanonError:
                        continue
                    if g != exp_guard:
                        continue
                    # `if cur < n-1: v = next ISI` followed by the end-edge alternatives (an else branch that may
                    # itself be split on `N > 1`, as a conditional expression or as an else-if chain)
                    tb = it[1][0][1]
                    others = [alt[1] for alt in it[1][1:]] + [it[2]]

                    def assigns(body):
                        out = {}
                        for st in body:
                            if st[0] == 'simple' and isinstance(st[1], ast.Assign) and isinstance(st[1].targets[0], ast.Name):
                                out[st[1].targets[0].id] = st[1].value
                            elif st[0] == 'if':
                                subs = [assigns(a[1]) for a in st[1]] + [assigns(st[2])]
                                for nm in set.intersection(*[set(x) for x in subs]) if subs else ():
                                    out[nm] = [x[nm] for x in subs]
                        return out
                    tv = assigns(tb)
                    evs = [assigns(b) for b in others]
                    common = set(tv)
                    for e_ in evs:
                        common &= set(e_)
                    for v in common:
                        def reads(val):
                            if isinstance(val, list):
                                return any(reads(x) for x in val)
                            return any(isinstance(x, ast.Name) and x.id == v for x in ast.walk(val))
                        if not any(reads(e_[v]) for e_ in evs):
                            continue
                        if isinstance(tv[v], list):
                            continue
                        cand.add(v)
                        okv = inc_seen and C.canon_expr(tv[v], env) == exp_val
                        sites.append((v, it, okv))
        for v in sorted(cand):
            fn = _fn(fi)
            vs = [s for s in sites if s[0] == v]
            good = all(s[2] for s in vs)
            # every assignment to v inside the loop is one of those sites
            n_assign = 0
            for body in bodies:
                for x in ast.walk(ast.Module(body=[n_ for it in body for n_ in ([it[1]] if it[0] == 'simple' else [it[-1]])], type_ignores=[])):
                    if isinstance(x, ast.Name) and x.id == v and isinstance(x.ctx, ast.Store):
                        n_assign += 1
            def n_stores(it_):
                return sum(1 for x in ast.walk(it_[-1]) if isinstance(x, ast.Name) and x.id == v and isinstance(x.ctx, ast.Store))
            good &= (n_assign == sum(n_stores(s_[1]) for s_ in vs))
            # every advance of the cursor is followed by such a site
            n_inc = sum(1 for body in bodies for it in body if it[0] == 'simple' and _is_increment(it[1], cur))
            good &= (n_inc == len(vs))
            # initialisation: in the pre-loop `if arr[0] > t_start` item, the branch that sets cur = 0 assigns
            # v = arr[1]-arr[0] when N > 1
            init_ok = False
            for it in roles.pre:
                if it[0] == 'if' and len(it[1]) == 1 and cur in assigned_names([it]) and v in assigned_names([it]):
                    for body in (it[1][0][1], it[2]):
                        vals = {}
                        for st in body:
                            if st[0] == 'simple' and isinstance(st[1], ast.Assign) and isinstance(st[1].targets[0], ast.Name):
                                vals[st[1].targets[0].id] = st[1].value
                        d10 = C.sub(C.atom(('sub', ('n', arr), C.ONE)), C.atom(('sub', ('n', arr), C.ZERO)))
                        n_gt_1 = C.mk_cmp('gt', C.atom(('n', n)), C.ONE)
                        if cur in vals and isinstance(vals[cur], ast.Constant) and vals[cur].value == 0 and v in vals:
                            cv = C.canon_expr(vals[v], env)
                            sa = C.single_atom(cv)
                            if sa is not None and sa[0] == 'ifexp' and sa[1] == n_gt_1 and sa[2] == d10:
                                init_ok = True
                            elif cv == d10:
                                init_ok = True
                        elif cur in vals and isinstance(vals[cur], ast.Constant) and vals[cur].value == 0:
                            # the same initialisation spelled as a statement: `if N > 1: v = arr[1]-arr[0] else: ...`
                            for st in body:
                                if st[0] == 'if' and len(st[1]) == 1:
                                    try:
                                        g2 = C.canon_cond(st[1][0][0], env)
                                    except C.CanonError:
                                        continue
                                    tvs = {x[1].targets[0].id: x[1].value for x in st[1][0][1] if x[0] == 'simple'
                                           and isinstance(x[1], ast.Assign) and isinstance(x[1].targets[0], ast.Name)}
                                    if g2 == n_gt_1 and v in tvs and C.canon_expr(tvs[v], env) == d10:
                                        init_ok = True
            good &= init_ok
            title = (f"L2 premises for `{v}`: every advance of `{cur}` under `{cur} < {n}-1` assigns "
                     f"`{arr}[{cur}+1]-{arr}[{cur}]`, nothing else writes it, and the start-on-edge "
                     f"initialisation assigns `{arr}[1]-{arr}[0]`")
            if good:
                obs.append(ok(rule, title, fi.loc(), construct=f"{fn}::L2::{v}"))
                found.append((v, arr, cur, n))
            else:
                obs.append(violation(rule, title, fi.loc(), key=f"{fn}::L2::{v}",
                                     detail=f"sites={len(vs)} ok={[s[2] for s in vs]} stores={n_assign} "
                                            f"advances={n_inc} init_ok={init_ok}"))
    return found, obs


def make_l2_hook(invs: List[Tuple[str, str, str, str]], rename: Dict[str, str]):
    """Comparer hook: given the cursor facts of a branch, add `v -> arr[E+1]-arr[E]` for every invariant whose
    cursor is pinned to E."""
    def hook(facts: Dict[tuple, C.Term]) -> Dict[tuple, C.Term]:
        out = {}
        for v, arr, cur, n in invs:
            cv, ca, cc = rename.get(v, v), rename.get(arr, arr), rename.get(cur, cur)
            e = facts.get(('n', cc))
            if e is None:
                continue
            out[('n', cv)] = C.sub(C.atom(('sub', ('n', ca), C.add(e, C.ONE))), C.atom(('sub', ('n', ca), e)))
        return out
    return hook


# ----------------------------------------------------------------------------
def loopfree_paths_equal(fa: FuncInfo, fb: FuncInfo, rename_b: Dict[str, str], adapters, repo=None) -> Optional[Tuple[bool, int]]:
    """Two routines without loops, compared as functions from decisions to results: every path of each is executed
    symbolically; whenever a path of one and a path of the other can be taken together (their conditions do not
    contradict each other) they must return the same canonical value and perform the same stores.  For every input the
    two paths actually taken are such a pair, so agreement on all pairs is agreement on all inputs.  -> (equal, number
    of pairs compared), or None when a routine has a loop / cannot be executed symbolically."""
    for f in (fa, fb):
        if any(isinstance(n, (ast.While, ast.For, ast.Try, ast.With, ast.Yield)) for n in ast.walk(f.node)):
            return None
    if not adapters or not any(isinstance(c, ast.Call) and isinstance(c.func, ast.Name) and c.func.id in adapters for c in ast.walk(fa.node)):
        fb = _align_nested_selectors(fa, fb, repo)
    from .rules_classes import MethodPaths
    try:
        ra = MethodPaths(fa, call_adapters=adapters).run().results
        rb = MethodPaths(fb, rename=rename_b).run().results
    except (Inconclusive, C.CanonError, Exception):
        return None

    def expand(results):
        out = []
        for v, conds, env_, stores, node in results:
            if C.contradictory(conds):
                continue
            st = tuple((k, r[0], r[1], r[2]) for k, r in stores)
            if v is not None and C.is_poly(v):
                for v2, c2 in C.case_split(v, conds):
                    out.append((v2, frozenset(c2), st))
            else:
                out.append((v, frozenset(conds), st))
        return out
    pa, pb = expand(ra), expand(rb)
    if not pa or not pb or len(pa) * len(pb) > 40000:
        return None
    pairs = 0
    for va, ca, sa in pa:
        for vb, cb, sb in pb:
            both = list(ca | cb)
            if C.contradictory(both):
                continue
            pairs += 1
            va2 = C.simplify_minmax(C.resolve_ifexp(va, both), both) if va is not None and C.is_poly(va) else va
            vb2 = C.simplify_minmax(C.resolve_ifexp(vb, both), both) if vb is not None and C.is_poly(vb) else vb
            if va2 != vb2 or sa != sb:
                return False, pairs
    return (pairs > 0), pairs


def _align_nested_selectors(fa: FuncInfo, fb: FuncInfo, repo=None) -> FuncInfo:
    """Helpers are called by name.  When each of the two routines calls exactly one three-argument selector helper (a
    nested definition or a function of its own module) and the two compute the same selection - decided on the 13 weak
    orderings of their arguments - the helper of `fb` takes the name of its counterpart (in a copy): a renamed helper
    is the same helper."""
    import copy
    import dataclasses
    from .rules_coincidence import _weak_orderings, eval_interpolate

    def selectors(f: FuncInfo):
        nested = {n.name: n for n in ast.walk(f.node) if isinstance(n, ast.FunctionDef) and n is not f.node}
        out = {}
        for c in ast.walk(f.node):
            if isinstance(c, ast.Call) and isinstance(c.func, ast.Name) and len(c.args) == 3 and c.func.id not in out:
                h = nested.get(c.func.id)
                if h is None and repo is not None and repo.has_func(f.module, c.func.id):
                    h = repo.func(f.module, c.func.id).node
                if h is None or len(h.args.args) != 3:
                    continue
                try:
                    res = tuple(eval_interpolate(h, a, b, t)[1] for (a, b, t) in _weak_orderings(3))
                except Exception:
                    continue
                out[c.func.id] = res
        return out
    sa, sb = selectors(fa), selectors(fb)
    if len(sa) != 1 or len(sb) != 1:
        return fb
    (xa, ra), (xb, rb) = next(iter(sa.items())), next(iter(sb.items()))
    if xa == xb or ra != rb:
        return fb
    names_b = {n.id for n in ast.walk(fb.node) if isinstance(n, ast.Name)} | {a.arg for a in ast.walk(fb.node) if isinstance(a, ast.arg)}
    if xa in names_b:
        return fb
    node = copy.deepcopy(fb.node)
    for n in ast.walk(node):
        if isinstance(n, ast.FunctionDef) and n is not node and n.name == xb:
            n.name = xa
        elif isinstance(n, ast.Name) and n.id == xb:
            n.id = xa
    return dataclasses.replace(fb, node=node)


def orderings_equal(fa: FuncInfo, fb: FuncInfo) -> Optional[Tuple[bool, int]]:
    """Two three-argument routines that touch their arguments only through comparisons, min and max (the thresholded
    interpolation of the coincidence window): their results depend on the weak ordering of the arguments only, so the
    13 weak orderings of three values are an exact finite abstraction.  -> (same result on every ordering, 13), or None
    when a routine does anything else."""
    if len(fa.node.args.args) != 3 or len(fb.node.args.args) != 3:
        return None
    from .rules_coincidence import _weak_orderings, eval_interpolate
    n = 0
    for (a, b, t) in _weak_orderings(3):
        ra = eval_interpolate(fa.node, a, b, t)
        rb = eval_interpolate(fb.node, a, b, t)
        if ra is None or rb is None:
            return None
        n += 1
        if ra[1] != rb[1]:
            return False, n
    return True, n


def alloc_fully_written(fi: FuncInfo, name: str, size: int) -> bool:
    """`name` (np.empty(size), size a small constant) has every cell stored through a constant index before it is
    read: by unconditional statements, or in every arm of an if / elif / else (the cells written on all arms count),
    in front of the first other compound statement that mentions it."""
    bld = IRBuilder()
    items = bld.build(fi.node.body)
    full = set(range(size))

    def mentions(node) -> bool:
        return any(isinstance(x, ast.Name) and x.id == name for x in ast.walk(node))

    def scan(seq, written: Set[int]):
        """-> (cells certainly written after `seq`, False if the array is read while cells are missing, stopped)"""
        for it in seq:
            if it[0] == 'simple':
                st = it[1]
                if isinstance(st, ast.Assign):
                    stored = False
                    for t in st.targets:
                        if isinstance(t, ast.Subscript) and isinstance(t.value, ast.Name) and t.value.id == name \
                                and isinstance(t.slice, ast.Constant) and isinstance(t.slice.value, int):
                            if not any(isinstance(x, ast.Name) and x.id == name for x in ast.walk(st.value)):
                                written = written | {t.slice.value}
                            stored = True
                    if stored:
                        continue
                    reads = any(isinstance(x, ast.Name) and x.id == name and isinstance(x.ctx, ast.Load) for x in ast.walk(st.value))
                    if reads and written != full:
                        return written, False, True
                elif mentions(st) and written != full:
                    return written, False, True
            elif it[0] == 'if':
                if any(mentions(test) for test, _b, _n in it[1]) and written != full:
                    return written, False, True
                outs = []
                for _test, body, _n in it[1]:
                    w, okay, stopped = scan(body, set(written))
                    if not okay:
                        return written, False, True
                    outs.append((w, stopped))
                w, okay, stopped = scan(it[2], set(written))
                if not okay:
                    return written, False, True
                outs.append((w, stopped))
                written = set.intersection(*[w_ for w_, _ in outs])
                if any(st_ for _, st_ in outs):
                    return written, True, True
            elif it[0] in ('def', 'import', 'assert'):
                continue
            else:
                if mentions(it[-1]):
                    return written, True, True
        return written, True, False
    w, okay, _stopped = scan(items, set())
    return okay and w == full


# ----------------------------------------------------------------------------
class SiblingEngine:
    """Builds and runs all sibling comparisons once per process; rules pick the results they need."""

    def __init__(self, repo: Repo):
        self.repo = repo
        self.families, self.sites = discover_families(repo)
        self.helpers = helper_pairs(repo, self.families)
        # the interpolation helper of get_tau is paired by role (the three-argument function called with MRTS last),
        # so that the two copies may call it differently
        try:
            from .rules_coincidence import interpolate_copies
            cps = interpolate_copies(repo)
            px = [f for f in cps if repo.module(f.module).is_pyx]
            py = [f for f in cps if not repo.module(f.module).is_pyx]
            if len(px) == 1 and len(py) == 1 and px[0].name.split('.')[-1] != py[0].name.split('.')[-1]:
                self.helpers.append((px[0], py[0]))
        except Exception:
            pass
        self.roles: Dict[str, MergeRoles] = {}
        self.role_obs: Dict[str, List[Ob]] = {}
        self.results: Dict[str, dict] = {}
        self._helper_extra: Dict[str, Set[str]] = {}

    # -- idiom roles (cached)
    def roles_of(self, fi: FuncInfo, rule: str = 'R01.1') -> Tuple[Optional[MergeRoles], List[Ob]]:
        k = fi.qual
        if k not in self.roles:
            is_add = fi.name.startswith('add_') or any(fam.wrapper.name.endswith('.add') and fi in (fam.py, fam.pyx)
                                                      for fam in self.families)
            r, obs = (recognise_add_merge if is_add else recognise_cursor_merge)(fi, rule)
            self.roles[k] = r
            self.role_obs[k] = obs
        return self.roles[k], self.role_obs[k]

    def has_merge_loop(self, fi: FuncInfo) -> bool:
        for n in ast.walk(fi.node):
            if isinstance(n, ast.While):
                for s in n.body:
                    if isinstance(s, ast.If) and len(s.orelse) == 1 and isinstance(s.orelse[0], ast.If):
                        return True
        return False

    # -- call adapters for helpers with extra parameters (get_min_dist_cython's N)
    def _adapters(self, adapter_obs: List[Ob], rule: str) -> Dict[str, Callable]:
        adapters: Dict[str, Callable] = {}
        for hx, hp in self.helpers:
            px = [a.arg for a in hx.node.args.args]
            pp = [a.arg for a in hp.node.args.args]
            extra = [p for p in px if p not in pp] if len(px) > len(pp) else []
            if hx.name == hp.name and not extra:
                continue
            drop = [px.index(p) for p in extra]
            self._helper_extra[hx.qual] = set(extra)

            def mk(hx=hx, hp=hp, drop=drop, px=px):
                def adapt(fn, args, env):
                    # extra integer parameter must be the length of the array parameter it bounds
                    for d in drop:
                        if d < len(args):
                            got = args[d]
                            arr_pos = None
                            # the array parameter: first parameter with memoryview type
                            for k, p in enumerate(px):
                                if hx.ctypes.get(p, '').startswith('double['):
                                    arr_pos = k
                                    break
                            want = None
                            if arr_pos is not None and arr_pos < len(args):
                                a0 = args[arr_pos]
                                sa = C.single_atom(a0) if C.is_poly(a0) else a0
                                want = env.lens.get(sa) if sa is not None else None
                                if want is None:
                                    want = C.atom(('call', 'len', (a0,)))
                            if want is None or got != want:
                                return fn + '!bad-length-arg', args
                    new = [a for k, a in enumerate(args) if k not in drop]
                    return hp.name.split('.')[-1], new          # (a nested helper is called by its own name)
                return adapt
            adapters[hx.name] = mk()
        return adapters

    def _side(self, fi: FuncInfo, label: str, rename=None, lens=None) -> Side:
        return Side(fi, rename=rename or {}, lens=lens or {}, label=label)

    def compare_pair(self, pyx: FuncInfo, py: FuncInfo, rule: str, fam: Optional[Family] = None) -> dict:
        key = f"{pyx.qual}~{py.qual}"
        if key in self.results:
            return self.results[key]
        obs: List[Ob] = []
        title = f"{pyx.name} ~ {py.name}"
        extra = self._helper_extra.get(pyx.qual, set())
        ren_py = positional_rename(py, pyx, set())
        if extra:
            # helper with extra params: rename py params to pyx names skipping the extra ones
            ps = [a.arg for a in pyx.node.args.args if a.arg not in extra]
            pd = [a.arg for a in py.node.args.args]
            ren_py = {b: a for a, b in zip(ps, pd) if a != b}
        a = self._side(pyx, 'pyx')
        b = self._side(py, 'py', rename=ren_py)
        adapters = self._adapters(obs, rule)
        a.call_adapters = adapters
        cursors: List[str] = []
        roles_x = roles_p = None
        if self.has_merge_loop(pyx) and self.has_merge_loop(py):
            roles_x, ox = self.roles_of(pyx)
            roles_p, op = self.roles_of(py)
            if roles_x and roles_p and roles_x.ok and roles_p.ok:
                cx = [roles_x.c1, roles_x.c2]
                cp = [ren_py.get(roles_p.c1, roles_p.c1), ren_py.get(roles_p.c2, roles_p.c2)]
                if cx == cp:
                    cursors = cx
        if fam is not None:
            rel = add_kernel_lens(fam)
            if rel:
                a.lens = _lens_for(pyx, rel, {})
                b.lens = _lens_for(py, rel, ren_py)
        if extra:
            # inside the helper: the extra parameter N stands for len(<array parameter>)
            px = [p.arg for p in pyx.node.args.args]
            arrp = next((p for p in px if pyx.ctypes.get(p, '').startswith('double[')), None)
            if arrp:
                for e in extra:
                    a.rename = dict(a.rename)
                    a.init = {e: C.atom(('call', 'len', (C.atom(('n', arrp)),)))}  # type: ignore[attr-defined]
        cmp = Comparer(a, b, cursors=cursors, title=title)
        self._last_sides = (a, b)
        # L2 hook on the pyx side
        l2_obs: List[Ob] = []
        if roles_x is not None and roles_x.ok and roles_x.kind == 'cursor':
            invs, l2_obs = last_difference_invariants(pyx, roles_x, 'R12.2-L2')
            if invs:
                cmp.hook_a = make_l2_hook(invs, {})  # type: ignore[attr-defined]
        res = {'title': title, 'pyx': pyx, 'py': py, 'obs': obs, 'points': 0, 'mismatches': [], 'inconclusive': None,
               'l2': l2_obs, 'info': []}
        try:
            if extra:
                # remove the extra parameter from the signature comparison by renaming trick: compare manually
                pass
            cmp.extra_params_a = extra  # type: ignore[attr-defined]
            cmp.run()
            if cmp.mismatches:
                better = self._retry_with_local_pairings(pyx, py, a, b, cursors, title, extra, getattr(cmp, 'hook_a', None))
                if better is not None:
                    cmp = better
            res['points'] = cmp.points
            res['mismatches'] = cmp.mismatches
            res['info'] = cmp.info
            if cmp.mismatches:
                pe_ = loopfree_paths_equal(pyx, py, ren_py, adapters, self.repo)
                if not (pe_ is not None and pe_[0]):
                    pe_ = orderings_equal(pyx, py) or pe_
                if pe_ is not None and pe_[0]:
                    # decided on values instead: every pair of compatible paths returns the same value with the same stores
                    res['mismatches'] = []
                    res['points'] = max(res['points'], pe_[1])
                    res['info'] = list(cmp.info) + [f"decided by path enumeration ({pe_[1]} compatible path pairs)"]
                    cmp.alloc_kind_diffs = []
            # allocation kind differences must be harmless
            for cn, ka, kb, na, nb in cmp.alloc_kind_diffs:
                kinds = {ka, kb}
                szok = False
                if 'empty' in kinds:
                    which = pyx if ka == 'empty' else py
                    local = cn
                    if which is py:
                        inv = {v: k for k, v in ren_py.items()}
                        local = inv.get(cn, cn)
                    # constant size?
                    size = None
                    for x in ast.walk(which.node):
                        if isinstance(x, ast.Assign) and len(x.targets) == 1 and isinstance(x.targets[0], ast.Name) \
                                and x.targets[0].id == local and isinstance(x.value, ast.Call) and x.value.args \
                                and isinstance(x.value.args[0], ast.Constant):
                            size = x.value.args[0].value
                    if isinstance(size, int) and size <= 8:
                        szok = alloc_fully_written(which, local, size)
                t = (f"{title}: `{cn}` allocated with np.{ka} on one side and np.{kb} on the other is fully "
                     f"overwritten before it is read")
                where = f"{pyx.path}:{getattr(na, 'lineno', 0)} / {py.path}:{getattr(nb, 'lineno', 0)}"
                if szok:
                    obs.append(ok(rule, t, where, construct=f"{_fn(pyx)}::alloc::{cn}"))
                else:
                    obs.append(violation(rule, t, where, key=f"{_fn(pyx)}~{_fn(py)}::alloc-kind::{cn}",
                                         detail=f"np.{ka} vs np.{kb}"))
        except Inconclusive as e:
            res['inconclusive'] = str(e)
        except C.CanonError as e:
            res['inconclusive'] = f"{title}: canonicaliser: {e}"
        if res['inconclusive']:
            pe_ = loopfree_paths_equal(pyx, py, ren_py, adapters, self.repo)
            if not (pe_ is not None and pe_[0]):
                pe_ = orderings_equal(pyx, py) or pe_
            if pe_ is not None and pe_[0]:
                res['inconclusive'] = None
                res['mismatches'] = []
                res['points'] = pe_[1]
                res['info'] = [f"decided by path enumeration ({pe_[1]} compatible path pairs)"]
        self.results[key] = res
        return res

    def _retry_with_local_pairings(self, pyx, py, a: Side, b: Side, cursors, title, extra, hook_a):
        """A local renamed on one side only breaks name-based matching.  Try the pairings of unmatched locals (few);
        a pairing is accepted only if the whole comparison then succeeds - otherwise the original report stands."""
        import itertools

        def locals_of(fi):
            params = {x.arg for x in fi.node.args.args}
            return [n for n in dict.fromkeys(x.id for x in ast.walk(fi.node) if isinstance(x, ast.Name) and isinstance(x.ctx, ast.Store))
                    if n not in params]
        la = [a.cn(n) for n in locals_of(pyx)]
        lb_raw = locals_of(py)
        lb = [b.rename.get(n, n) for n in lb_raw]
        only_a = [n for n in la if n not in lb]
        only_b = [n for n in lb_raw if b.rename.get(n, n) not in la]
        if not only_a or not only_b or len(only_b) > 6 or len(only_a) > 7:
            return None
        # pair k one-sided locals of the fallback with k of the compiled side (largest k first); the remaining ones
        # stay unpaired (temporaries that exist on one side only)
        tries = []
        for k in range(min(len(only_a), len(only_b)), 0, -1):
            for sub_b in itertools.combinations(only_b, k):
                for combo in itertools.permutations(only_a, k):
                    tries.append((sub_b, combo))
                    if len(tries) > 400:
                        break
        for sub_b, combo in tries[:400]:
            ren = dict(b.rename)
            for raw, tgt in zip(sub_b, combo):
                ren[raw] = tgt
            a2 = Side(pyx, rename=dict(a.rename), lens=a.lens, label='pyx')
            a2.call_adapters = a.call_adapters
            a2.init = dict(a.init)
            b2 = Side(py, rename=ren, lens=b.lens, label='py')
            b2.call_adapters = b.call_adapters
            c2 = Comparer(a2, b2, cursors=cursors, title=title)
            c2.extra_params_a = extra
            c2.hook_a = hook_a
            try:
                c2.run()
            except Exception:
                continue
            if not c2.mismatches:
                c2.info.append(f"{title}: locals paired {dict(zip(sub_b, combo))} (one-sided renaming)")
                return c2
        return None

    # ------------------------------------------------------------------
    def pair_obligations(self, pyx: FuncInfo, py: FuncInfo, rule: str, fam: Optional[Family] = None) -> List[Ob]:
        res = self.compare_pair(pyx, py, rule, fam)
        out: List[Ob] = list(res['obs']) + list(res['l2'])
        where = f"{pyx.path}:{pyx.node.lineno} / {py.path}:{py.node.lineno}"
        title = f"{res['title']}: compiled source and Python fallback are equal after normalisation"
        if res['inconclusive']:
            out.append(inconclusive(rule, title, where, res['inconclusive'], construct=f"{_fn(pyx)}~{_fn(py)}"))
            return out
        mm: List[Mismatch] = res['mismatches']
        if not mm:
            out.append(ok(rule, title, where, construct=f"{_fn(pyx)}~{_fn(py)}",
                          detail=f"{res['points']} aligned points compared", points=res['points']))
        seen = set()
        for m in mm:
            k = m.key()
            if k in seen:
                continue
            seen.add(k)
            out.append(violation(rule, f"{res['title']}: {m.what}", f"{m.loc_a} / {m.loc_b}",
                                 key=f"{_fn(pyx)}~{_fn(py)}::{m.kind}::{m.what}::{m.form_a}::{m.form_b}",
                                 detail=f"compiled: {m.form_a}\nfallback: {m.form_b}\nin: {m.ctx}",
                                 construct=f"{_fn(pyx)}~{_fn(py)}::{m.kind}::{m.ctx}"))
        return out

    def family_of(self, fi: FuncInfo) -> Optional[Family]:
        for f in self.families:
            if fi in (f.py, f.pyx, f.single):
                return f
        return None

    def all_pairs(self) -> List[Tuple[FuncInfo, FuncInfo, Optional[Family]]]:
        out = [(f.pyx, f.py, f) for f in self.families]
        out += [(hx, hp, None) for hx, hp in self.helpers]
        return out


# ----------------------------------------------------------------------------
def r12_1_pairing(eng: SiblingEngine) -> List[Ob]:
    repo = eng.repo
    rule = 'R12.1'
    obs: List[Ob] = []
    # dispatch sites well formed
    for s in eng.sites:
        t = f"dispatch site in {s.fi.name}: compiled `{s.compiled_symbol}` / fallback"
        if s.kind == 'paired':
            okx = repo.has_func(s.compiled_module, s.compiled_symbol)
            okp = repo.has_func(s.fallback_module or '', s.fallback_symbol or '')
            if okx and okp:
                obs.append(ok(rule, t + f" `{s.fallback_symbol}` both exist and share the alias `{s.alias}`",
                              s.where, construct=f"{_fn(s.fi)}::dispatch::{s.compiled_symbol}"))
            else:
                obs.append(violation(rule, t + " both exist", s.where,
                                     key=f"{_fn(s.fi)}::dispatch-missing::{s.compiled_symbol}",
                                     detail=f"compiled exists={okx}, fallback `{s.fallback_symbol}` exists={okp}"))
        elif s.kind == 'paired-alias-mismatch':
            obs.append(violation(rule, t + " bind the same alias", s.where,
                                 key=f"{_fn(s.fi)}::dispatch-alias::{s.compiled_symbol}"))
        elif s.kind == 'single':
            okx = repo.has_func(s.compiled_module, s.compiled_symbol)
            fam = next((f for f in eng.families if f.single_site is s), None)
            if okx and fam is not None:
                obs.append(ok(rule, t + f" route through `{fam.wrapper.name}` (profile kernel `{fam.py.name}`)",
                              s.where, construct=f"{_fn(s.fi)}::dispatch::{s.compiled_symbol}"))
            elif not okx:
                obs.append(violation(rule, t + " exists", s.where,
                                     key=f"{_fn(s.fi)}::dispatch-missing::{s.compiled_symbol}"))
            else:
                obs.append(inconclusive(rule, t + " route reaches a profile wrapper", s.where,
                                        construct=f"{_fn(s.fi)}::dispatch::{s.compiled_symbol}"))
        else:
            obs.append(info(rule, f"{s.fi.name}: `{s.compiled_symbol}` has no Python fallback (raises)", s.where))
    # build list: every compiled module imported or cimported is built by setup.py (both branches)
    setup = repo.modules.get('setup')
    needed: Set[str] = {s.compiled_module for s in eng.sites}
    for mi in repo.modules.values():
        if mi.is_pyx:
            for line in mi.source.split('\n'):
                if 'cimport' in line and 'pyspike.cython.' in line:
                    for tok in line.replace('#', ' ').split():
                        if tok.startswith('pyspike.cython.'):
                            needed.add(tok)
    if setup is None:
        obs.append(inconclusive(rule, 'setup.py present', 'setup.py'))
    else:
        ext_lists: List[Tuple[int, Set[str], Set[str]]] = []
        for n in ast.walk(setup.tree):
            if isinstance(n, ast.AugAssign) and isinstance(n.value, ast.List):
                mods, srcs = set(), set()
                for e in n.value.elts:
                    if isinstance(e, ast.Call) and getattr(e.func, 'id', '') == 'Extension' and len(e.args) >= 2:
                        if isinstance(e.args[0], ast.Constant):
                            mods.add(e.args[0].value)
                        if isinstance(e.args[1], ast.List):
                            for s_ in e.args[1].elts:
                                if isinstance(s_, ast.Constant):
                                    srcs.add(s_.value)
                if mods:
                    ext_lists.append((n.lineno, mods, srcs))
        if not ext_lists:
            obs.append(inconclusive(rule, 'setup.py lists extension modules', 'setup.py'))
        for ln, mods, srcs in ext_lists:
            for m in sorted(needed):
                t = f"setup.py builds `{m}` (extension list at line {ln})"
                if m in mods:
                    base = m.replace('.', '/')
                    src_ok = any(s_.startswith(base + '.') for s_ in srcs)
                    if src_ok:
                        obs.append(ok(rule, t, f"setup.py:{ln}", construct=f"setup.py::ext{ln}::{m}"))
                    else:
                        obs.append(violation(rule, t + ' from its own source file', f"setup.py:{ln}",
                                             key=f"setup.py::ext-source::{m}"))
                else:
                    obs.append(violation(rule, t, f"setup.py:{ln}", key=f"setup.py::ext-missing::{m}",
                                         detail="a module that is never built silently falls back to Python"))
    # compiled public routines that nothing imports
    used = {(s.compiled_module, s.compiled_symbol) for s in eng.sites}
    for f in repo.all_functions(pyx=True):
        mi = repo.module(f.module)
        if mi.pyx and f.name in mi.pyx.cdef_funcs:
            continue
        if (f.module, f.name) not in used:
            obs.append(info(rule, f"compiled routine `{f.name}` is imported by no dispatch site (unreachable)", f.loc()))
    return obs


def r12_2_routines(eng: SiblingEngine, only: Optional[Set[str]] = None, rule: str = 'R12.2') -> List[Ob]:
    obs: List[Ob] = []
    for pyx, py, fam in eng.all_pairs():
        if only is not None and py.name not in only and pyx.name not in only:
            continue
        obs.extend(eng.pair_obligations(pyx, py, rule, fam))
    return obs
