"""R06.2 / R05.5: `_generic_profile_multi` sums the pair profile of *every* pair of its pair list exactly once.

The library computes that sum with a recursive helper nested in `_generic_profile_multi` (divide and conquer over
the pair list).  The rule does not depend on how the recursion is spelled (one list split in two calls, two lists
handled by one call, the split point kept in a local ...): it evaluates every path of the helper and of the
enclosing function over a small abstract domain

    list value   ('list', root, lo, hi)      the slice root[lo:hi] of a pair list (`root` = a parameter / a local)
    element      ('elem', root, k)           root[k]
    component    ('comp', root, k, c)        root[k][c]
    profile      ('sum', contributions)      a profile object = sum of contributions, a contribution being
                                             ('rec', R, slices) - the result of R on those slices - or ('leaf', root, k)

`A.add(B)` adds B's contributions to A.  By induction over the length of the lists (every recursive call receives
strictly shorter, non-empty slices) the helper returns the sum over all elements of all its list parameters when on
every path and for every list parameter P

    under `len(P) > 1`        the contributions taken from P are exactly the two complementary slices P[:e], P[e:]
                              with e = len(P)//2 (or (len(P)+1)//2): both non-empty and shorter than P;
    under `not len(P) > 1`    the contribution is exactly the leaf on P[0]: the pair function applied to
                              (trains[P[0][0]], trains[P[0][1]], **kwargs).

The enclosing function must hand the whole pair list to the helper (or split it the same way under `L > 1` and
evaluate the single pair itself otherwise) and return the resulting profile together with len(<that list>).
"""
from __future__ import annotations

import ast
from typing import Dict, List, Optional, Set, Tuple

from . import canon as C
from .canon import Env
from .frontend import FuncInfo
from .report import Ob, ok, violation, inconclusive


class _Undecided(Exception):
    pass


def _fn(f: FuncInfo) -> str:
    return f"{f.path}::{f.name}"


class _Eval:
    def __init__(self, node: ast.FunctionDef, recursive: Dict[str, ast.FunctionDef], trains: str, pairfn: str, kw: Optional[str],
                 helpers: Optional[Dict[str, ast.FunctionDef]] = None):
        self.node = node
        self.rec = recursive
        self.helpers = helpers or {}
        self.trains, self.pairfn, self.kw = trains, pairfn, kw
        self.results: List[Tuple[object, List[tuple], ast.AST]] = []
        self.paths = 0

    # ---- expressions -------------------------------------------------------------------------
    def as_list(self, v):
        if isinstance(v, tuple) and v and v[0] == 'list':
            return v
        if isinstance(v, tuple) and v and v[0] == 'var':
            return ('list', v[1], None, None)
        return None

    def ev(self, e: ast.AST, env: Dict[str, object], cenv: Env):
        if isinstance(e, ast.Name):
            return env.get(e.id, ('var', e.id))
        if isinstance(e, ast.Tuple):
            return ('tuple', tuple(self.ev(x, env, cenv) for x in e.elts))
        if isinstance(e, ast.Subscript):
            base = self.ev(e.value, env, cenv)
            if isinstance(e.slice, ast.Slice):
                lst = self.as_list(base)
                if lst is None or e.slice.step is not None:
                    return ('opaque', ast.unparse(e))
                if lst[2] is not None or lst[3] is not None:
                    raise _Undecided(f"slice of a slice: {ast.unparse(e)}")
                try:
                    lo = C.canon_expr(e.slice.lower, cenv) if e.slice.lower is not None else None
                    hi = C.canon_expr(e.slice.upper, cenv) if e.slice.upper is not None else None
                except C.CanonError as ex:
                    raise _Undecided(str(ex))
                return ('list', lst[1], lo, hi)
            if isinstance(e.slice, ast.Constant) and isinstance(e.slice.value, int):
                k = e.slice.value
                lst = self.as_list(base)
                if lst is not None and lst[2] is None and lst[3] is None:
                    return ('elem', lst[1], k)
                if isinstance(base, tuple) and base[0] == 'elem':
                    return ('comp', base[1], base[2], k)
                if isinstance(base, tuple) and base[0] == 'tuple' and 0 <= k < len(base[1]):
                    return base[1][k]
            return ('opaque', ast.unparse(e))
        if isinstance(e, ast.Call):
            if isinstance(e.func, ast.Name) and e.func.id in self.rec:
                args = []
                for a in e.args:
                    lst = self.as_list(self.ev(a, env, cenv))
                    if lst is None:
                        raise _Undecided(f"argument of the recursive helper is not a pair list: {ast.unparse(a)}")
                    args.append(lst[1:])
                if e.keywords:
                    raise _Undecided(f"keyword arguments in {ast.unparse(e)[:60]}")
                return ('sum', (('rec', e.func.id, tuple(args), ast.unparse(e)),))
            if isinstance(e.func, ast.Name) and e.func.id == self.pairfn:
                return ('sum', (self.leaf(e, env, cenv),))
            if isinstance(e.func, ast.Name) and e.func.id in getattr(self, 'helpers', {}) and not e.keywords:
                # a nested helper that is one expression (say the evaluation of a single pair): evaluated in place
                h = self.helpers[e.func.id]
                body = [s_ for s_ in h.body if not (isinstance(s_, ast.Expr) and isinstance(s_.value, ast.Constant))]
                ps = [a.arg for a in h.args.args]
                if len(body) == 1 and isinstance(body[0], ast.Return) and body[0].value is not None and len(ps) == len(e.args) \
                        and not h.args.vararg and not h.args.kwarg:
                    env2 = dict(env)
                    for p_, a_ in zip(ps, e.args):
                        env2[p_] = self.ev(a_, env, cenv)
                    return self.ev(body[0].value, env2, cenv)
                # ... or a few plain assignments (say the unpacking of the pair) in front of the one return
                if body and isinstance(body[-1], ast.Return) and body[-1].value is not None and len(ps) == len(e.args) \
                        and not h.args.vararg and not h.args.kwarg and len(body) <= 6 \
                        and all(isinstance(s_, ast.Assign) and len(s_.targets) == 1 and (
                            isinstance(s_.targets[0], ast.Name) or (isinstance(s_.targets[0], ast.Tuple)
                                                                    and all(isinstance(x_, ast.Name) for x_ in s_.targets[0].elts)))
                                for s_ in body[:-1]):
                    env2 = dict(env)
                    for p_, a_ in zip(ps, e.args):
                        env2[p_] = self.ev(a_, env, cenv)
                    for s_ in body[:-1]:
                        val = self.ev(s_.value, env2, cenv)
                        tg = s_.targets[0]
                        if isinstance(tg, ast.Name):
                            if val[0] == 'opaque':
                                env2.pop(tg.id, None)
                            else:
                                env2[tg.id] = val
                        else:
                            for k_, x_ in enumerate(tg.elts):
                                if val[0] == 'elem':
                                    env2[x_.id] = ('comp', val[1], val[2], k_)
                                elif val[0] == 'tuple' and len(val[1]) == len(tg.elts):
                                    env2[x_.id] = val[1][k_]
                                else:
                                    env2.pop(x_.id, None)
                    return self.ev(body[-1].value, env2, cenv)
                raise _Undecided(f"nested helper `{e.func.id}` is more than one expression")
            return ('opaque', ast.unparse(e))
        return ('opaque', ast.unparse(e))

    def leaf(self, e: ast.Call, env, cenv):
        txt = ast.unparse(e)
        fw = [k for k in e.keywords if k.arg is None and isinstance(k.value, ast.Name) and k.value.id == self.kw]
        if len(e.args) != 2 or len(fw) != 1 or len(e.keywords) != 1:
            return ('badleaf', txt, 'expected (train, train, **kwargs)')
        comps = []
        for a in e.args:
            if not (isinstance(a, ast.Subscript) and isinstance(a.value, ast.Name) and a.value.id == self.trains
                    and a.value.id not in env):
                return ('badleaf', txt, f"`{ast.unparse(a)}` is not an element of `{self.trains}`")
            comps.append(self.ev(a.slice, env, cenv))
        c0, c1 = comps
        if not (isinstance(c0, tuple) and c0[0] == 'comp' and isinstance(c1, tuple) and c1[0] == 'comp'):
            return ('badleaf', txt, 'the trains are not addressed by the two components of one pair')
        if c0[1:3] != c1[1:3] or (c0[3], c1[3]) != (0, 1):
            return ('badleaf', txt, f"components {c0[1]}[{c0[2]}][{c0[3]}], {c1[1]}[{c1[2]}][{c1[3]}]: expected P[k][0], P[k][1]")
        return ('leaf', c0[1], c0[2], txt)

    # ---- statements --------------------------------------------------------------------------
    def run(self, list_roots: List[str]):
        self.list_roots = set(list_roots)
        env: Dict[str, object] = {}
        cenv = Env()
        self.block(self.node.body, env, cenv, [], lambda env_, cenv_, conds_: None)
        return self

    def block(self, stmts: List[ast.stmt], env, cenv, conds, cont):
        """continuation-passing walk: `cont(env, cenv, conds)` runs what follows the block on every path"""
        if not stmts:
            return cont(env, cenv, conds)
        st, rest = stmts[0], stmts[1:]
        nxt = lambda env_, cenv_, conds_: self.block(rest, env_, cenv_, conds_, cont)
        self.paths += 1
        if self.paths > 4000:
            raise _Undecided('too many paths')
        if isinstance(st, (ast.FunctionDef, ast.ClassDef, ast.Pass, ast.Assert, ast.Import, ast.ImportFrom)):
            return nxt(env, cenv, conds)
        if isinstance(st, ast.Expr):
            v = st.value
            if isinstance(v, ast.Call) and isinstance(v.func, ast.Attribute) and v.func.attr == 'add' and isinstance(v.func.value, ast.Name) \
                    and len(v.args) == 1 and not v.keywords:
                a = env.get(v.func.value.id)
                b = self.ev(v.args[0], env, cenv)
                if isinstance(a, tuple) and a[0] == 'sum':
                    if not (isinstance(b, tuple) and b[0] == 'sum'):
                        raise _Undecided(f"`{ast.unparse(st)}` adds something that is not a pair profile of this function")
                    env = dict(env)
                    new = ('sum', a[1] + b[1])
                    # the object is updated in place: every name bound to it sees the sum
                    for k_, v_ in list(env.items()):
                        if v_ is a:
                            env[k_] = new
                    return nxt(env, cenv, conds)
            elif isinstance(v, ast.Call):
                for x in ast.walk(v):
                    if isinstance(x, ast.Call) and isinstance(x.func, ast.Name) and (x.func.id in self.rec or x.func.id == self.pairfn):
                        raise _Undecided(f"result of `{ast.unparse(x)[:60]}` is discarded or used in an unknown way")
            return nxt(env, cenv, conds)
        if isinstance(st, ast.Assign) and len(st.targets) == 1:
            tg = st.targets[0]
            val = self.ev(st.value, env, cenv)
            env = dict(env)
            cenv = cenv.copy()
            if isinstance(tg, ast.Name):
                env[tg.id] = val
                cenv.vals.pop(tg.id, None)
                if (val[0] == 'opaque' or val[0] == 'var') and _scalar_expr(st.value):
                    try:
                        cenv.vals[tg.id] = C.canon_expr(st.value, cenv)
                    except C.CanonError:
                        pass
                if val[0] == 'opaque':
                    env.pop(tg.id, None)
                return nxt(env, cenv, conds)
            if isinstance(tg, ast.Tuple) and all(isinstance(x, ast.Name) for x in tg.elts):
                for k, x in enumerate(tg.elts):
                    cenv.vals.pop(x.id, None)
                    if val[0] == 'elem':
                        env[x.id] = ('comp', val[1], val[2], k)
                    elif val[0] == 'tuple' and len(val[1]) == len(tg.elts):
                        env[x.id] = val[1][k]
                    else:
                        env.pop(x.id, None)
                return nxt(env, cenv, conds)
            # stores into containers do not concern the sum
            return nxt(env, cenv, conds)
        if isinstance(st, ast.AugAssign):
            if isinstance(st.target, ast.Name):
                env = dict(env)
                env.pop(st.target.id, None)
                cenv = cenv.copy()
                cenv.vals.pop(st.target.id, None)
            return nxt(env, cenv, conds)
        if isinstance(st, ast.If):
            try:
                c = C.canon_cond(st.test, cenv)
            except C.CanonError:
                c = ('opaque', ast.unparse(st.test))
            self.block(st.body, env, cenv, conds + [c], nxt)
            notc = C.mk_not(c) if c[0] != 'opaque' else ('opaque-not', c[1])
            self.block(st.orelse, env, cenv, conds + [notc], nxt)
            return
        if isinstance(st, ast.Return):
            self.results.append((self.ev(st.value, env, cenv) if st.value is not None else None, conds, st))
            return
        if isinstance(st, ast.Raise):
            return
        if isinstance(st, (ast.For, ast.While, ast.Try, ast.With)):
            for x in ast.walk(st):
                if isinstance(x, ast.Call) and isinstance(x.func, ast.Name) and (x.func.id in self.rec or x.func.id == self.pairfn):
                    raise _Undecided(f"the pair profiles are combined inside a `{type(st).__name__.lower()}` statement")
            # names bound inside are unknown afterwards
            env = dict(env)
            cenv = cenv.copy()
            for x in ast.walk(st):
                if isinstance(x, ast.Name) and isinstance(x.ctx, ast.Store):
                    env.pop(x.id, None)
                    cenv.vals.pop(x.id, None)
            return nxt(env, cenv, conds)
        return nxt(env, cenv, conds)


def _scalar_expr(e: ast.AST) -> bool:
    """integer arithmetic over lengths and names (what split points and counts are made of); a list, an array or the
    result of an arbitrary call is not substituted for its name"""
    for n in ast.walk(e):
        if isinstance(n, ast.Call):
            if not (isinstance(n.func, ast.Name) and n.func.id in ('len', 'int', 'min', 'max')):
                return False
        elif not isinstance(n, (ast.BinOp, ast.UnaryOp, ast.Constant, ast.Name, ast.operator, ast.unaryop, ast.expr_context)):
            return False
    return True


def _len_atom(root: str) -> tuple:
    return C.canon_expr(ast.parse(f"len({root})", mode='eval').body, Env())


def _check_sum(contribs, conds, roots: List[str], inside_helper: bool, self_name: str = None, splitting=frozenset()):
    """-> (verdict, text) with verdict in 'ok' | 'violation' | 'inconclusive'.  `splitting`: the recursive helpers all of
    whose own recursive calls receive strict parts of their lists - handing a whole list to such a helper (another one
    than the current) is progress, because that helper splits it."""
    per_root: Dict[str, List[tuple]] = {}
    whole_to: Dict[str, Set[str]] = {}
    for c in contribs:
        if c[0] == 'badleaf':
            return 'violation', f"`{c[1][:90]}`: {c[2]}"
        if c[0] == 'leaf':
            per_root.setdefault(c[1], []).append(('leaf', c[2]))
        elif c[0] == 'rec':
            for (root, lo, hi) in c[2]:
                per_root.setdefault(root, []).append(('slice', lo, hi))
                if lo is None and hi is None:
                    whole_to.setdefault(root, set()).add(c[1])
    for r in per_root:
        if r not in roots:
            return 'inconclusive', f"contribution from `{r}`, which is not one of the pair lists {roots}"
    condset = set(conds)
    for r in roots:
        items = per_root.get(r, [])
        L = _len_atom(r)
        many = C.mk_cmp('gt', L, C.ONE)
        if not items:
            return 'violation', f"the pairs of `{r}` do not contribute to the returned profile"
        if items == [('slice', None, None)]:
            if inside_helper and not (whole_to.get(r) and all(c_ != self_name and c_ in splitting for c_ in whole_to[r])):
                return 'violation', f"`{r}` is handed on unsplit: the recursion makes no progress"
            continue
        if many in condset:
            sl = [i for i in items if i[0] == 'slice']
            if len(sl) != len(items) or len(sl) != 2:
                return 'violation', f"under len({r}) > 1 the contributions of `{r}` are {_show(items)}; expected the two halves {r}[:e], {r}[e:]"
            first = [s for s in sl if s[1] is None and s[2] is not None]
            second = [s for s in sl if s[2] is None and s[1] is not None]
            if len(first) != 1 or len(second) != 1 or first[0][2] != second[0][1]:
                return 'violation', f"the slices {_show(items)} of `{r}` are not complementary ({r}[:e], {r}[e:] with one e)"
            e = first[0][2]
            half = C.canon_expr(ast.parse(f"len({r})//2", mode='eval').body, Env())
            half_up = C.canon_expr(ast.parse(f"(len({r})+1)//2", mode='eval').body, Env())
            if e not in (half, half_up):
                return 'inconclusive', f"split point {C.show(e)} of `{r}`: neither len//2 nor (len+1)//2 (non-empty halves not established)"
            continue
        if C.mk_not(many) in condset:
            if items != [('leaf', 0)]:
                return 'violation', f"under len({r}) <= 1 the contribution of `{r}` is {_show(items)}; expected the single pair {r}[0]"
            continue
        return 'inconclusive', f"no test of len({r}) > 1 on the path; contributions {_show(items)}"
    return 'ok', ''


def _show(items) -> str:
    out = []
    for i in items:
        if i[0] == 'leaf':
            out.append(f"pair [{i[1]}]")
        else:
            out.append(f"[{C.show(i[1]) if i[1] is not None else ''}:{C.show(i[2]) if i[2] is not None else ''}]")
    return '{' + ', '.join(out) + '}'


def _consistent(conds) -> bool:
    s = set(conds)
    return not any(c[0] not in ('opaque', 'opaque-not') and C.mk_not(c) in s for c in s)


def _specialise_module_level_reducers(repo, gp: FuncInfo, context_names) -> ast.FunctionDef:
    """The recursive helper may live at module level and receive what a closure would read - the train list, the pair
    function, the keyword dictionary - as parameters that every recursive call hands on unchanged.  Such a helper is the
    closure with those parameters bound: in a copy of the enclosing function it becomes a nested definition whose
    pass-through parameters are the enclosing function's own names (dropped from the signature and from every call)."""
    import copy
    mod = repo.module(gp.module)
    node = gp.node
    cands = []
    for name, h in mod.functions.items():
        if h is gp or '.' in name or h.cls:
            continue
        hn = h.node
        self_calls = [c for c in ast.walk(hn) if isinstance(c, ast.Call) and isinstance(c.func, ast.Name) and c.func.id == name]
        sites = [c for c in ast.walk(node) if isinstance(c, ast.Call) and isinstance(c.func, ast.Name) and c.func.id == name]
        if not self_calls or not sites:
            continue
        ps = [a.arg for a in hn.args.args]
        if hn.args.vararg or hn.args.kwarg or hn.args.kwonlyargs or hn.args.defaults:
            continue
        if any(c.keywords or len(c.args) != len(ps) or any(isinstance(a, ast.Starred) for a in c.args) for c in self_calls + sites):
            continue
        drop = {}
        for k, pname in enumerate(ps):
            outer = {ast.unparse(c.args[k]) for c in sites}
            if len(outer) == 1 and next(iter(outer)) in context_names \
                    and all(isinstance(c.args[k], ast.Name) and c.args[k].id == pname for c in self_calls) \
                    and not any(isinstance(n, ast.Name) and n.id == pname and isinstance(n.ctx, ast.Store) for n in ast.walk(hn)):
                drop[k] = next(iter(outer))
        if drop:
            cands.append((name, hn, ps, drop))
    if not cands:
        return node
    node = copy.deepcopy(node)
    new_defs = []
    for name, hn, ps, drop in cands:
        h2 = copy.deepcopy(hn)
        ren = {ps[k]: v for k, v in drop.items()}
        inner_names = {n.id for n in ast.walk(h2) if isinstance(n, ast.Name)} | set(ps)
        if any(v in inner_names and v not in ren.values() or (v in ps and ps.index(v) not in drop) for v in ren.values()):
            continue
        for n in ast.walk(h2):
            if isinstance(n, ast.Name) and n.id in ren:
                n.id = ren[n.id]
        h2.args.args = [a for k, a in enumerate(h2.args.args) if k not in drop]
        for c in ast.walk(h2):
            if isinstance(c, ast.Call) and isinstance(c.func, ast.Name) and c.func.id == name:
                c.args = [a for k, a in enumerate(c.args) if k not in drop]
        for c in ast.walk(node):
            if isinstance(c, ast.Call) and isinstance(c.func, ast.Name) and c.func.id == name:
                c.args = [a for k, a in enumerate(c.args) if k not in drop]
        new_defs.append(h2)
    # (`**kw` of the helper's leaf call: the keyword dictionary by its own name, as in a closure)
    pos = 0
    while pos < len(node.body) and isinstance(node.body[pos], ast.Expr) and isinstance(node.body[pos].value, ast.Constant):
        pos += 1
    node.body[pos:pos] = new_defs
    ast.fix_missing_locations(node)
    return node


def r_pair_sum(ctx, rule: str = 'R06.2', rule_count: str = 'R06.3') -> List[Ob]:
    repo = ctx.repo
    gp = repo.func('pyspike.generic', '_generic_profile_multi')
    fn = _fn(gp)
    obs: List[Ob] = []
    params = [a.arg for a in gp.node.args.args]
    if len(params) < 2 or gp.node.args.kwarg is None:
        obs.append(inconclusive(rule, "_generic_profile_multi(trains, pair function, ..., **kwargs)", gp.loc(), str(params), construct=fn))
        return obs
    trains, pairfn, kw = params[0], params[1], gp.node.args.kwarg.arg
    gp_node = _specialise_module_level_reducers(repo, gp, (trains, pairfn, kw))
    nested = {n.name: n for n in gp_node.body if isinstance(n, ast.FunctionDef)}
    # recursive helpers: the nested functions that can reach themselves through calls of nested functions (a helper that
    # calls itself, or two helpers that call each other - `summed(pairs)` halving and handing both halves to `combine(a, b)`,
    # which calls `summed` on each)
    calls_ = {name: {x.func.id for x in ast.walk(n) if isinstance(x, ast.Call) and isinstance(x.func, ast.Name) and x.func.id in nested}
              for name, n in nested.items()}

    def _reaches(a_, b_, seen_=None):
        seen_ = seen_ or set()
        for c_ in calls_.get(a_, ()):
            if c_ == b_:
                return True
            if c_ not in seen_:
                seen_.add(c_)
                if _reaches(c_, b_, seen_):
                    return True
        return False
    recursive = {name: n for name, n in nested.items() if _reaches(name, name)}
    plain_helpers = {name: n for name, n in nested.items() if name not in recursive}
    t_h = "_generic_profile_multi: the recursive helper returns the sum of the pair profiles of all pairs of its lists, each exactly once"
    evaluated = {}
    for name, node in recursive.items():
        try:
            evaluated[name] = _Eval(node, recursive, trains, pairfn, kw, plain_helpers).run([a.arg for a in node.args.args])
        except _Undecided as e:
            evaluated[name] = e
    splitting = set()
    for name, evr_ in evaluated.items():
        if isinstance(evr_, _Undecided):
            continue
        strict = True
        for val_, conds_, _st in evr_.results:
            if not _consistent(conds_) or not (isinstance(val_, tuple) and val_[0] == 'sum'):
                continue
            for c_ in val_[1]:
                if c_[0] == 'rec' and any(lo_ is None and hi_ is None for (_r, lo_, hi_) in c_[2]):
                    strict = False
        if strict:
            splitting.add(name)
    for name, node in recursive.items():
        roots = [a.arg for a in node.args.args]
        evr = evaluated[name]
        if isinstance(evr, _Undecided):
            obs.append(inconclusive(rule, f"{name}: every path of the recursive helper can be evaluated", gp.loc(node), str(evr), construct=f"{fn}.{name}"))
            continue
        n_paths = 0
        for val, conds, st in evr.results:
            if not _consistent(conds):
                continue
            n_paths += 1
            where = gp.loc(st)
            if not (isinstance(val, tuple) and val[0] == 'sum'):
                obs.append(violation(rule, t_h, where, key=f"{fn}.{name}::returns-no-sum",
                                     detail=f"`{ast.unparse(st)}` does not return a profile built from the pair profiles"))
                continue
            verdict, text = _check_sum(val[1], conds, roots, True, name, frozenset(splitting))
            cstr = f"{fn}.{name}::path::{'&'.join(sorted(C.show(c) for c in conds if c[0] not in ('opaque', 'opaque-not')))}"
            if verdict == 'ok':
                obs.append(ok(rule, t_h, where, construct=cstr, detail=_contrib_text(val[1])))
            elif verdict == 'violation':
                obs.append(violation(rule, t_h, where, key=f"{fn}.{name}::sum::{text[:100]}", detail=text))
            else:
                obs.append(inconclusive(rule, t_h, where, text, construct=cstr))
        if n_paths == 0:
            obs.append(inconclusive(rule, f"{name}: the recursive helper has a path that returns", gp.loc(node), construct=f"{fn}.{name}"))
    # the enclosing function
    t_g = "_generic_profile_multi: the returned profile is the sum over the whole pair list, returned together with the number of pairs"
    try:
        evg = _Eval(gp_node, recursive, trains, pairfn, kw, plain_helpers).run([])
    except _Undecided as e:
        obs.append(inconclusive(rule, "_generic_profile_multi: every path can be evaluated", gp.loc(), str(e), construct=fn))
        return obs
    if not recursive:
        obs.append(inconclusive(rule, "_generic_profile_multi: a recursive helper that sums the pair profiles is found", gp.loc(), construct=fn))
    seen = set()
    for val, conds, st in evg.results:
        if not _consistent(conds):
            continue
        where = gp.loc(st)
        if not (isinstance(val, tuple) and val[0] == 'tuple' and len(val[1]) == 2 and isinstance(val[1][0], tuple) and val[1][0][0] == 'sum'):
            obs.append(violation(rule, t_g, where, key=f"{fn}::returns-no-sum", detail=ast.unparse(st)))
            continue
        contribs = val[1][0][1]
        roots = sorted({r for c in contribs if c[0] == 'rec' for (r, _, _) in c[2]} | {c[1] for c in contribs if c[0] == 'leaf'})
        if len(roots) != 1:
            obs.append(violation(rule, t_g, where, key=f"{fn}::sum-roots", detail=f"pair lists {roots}: expected one pair list"))
            continue
        # only the tests on the pair list matter for the partition
        L = _len_atom(roots[0])
        conds_r = [c for c in conds if c in (C.mk_cmp('gt', L, C.ONE), C.mk_not(C.mk_cmp('gt', L, C.ONE)))]
        verdict, text = _check_sum(contribs, conds_r, roots, False)
        sig = (verdict, text, tuple(conds_r))
        if sig in seen:
            continue
        seen.add(sig)
        cstr = f"{fn}::sum::{'&'.join(C.show(c) for c in conds_r)}"
        if verdict == 'ok':
            obs.append(ok(rule, t_g, where, construct=cstr, detail=_contrib_text(contribs)))
        elif verdict == 'violation':
            obs.append(violation(rule, t_g, where, key=f"{fn}::sum::{text[:100]}", detail=text))
        else:
            obs.append(inconclusive(rule, t_g, where, text, construct=cstr))
        # the count
        t_c = "_generic_profile_multi: returns the summed profile together with the number of pairs"
        cnt = st.value.elts[1] if isinstance(st.value, ast.Tuple) and len(st.value.elts) == 2 else None
        good = False
        if cnt is not None:
            e = cnt
            once = _once_assigned(gp_node)
            k = 0
            while isinstance(e, ast.Name) and e.id in once and k < 4:
                e, k = once[e.id], k + 1
            good = isinstance(e, ast.Call) and isinstance(e.func, ast.Name) and e.func.id == 'len' and len(e.args) == 1 \
                and isinstance(e.args[0], ast.Name) and e.args[0].id == roots[0]
        if ('count', good) not in seen:
            seen.add(('count', good))
            if good:
                obs.append(ok(rule_count, t_c, where, construct=f"{fn}::count"))
            else:
                obs.append(violation(rule_count, t_c, where, key=f"{fn}::pair-count",
                                     detail=f"second component `{ast.unparse(cnt) if cnt is not None else '?'}` is not len({roots[0]})"))
    if not evg.results:
        obs.append(inconclusive(rule, "_generic_profile_multi: a path that returns is found", gp.loc(), construct=fn))
    return obs


def _once_assigned(node: ast.FunctionDef) -> Dict[str, ast.AST]:
    cnt: Dict[str, int] = {}
    inner = {id(x) for d in node.body if isinstance(d, ast.FunctionDef) for x in ast.walk(d)}
    for n in ast.walk(node):
        if isinstance(n, ast.Name) and isinstance(n.ctx, ast.Store) and id(n) not in inner:
            cnt[n.id] = cnt.get(n.id, 0) + 1
    out = {}
    for n in ast.walk(node):
        if isinstance(n, ast.Assign) and len(n.targets) == 1 and isinstance(n.targets[0], ast.Name) \
                and cnt.get(n.targets[0].id) == 1 and id(n) not in inner:
            out[n.targets[0].id] = n.value
    return out


def _contrib_text(contribs) -> str:
    out = []
    for c in contribs:
        if c[0] == 'rec':
            out.append(c[3][:70])
        elif c[0] == 'leaf':
            out.append(f"pair {c[1]}[{c[2]}]")
        else:
            out.append(str(c[1])[:60])
    return ' + '.join(out)
