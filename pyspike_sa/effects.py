"""Engine D, domain 1: origin / alias / effect analysis (interprocedural, both backends).

Abstract value of an expression = set of *origins* it may alias:
    'fresh'            storage allocated inside the current activation (or an immutable scalar)
    ('param', name)    storage reachable from parameter `name` (the object, its attributes, views of them)
Summaries per function:
    mutates[p]   reasons (file:line, what) why parameter p's storage may be written
    returns      origins the returned value may alias ('fresh' and/or parameter names)
    captures     for constructors / methods: parameters whose storage is stored into `self` un-copied
Sinks: attribute/subscript stores, augmented assignment of a non-scalar name, in-place methods,
`out=`, numpy functions that write their first argument, and passing to a callee parameter whose
summary says it is written.
"""
from __future__ import annotations

import ast
from dataclasses import dataclass, field
from typing import Dict, List, Optional, Set, Tuple

from .frontend import Repo, FuncInfo
from .canon import dotted

FRESH = 'fresh'

# numpy / builtin calls returning newly allocated (or immutable) results
FRESH_CALLS = {
    'np.array', 'np.unique', 'np.sort', 'np.concatenate', 'np.append', 'np.hstack', 'np.vstack', 'np.insert',
    'np.zeros', 'np.ones', 'np.empty', 'np.zeros_like', 'np.ones_like', 'np.empty_like', 'np.arange', 'np.linspace',
    'np.cumsum', 'np.sum', 'np.sqrt', 'np.histogram', 'np.loadtxt', 'np.fromstring', 'np.searchsorted',
    'np.logical_and', 'np.logical_or', 'np.all', 'np.any', 'np.allclose', 'np.max', 'np.min', 'np.triu', 'np.mean',
    'np.random.exponential', 'np.random.randint', 'np.diff', 'np.abs', 'np.fabs', 'np.copy', 'np.where',
    'len', 'int', 'float', 'str', 'abs', 'fabs', 'min', 'max', 'fmin', 'fmax', 'sum', 'range', 'xrange', 'sorted',
    'list', 'tuple', 'dict', 'set', 'isinstance', 'enumerate', 'zip', 'map', 'open', 'print', 'partial', 'exp', 'rand',
    'fmod', 'bool', 'round', 'repr', 'format', 'ValueError', 'NotImplementedError', 'RuntimeError', 'TypeError',
    'IndexError', 'AssertionError', 'Exception', 'KeyError', 'get_distribution',
}
# calls returning (a view of) their first argument
ALIAS_CALLS = {'np.asarray', 'np.asanyarray', 'np.ravel', 'np.reshape', 'np.atleast_1d', 'np.squeeze', 'np.transpose',
               'iter', 'reversed'}
# numpy functions writing into their first argument
NP_WRITES_ARG0 = {'np.put', 'np.place', 'np.copyto', 'np.random.shuffle', 'np.fill_diagonal', 'np.putmask',
                  'np.ndarray.sort', 'np.ndarray.fill'}
INPLACE_METHODS = {'sort', 'fill', 'resize', 'put', 'itemset', 'append', 'extend', 'insert', 'pop', 'remove', 'clear',
                   'reverse', 'update', 'setdefault', 'popitem', 'partition', 'byteswap', 'setflags', 'setfield'}
FRESH_METHODS = {'copy', 'tolist', 'astype', 'sum', 'mean', 'all', 'any', 'max', 'min', 'cumsum', 'format', 'join',
                 'startswith', 'write', 'read', 'readlines', 'normcase', 'get', 'items', 'keys', 'values', 'split', 'strip', 'flatten', 'nonzero', 'argsort'}
VIEW_METHODS = {'reshape', 'ravel', 'view', 'squeeze', 'transpose', 'swapaxes'}

# parameters that are scalars by role (augmented assignment rebinding them is not a mutation)
SCALAR_PARAMS = {'MRTS', 'max_tau', 't_start', 't_end', 'RI', 'threshold', 'fac', 'rate', 'bin_size', 'time_bin',
                 'start_time', 'precision', 'decimal', 'normalize', 'i', 'j', 'N', 'start_index', 'spike_time',
                 'isi1', 'isi2', 's1_', 'alpha', 'T_start', 'T_end', 'a', 'b', 't', 'averaging_window_size',
                 'full_output', 'is_sorted', 'x0', 'x1_', 'y0', 'return_removed_spikes', 'separator', 'comment',
                 'file_name', 'sep'}


@dataclass
class Summary:
    fi: FuncInfo
    params: List[str]
    mutates: Dict[str, List[Tuple[str, str]]] = field(default_factory=dict)   # param -> [(where, what)]
    returns: Set[object] = field(default_factory=set)
    self_stores: List[Tuple[str, str, Set[object], ast.AST]] = field(default_factory=list)  # (attr, where, origins, node)
    sinks: int = 0                # number of store/in-place sites examined
    unresolved: List[Tuple[str, str]] = field(default_factory=list)


class EffectAnalysis:
    def __init__(self, repo: Repo):
        self.repo = repo
        self.summaries: Dict[str, Summary] = {}
        self.funcs: Dict[str, FuncInfo] = {f.qual: f for f in repo.all_functions()}
        self.method_index: Dict[str, List[FuncInfo]] = {}
        for f in self.funcs.values():
            if f.cls and '.' in f.name:
                self.method_index.setdefault(f.name.split('.')[-1], []).append(f)
        # backend aliases bound by dispatch sites: alias name (per function) -> candidate kernels
        self.iterations = 0
        self.fparam_bindings: Dict[str, Dict[str, List[Tuple[FuncInfo, Set[str]]]]] = {}
        self._collect_function_params()
        self._solve()

    def _collect_function_params(self):
        """function-valued parameters: callee qual -> param -> [(function, keywords pre-bound by partial)]"""
        for g in self.funcs.values():
            if g.is_pyx:
                continue
            partials: Dict[str, Tuple[FuncInfo, Set[str]]] = {}
            calls = []
            for n in ast.walk(g.node):
                if isinstance(n, ast.Assign) and isinstance(n.value, ast.Call) and \
                        isinstance(n.value.func, ast.Name) and n.value.func.id == 'partial' and n.value.args and \
                        isinstance(n.value.args[0], ast.Name) and len(n.targets) == 1 and isinstance(n.targets[0], ast.Name):
                    t = self.repo.resolve_symbol(g.module, n.value.args[0].id)
                    if t:
                        partials[n.targets[0].id] = (t, {k.arg for k in n.value.keywords if k.arg})
                if isinstance(n, ast.Call) and isinstance(n.func, ast.Name):
                    calls.append(n)
            for n in calls:
                tgt = self.repo.resolve_symbol(g.module, n.func.id)
                if tgt is None:
                    continue
                callee_params = [a.arg for a in tgt.node.args.args]
                bound = list(zip(callee_params, n.args)) + [(k.arg, k.value) for k in n.keywords if k.arg]
                for pn, a in bound:
                    if isinstance(a, ast.Name):
                        if a.id in partials:
                            self.fparam_bindings.setdefault(tgt.qual, {}).setdefault(pn, []).append(partials[a.id])
                        else:
                            t = self.repo.resolve_symbol(g.module, a.id)
                            if t:
                                self.fparam_bindings.setdefault(tgt.qual, {}).setdefault(pn, []).append((t, set()))

    # ------------------------------------------------------------------
    def _solve(self):
        for q, f in self.funcs.items():
            self.summaries[q] = Summary(f, [a.arg for a in f.node.args.args] +
                                        ([f.node.args.vararg.arg] if f.node.args.vararg else []) +
                                        ([f.node.args.kwarg.arg] if f.node.args.kwarg else []))
        changed = True
        while changed and self.iterations < 12:
            changed = False
            self.iterations += 1
            for q, f in self.funcs.items():
                new = self._analyse(f)
                old = self.summaries[q]
                sig_old = (sorted(old.mutates), sorted(map(str, old.returns)))
                sig_new = (sorted(new.mutates), sorted(map(str, new.returns)))
                self.summaries[q] = new
                if sig_old != sig_new:
                    changed = True

    # ------------------------------------------------------------------
    def resolve_call(self, fi: FuncInfo, call: ast.Call, local_imports: Dict[str, List[FuncInfo]],
                     env: Dict[str, Set[object]], fvals: Dict[str, List[Tuple[FuncInfo, Set[str]]]]
                     ) -> Tuple[str, List[FuncInfo]]:
        """-> (kind, targets); kind in 'repo' | 'ctor' | 'method' | 'np' | 'unknown'"""
        f = call.func
        if isinstance(f, ast.Name):
            if f.id in local_imports:
                return 'repo', local_imports[f.id]
            if f.id in fvals:
                return 'repo', [t for t, _ in fvals[f.id]]
            r = self.repo.resolve_symbol(fi.module, f.id)
            if r:
                return 'repo', [r]
            # nested function of the enclosing function
            outer = fi.name.split('.')[0]
            for cand in (fi.name + '.' + f.id, outer + '.' + f.id):
                if self.repo.has_func(fi.module, cand):
                    return 'repo', [self.repo.func(fi.module, cand)]
            mi = self.repo.modules.get(fi.module)
            if mi is not None and mi.pyx and f.id in mi.pyx.cimports:
                for m2 in self.repo.modules.values():
                    if m2.is_pyx and m2.name != mi.name and f.id in m2.functions:
                        return 'repo', [m2.functions[f.id]]
            c = self.repo.resolve_class(fi.module, f.id)
            if c:
                init = self.funcs.get(f"{c[0]}.{c[1]}.__init__")
                return 'ctor', [init] if init else []
            return 'name', []
        if isinstance(f, ast.Attribute):
            d = dotted(f)
            if d and (d.startswith('np.') or d.startswith('numpy.') or d.startswith('collections.') or
                      d.startswith('os.') or d.startswith('math.')):
                return 'np', []
            if d and d.startswith('pyspike.'):
                r = self.repo.resolve_symbol('pyspike', d.split('.', 1)[1]) if d.count('.') == 1 else None
                if r:
                    return 'repo', [r]
                return 'name', []
            return 'method', self.method_index.get(f.attr, [])
        return 'unknown', []

    # ------------------------------------------------------------------
    def _analyse(self, fi: FuncInfo) -> Summary:
        s = Summary(fi, self.summaries[fi.qual].params)
        an = _FuncWalker(self, fi, s)
        an.run()
        return s


class _FuncWalker:
    def __init__(self, ea: EffectAnalysis, fi: FuncInfo, s: Summary):
        self.ea = ea
        self.fi = fi
        self.s = s
        self.local_imports: Dict[str, List[FuncInfo]] = {}
        self.fvals: Dict[str, List[Tuple[FuncInfo, Set[str]]]] = {}   # names bound to functions / partials
        self.is_method = bool(fi.cls) and fi.node.args.args and fi.node.args.args[0].arg == 'self'

    def where(self, node) -> str:
        return f"{self.fi.path}:{getattr(node, 'lineno', self.fi.node.lineno)}"

    def run(self):
        env: Dict[str, Set[object]] = {}
        for p in self.s.params:
            env[p] = {('param', p)}
        if self.fi.node.args.kwarg:
            # the ** dictionary is built per call: storing a key into it never reaches the caller
            env[self.fi.node.args.kwarg.arg] = {FRESH}
        # closure variables of nested functions: treat the enclosing function's parameters as parameters too
        if '.' in self.fi.name and not self.fi.cls:
            outer = self.fi.name.rsplit('.', 1)[0]
            if self.ea.repo.has_func(self.fi.module, outer):
                of = self.ea.repo.func(self.fi.module, outer)
                for a in of.node.args.args:
                    env.setdefault(a.arg, {('param', a.arg)})
                if of.node.args.kwarg:
                    env.setdefault(of.node.args.kwarg.arg, {('param', of.node.args.kwarg.arg)})
        # function-valued parameters: every argument bound to them at call sites in the repo
        self._bind_function_params(self.fi)
        if '.' in self.fi.name and not self.fi.cls:
            outer = self.fi.name.rsplit('.', 1)[0]
            if self.ea.repo.has_func(self.fi.module, outer):
                self._bind_function_params(self.ea.repo.func(self.fi.module, outer))
        self.block(self.fi.node.body, env)

    def _bind_function_params(self, target: FuncInfo):
        for pn, lst in self.ea.fparam_bindings.get(target.qual, {}).items():
            self.fvals.setdefault(pn, []).extend(lst)

    # ------------------------------------------------------------------ expressions
    def origins(self, node: ast.AST, env) -> Set[object]:
        if node is None:
            return {FRESH}
        if isinstance(node, ast.Constant):
            return {FRESH}
        if isinstance(node, ast.Name):
            return set(env.get(node.id, {FRESH}))
        if isinstance(node, ast.Attribute):
            return self.origins(node.value, env)
        if isinstance(node, ast.Subscript):
            base = self.origins(node.value, env)
            self.origins(node.slice, env) if isinstance(node.slice, ast.expr) and not isinstance(node.slice, ast.Slice) else None
            sl = node.slice
            if isinstance(sl, (ast.Name, ast.Constant, ast.BinOp, ast.UnaryOp)) and not \
                    (isinstance(sl, ast.Constant) and not isinstance(sl.value, int)):
                # single element: for a 1-D array a scalar copy, for a container the element object itself
                return {('elem', o) if not (isinstance(o, tuple) and o[0] == 'elem') and o != FRESH else o for o in base}
            return base
        if isinstance(node, ast.Starred):
            return self.origins(node.value, env)
        if isinstance(node, (ast.BinOp, ast.UnaryOp, ast.Compare, ast.BoolOp, ast.JoinedStr)):
            for ch in ast.iter_child_nodes(node):
                if isinstance(ch, ast.expr):
                    self.origins(ch, env)      # visit for nested calls (effects)
            if isinstance(node, ast.BoolOp):
                out = set()
                for v in node.values:
                    out |= self.origins(v, env)
                return out
            return {FRESH}
        if isinstance(node, ast.IfExp):
            self.origins(node.test, env)
            return self.origins(node.body, env) | self.origins(node.orelse, env)
        if isinstance(node, (ast.Tuple, ast.List, ast.Set)):
            out = set()
            for e in node.elts:
                out |= self.origins(e, env)
            return out or {FRESH}
        if isinstance(node, ast.Dict):
            out = set()
            for e in list(node.keys) + list(node.values):
                if e is not None:
                    out |= self.origins(e, env)
            return out or {FRESH}
        if isinstance(node, (ast.ListComp, ast.GeneratorExp, ast.SetComp)):
            e2 = dict(env)
            for g in node.generators:
                it = self.origins(g.iter, e2)
                self._bind_target(g.target, it, e2)
                for c in g.ifs:
                    self.origins(c, e2)
            return self.origins(node.elt, e2)
        if isinstance(node, ast.Lambda):
            return {FRESH}
        if isinstance(node, ast.Call):
            return self.call(node, env)
        return {FRESH}

    def _bind_target(self, tgt, origins, env):
        if isinstance(tgt, ast.Name):
            env[tgt.id] = set(origins)
        elif isinstance(tgt, (ast.Tuple, ast.List)):
            for e in tgt.elts:
                self._bind_target(e, origins, env)
        elif isinstance(tgt, ast.Starred):
            self._bind_target(tgt.value, origins, env)

    def record_mutation(self, origins: Set[object], node, what: str, name_aug: bool = False):
        self.s.sinks += 1
        for o in origins:
            if isinstance(o, tuple) and o[0] == 'elem':
                if name_aug:
                    continue     # `x = a[i]; x += 1` rebinding a scalar element copy
                o = o[1]
            if isinstance(o, tuple) and o[0] == 'param':
                self.s.mutates.setdefault(o[1], []).append((self.where(node), what))

    def call(self, node: ast.Call, env) -> Set[object]:
        arg_or = [self.origins(a, env) for a in node.args]
        kw_or = {k.arg: self.origins(k.value, env) for k in node.keywords}
        d = dotted(node.func)
        kind, targets = self.ea.resolve_call(self.fi, node, self.local_imports, env, self.fvals)
        # out= keyword
        if 'out' in kw_or:
            self.record_mutation(kw_or['out'], node, f"`out=` argument of {d or '?'}")
        if kind == 'np' or (kind == 'name' and d in FRESH_CALLS | ALIAS_CALLS):
            if d in NP_WRITES_ARG0 and arg_or:
                self.record_mutation(arg_or[0], node, f"{d} writes its first argument")
            if d in ALIAS_CALLS:
                return arg_or[0] if arg_or else {FRESH}
            if d == 'np.array':
                for k in node.keywords:
                    if k.arg == 'copy' and isinstance(k.value, ast.Constant) and k.value.value is False:
                        return arg_or[0] if arg_or else {FRESH}
            return {FRESH}
        if kind == 'method':
            recv = self.origins(node.func.value, env)  # type: ignore[attr-defined]
            meth = node.func.attr  # type: ignore[attr-defined]
            if meth in INPLACE_METHODS:
                # dict.get/update on kwargs etc. are in-place on a local dict: kwargs is the callee's own dict
                self.record_mutation(recv, node, f"in-place method .{meth}()")
                # a repo method of that name (e.g. SpikeTrain.sort) is covered by the same record
                return {FRESH}
            out: Set[object] = set()
            handled = False
            for t in targets:
                sm = self.ea.summaries.get(t.qual)
                if sm is None:
                    continue
                handled = True
                tp = sm.params
                # self -> receiver
                binding = {tp[0]: recv} if tp else {}
                for k, a in enumerate(arg_or):
                    if k + 1 < len(tp):
                        binding[tp[k + 1]] = a
                for kname, a in kw_or.items():
                    if kname in tp:
                        binding[kname] = a
                for p, why in sm.mutates.items():
                    if p in binding:
                        self.record_mutation(binding[p], node, f"passed to {t.name}() which writes `{p}` ({why[0][0]})")
                for r in sm.returns:
                    if r == FRESH:
                        out.add(FRESH)
                    elif r in binding:
                        out |= binding[r]
            if handled:
                return out or {FRESH}
            if meth in FRESH_METHODS:
                return {FRESH}
            if meth in VIEW_METHODS:
                return recv
            self.s.unresolved.append((self.where(node), f".{meth}()"))
            return {FRESH}
        if kind in ('repo', 'ctor'):
            out = set()
            if not targets:
                return {FRESH}
            for t in targets:
                sm = self.ea.summaries.get(t.qual)
                if sm is None:
                    continue
                tp = list(sm.params)
                bound_kw: Set[str] = set()
                if isinstance(node.func, ast.Name) and node.func.id in self.fvals:
                    for tt, kws in self.fvals[node.func.id]:
                        if tt.qual == t.qual:
                            bound_kw = kws
                if kind == 'ctor':
                    tp = tp[1:]     # drop self
                tp_pos = [p for p in tp if p not in bound_kw]
                binding: Dict[str, Set[object]] = {}
                k = 0
                for a_node, a in zip(node.args, arg_or):
                    if isinstance(a_node, ast.Starred):
                        for p in tp_pos[k:]:
                            binding.setdefault(p, set()).update(a)
                        break
                    if k < len(tp_pos):
                        binding[tp_pos[k]] = a
                    k += 1
                for kname, a in kw_or.items():
                    if kname is None:
                        # **kwargs forwarded: binds the callee's kwargs dict
                        kwp = t.node.args.kwarg.arg if t.node.args.kwarg else None
                        if kwp:
                            binding.setdefault(kwp, set()).update(a)
                    elif kname in tp:
                        binding[kname] = a
                for p, why in sm.mutates.items():
                    if p in binding:
                        self.record_mutation(binding[p], node, f"passed to {t.name}() which writes `{p}` ({why[0][0]}: {why[0][1]})")
                if kind == 'ctor':
                    # object is fresh but captures whatever the constructor stores un-copied
                    out.add(FRESH)
                    for attr, wh, org, nd in sm.self_stores:
                        for o in org:
                            if isinstance(o, tuple) and o[0] == 'elem':
                                o = o[1]
                            if isinstance(o, tuple) and o[0] == 'param' and o[1] in binding:
                                out |= binding[o[1]]
                else:
                    for r in sm.returns:
                        if r == FRESH:
                            out.add(FRESH)
                        elif r in binding:
                            out |= binding[r]
                    if not sm.returns:
                        out.add(FRESH)
            return out or {FRESH}
        if kind == 'name':
            if d in FRESH_CALLS:
                return {FRESH}
            # call through a local name we cannot resolve (e.g. a backend alias imported in this function)
            self.s.unresolved.append((self.where(node), f"{d}()"))
            return {FRESH}
        self.s.unresolved.append((self.where(node), ast.unparse(node.func)[:40]))
        return {FRESH}

    # ------------------------------------------------------------------ statements
    def block(self, body: List[ast.stmt], env):
        for st in body:
            self.stmt(st, env)

    def _is_scalar_name(self, name: str) -> bool:
        if name in SCALAR_PARAMS:
            return True
        ct = self.fi.ctypes.get(name)
        if ct and '[' not in ct:
            return True
        return False

    def store(self, tgt, val_or: Set[object], env, node, aug: bool = False):
        if isinstance(tgt, ast.Name):
            if aug:
                cur = env.get(tgt.id, {FRESH})
                if not self._is_scalar_name(tgt.id):
                    self.record_mutation(cur, node, f"augmented assignment to `{tgt.id}` (in place for arrays)", name_aug=True)
                return
            env[tgt.id] = set(val_or)
            return
        if isinstance(tgt, (ast.Tuple, ast.List)):
            for e in tgt.elts:
                self.store(e, val_or, env, node)
            return
        if isinstance(tgt, ast.Starred):
            self.store(tgt.value, val_or, env, node)
            return
        if isinstance(tgt, ast.Attribute):
            base = self.origins(tgt.value, env)
            if self.is_method and isinstance(tgt.value, ast.Name) and tgt.value.id == 'self':
                self.s.self_stores.append((tgt.attr, self.where(node), {FRESH} if aug else set(val_or), node))
            self.record_mutation(base, node, f"attribute store `{ast.unparse(tgt)} = ...`")
            return
        if isinstance(tgt, ast.Subscript):
            base = self.origins(tgt.value, env)
            self.origins(tgt.slice, env)
            self.record_mutation(base, node, f"subscript store `{ast.unparse(tgt)} {'op' if aug else ''}= ...`")
            return

    def stmt(self, st: ast.stmt, env):
        if isinstance(st, ast.Assign):
            v = self.origins(st.value, env)
            # function values / partials bound to local names
            if isinstance(st.value, ast.Call) and isinstance(st.value.func, ast.Name) and st.value.func.id == 'partial' \
                    and st.value.args and isinstance(st.value.args[0], ast.Name) and len(st.targets) == 1 and \
                    isinstance(st.targets[0], ast.Name):
                t = self.ea.repo.resolve_symbol(self.fi.module, st.value.args[0].id)
                if t:
                    self.fvals[st.targets[0].id] = [(t, {k.arg for k in st.value.keywords if k.arg})]
            for t in st.targets:
                self.store(t, v, env, st)
        elif isinstance(st, ast.AnnAssign):
            if st.value is not None:
                self.store(st.target, self.origins(st.value, env), env, st)
        elif isinstance(st, ast.AugAssign):
            v = self.origins(st.value, env)
            self.store(st.target, v, env, st, aug=True)
        elif isinstance(st, ast.Expr):
            self.origins(st.value, env)
        elif isinstance(st, ast.Return):
            if st.value is not None:
                for o in self.origins(st.value, env):
                    if isinstance(o, tuple) and o[0] == 'elem':
                        o = o[1]
                    self.s.returns.add(o[1] if isinstance(o, tuple) else o)
            else:
                self.s.returns.add(FRESH)
        elif isinstance(st, ast.If):
            self.origins(st.test, env)
            e1, e2 = self._copy(env), self._copy(env)
            self.block(st.body, e1)
            self.block(st.orelse, e2)
            self._join(env, e1, e2)
        elif isinstance(st, (ast.While,)):
            self.origins(st.test, env)
            for _ in range(2):
                e1 = self._copy(env)
                self.block(st.body, e1)
                self._join(env, env, e1)
            self.block(st.orelse, env)
        elif isinstance(st, ast.For):
            it = self.origins(st.iter, env)
            for _ in range(2):
                e1 = self._copy(env)
                self._bind_target(st.target, it, e1)
                self.block(st.body, e1)
                self._join(env, env, e1)
            self.block(st.orelse, env)
        elif isinstance(st, ast.With):
            for item in st.items:
                o = self.origins(item.context_expr, env)
                if item.optional_vars is not None:
                    self._bind_target(item.optional_vars, o, env)
            self.block(st.body, env)
        elif isinstance(st, ast.Try):
            e1 = self._copy(env)
            self.block(st.body, e1)
            outs = [e1]
            for h in st.handlers:
                eh = self._copy(env)
                self._join(eh, eh, e1)
                self.block(h.body, eh)
                outs.append(eh)
            self.block(st.orelse, e1)
            acc = outs[0]
            for o in outs[1:]:
                self._join(acc, acc, o)
            env.clear()
            env.update(acc)
            self.block(st.finalbody, env)
        elif isinstance(st, (ast.Import, ast.ImportFrom)):
            if isinstance(st, ast.ImportFrom):
                from .dispatch import _resolve_from
                mod = _resolve_from(self.fi, st)
                for a in st.names:
                    if self.ea.repo.has_func(mod, a.name):
                        self.local_imports.setdefault(a.asname or a.name, []).append(self.ea.repo.func(mod, a.name))
        elif isinstance(st, ast.Delete):
            for t in st.targets:
                if isinstance(t, ast.Subscript):
                    self.record_mutation(self.origins(t.value, env), st, f"`del {ast.unparse(t)}`")
        elif isinstance(st, ast.FunctionDef):
            pass
        elif isinstance(st, (ast.Assert,)):
            self.origins(st.test, env)
        elif isinstance(st, ast.Raise):
            if st.exc is not None:
                self.origins(st.exc, env)

    @staticmethod
    def _copy(env):
        return {k: set(v) for k, v in env.items()}

    @staticmethod
    def _join(dst, a, b):
        keys = set(a) | set(b)
        res = {}
        for k in keys:
            res[k] = set(a.get(k, {FRESH})) | set(b.get(k, {FRESH}))
        dst.clear()
        dst.update(res)
