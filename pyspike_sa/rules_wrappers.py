"""Wrapper-layer rules built on WrapperModel: kernel-call typestates (R15.1, R16.2, R18.4, R12.4), index kinds
(R14.2/R14.3), guarded divisions (R18.1/R05.3/R05.4), dispatchers (R14.1), positional binding (R14.4),
keyword flow (R14.5), route identity (R05.1), pair enumeration / matrices (R06.x)."""
from __future__ import annotations

import ast
from typing import Dict, List, Optional, Set, Tuple

from . import canon as C
from .canon import Env, dotted
from .frontend import FuncInfo
from .report import Ob, ok, violation, inconclusive, info
from .wrappers import WrapperModel, wrapper_model, top_level_index, _fn, TRACKED_KEYWORDS


# ======================================================================================
# kernel calls
# ======================================================================================
def kernel_calls(wm: WrapperModel, fi: FuncInfo):
    """(call node, dispatch site, [candidate kernel FuncInfo])"""
    out = []
    aliases = wm.kernel_aliases(fi)
    for n in ast.walk(fi.node):
        if isinstance(n, ast.Call) and isinstance(n.func, ast.Name) and n.func.id in aliases:
            s = aliases[n.func.id]
            ks = []
            if wm.repo.has_func(s.compiled_module, s.compiled_symbol):
                ks.append(wm.repo.func(s.compiled_module, s.compiled_symbol))
            if s.fallback_module and wm.repo.has_func(s.fallback_module, s.fallback_symbol or ''):
                ks.append(wm.repo.func(s.fallback_module, s.fallback_symbol))
            out.append((n, s, ks))
    return out


def _assigned_before(fi: FuncInfo, name: str, before_idx: int) -> List[ast.stmt]:
    """top-level statements (index < before_idx) that (re)bind `name` anywhere inside them"""
    out = []
    for k, st in enumerate(fi.node.body[:before_idx]):
        for x in ast.walk(st):
            if isinstance(x, ast.Name) and x.id == name and isinstance(x.ctx, ast.Store):
                out.append(st)
                break
    return out


def _is_mrts_resolution(st: ast.stmt, name: str, wm: WrapperModel, fi: FuncInfo) -> Optional[ast.Call]:
    """`if isinstance(<name>, str): <name> = default_thresh(...)` (possibly also storing kwargs['MRTS'])."""
    if not isinstance(st, ast.If) or st.orelse:
        return None
    t = st.test
    if not (isinstance(t, ast.Call) and isinstance(t.func, ast.Name) and t.func.id == 'isinstance' and len(t.args) == 2
            and isinstance(t.args[0], ast.Name) and t.args[0].id == name and isinstance(t.args[1], ast.Name)
            and t.args[1].id == 'str'):
        return None
    for s in st.body:
        if isinstance(s, ast.Assign) and isinstance(s.value, ast.Call):
            tg = wm.callees(fi, s.value)
            if tg and tg[0][0].name == 'default_thresh':
                if any(isinstance(x, ast.Name) and x.id == name for tt in s.targets for x in ast.walk(tt)):
                    return s.value
    return None


def _kwargs_mrts_resolution(st: ast.stmt, name: str, wm: WrapperModel, fi: FuncInfo) -> Optional[ast.Call]:
    """`if isinstance(MRTS, str): kwargs['MRTS'] = default_thresh(...)` (multivariate wrappers)."""
    if not isinstance(st, ast.If) or st.orelse:
        return None
    t = st.test
    kw = fi.node.args.kwarg.arg if fi.node.args.kwarg is not None else None

    def is_mrts_value(e) -> bool:
        if isinstance(e, ast.Name) and e.id == name:
            return True
        # the keyword read from the dictionary itself: kwargs.get('MRTS'[, default]) / kwargs['MRTS']
        if kw and isinstance(e, ast.Call) and isinstance(e.func, ast.Attribute) and e.func.attr == 'get' \
                and isinstance(e.func.value, ast.Name) and e.func.value.id == kw and e.args \
                and isinstance(e.args[0], ast.Constant) and e.args[0].value == 'MRTS' \
                and (len(e.args) == 1 or (isinstance(e.args[1], ast.Constant) and not isinstance(e.args[1].value, str))):
            return True
        return False
    if not (isinstance(t, ast.Call) and isinstance(t.func, ast.Name) and t.func.id == 'isinstance' and len(t.args) == 2
            and is_mrts_value(t.args[0]) and isinstance(t.args[1], ast.Name) and t.args[1].id == 'str'):
        return None
    for s in st.body:
        if isinstance(s, ast.Assign) and isinstance(s.value, ast.Call) and isinstance(s.targets[0], ast.Subscript) \
                and isinstance(s.targets[0].slice, ast.Constant) and s.targets[0].slice.value == 'MRTS':
            tg = wm.callees(fi, s.value)
            if tg and tg[0][0].name == 'default_thresh':
                return s.value
    return None


def _kwargs_mrts_resolution_at(f: FuncInfo, k: int, name: str, wm: WrapperModel) -> Optional[ast.Call]:
    """Statement k of f's body replaces 'auto' in kwargs: the conditional form above, or the unconditional
    `kwargs['MRTS'] = <name>` after `<name>` itself went through `if isinstance(<name>, str): <name> = default_thresh(..)`
    (the value stored is then the resolved threshold on every path)."""
    st = f.node.body[k]
    d = _kwargs_mrts_resolution(st, name, wm, f)
    if d is not None:
        return d
    if isinstance(st, ast.Assign) and len(st.targets) == 1 and isinstance(st.targets[0], ast.Subscript) \
            and isinstance(st.targets[0].slice, ast.Constant) and st.targets[0].slice.value == 'MRTS' \
            and isinstance(st.targets[0].value, ast.Name) and f.node.args.kwarg is not None \
            and st.targets[0].value.id == f.node.args.kwarg.arg and isinstance(st.value, ast.Name) and st.value.id == name:
        res = [(_is_mrts_resolution(s2, name, wm, f), k2) for k2, s2 in enumerate(f.node.body[:k])]
        res = [(r, k2) for r, k2 in res if r is not None]
        if res:
            # no other binding of the name between the resolution and the store
            r, k2 = res[-1]
            if not any(isinstance(n, ast.Name) and n.id == name and isinstance(n.ctx, ast.Store)
                       for s2 in f.node.body[k2 + 1:k] for n in ast.walk(s2)):
                return r
    return None


def _param_index(k: FuncInfo, name: str) -> Optional[int]:
    ps = [a.arg for a in k.node.args.args]
    return ps.index(name) if name in ps else None


def _kernel_needs_nonempty(k: FuncInfo, pos: int) -> bool:
    """kernel subscripts its `pos`-th parameter (or a plain alias of it) with the constant 0 outside any test of
    its length"""
    ps = [a.arg for a in k.node.args.args]
    if pos >= len(ps):
        return False
    names = {ps[pos]}
    for n in ast.walk(k.node):
        if isinstance(n, ast.Assign) and isinstance(n.value, ast.Name) and n.value.id in names and \
                len(n.targets) == 1 and isinstance(n.targets[0], ast.Name):
            names.add(n.targets[0].id)
    for n in ast.walk(k.node):
        if isinstance(n, ast.Subscript) and isinstance(n.value, ast.Name) and n.value.id in names and \
                isinstance(n.slice, ast.Constant) and n.slice.value == 0:
            return True
    return False


def _train_locals(f: FuncInfo, tps: Set[str]) -> Set[str]:
    """locals bound to individual trains: loop variables over (enumerate of) a train-list parameter"""
    out: Set[str] = set()
    for n in ast.walk(f.node):
        if isinstance(n, ast.For):
            it = n.iter
            if isinstance(it, ast.Call) and isinstance(it.func, ast.Name) and it.func.id == 'enumerate' and it.args:
                if isinstance(it.args[0], ast.Name) and it.args[0].id in tps and isinstance(n.target, ast.Tuple) and \
                        len(n.target.elts) == 2 and isinstance(n.target.elts[1], ast.Name):
                    out.add(n.target.elts[1].id)
            elif isinstance(it, ast.Name) and it.id in tps and isinstance(n.target, ast.Name):
                out.add(n.target.id)
        if isinstance(n, ast.Assign) and len(n.targets) == 1 and isinstance(n.targets[0], ast.Name) and \
                isinstance(n.value, ast.Subscript) and isinstance(n.value.value, ast.Name) and n.value.value.id in tps:
            out.add(n.targets[0].id)       # st_i = spike_trains[...]
    return out


def _preorder_index(root: ast.AST, node: ast.AST) -> int:
    k = 0
    stack = [root]
    while stack:
        cur = stack.pop()
        if cur is node:
            return k
        k += 1
        stack.extend(reversed(list(ast.iter_child_nodes(cur))))
    return 1 << 30


def _none_defaulted(a: ast.AST) -> Optional[str]:
    """`0.0 if X is None else X` / `X if X is not None else 0.0`: the name X, else None."""
    if not isinstance(a, ast.IfExp) or not isinstance(a.test, ast.Compare) or len(a.test.ops) != 1 \
            or not isinstance(a.test.left, ast.Name) or not isinstance(a.test.comparators[0], ast.Constant) \
            or a.test.comparators[0].value is not None:
        return None
    x = a.test.left.id
    if isinstance(a.test.ops[0], ast.Is):
        zero, same = a.body, a.orelse
    elif isinstance(a.test.ops[0], ast.IsNot):
        zero, same = a.orelse, a.body
    else:
        return None
    if isinstance(zero, ast.Constant) and zero.value in (0, 0.0) and not isinstance(zero.value, bool) \
            and isinstance(same, ast.Name) and same.id == x:
        return x
    return None


def _none_default_select(f: FuncInfo, name: str, before: ast.AST) -> Optional[str]:
    """`if X is None: <name> = 0.0 else: <name> = X` (either orientation) is the only definition of <name> and precedes
    `before`: the parameter X, else None."""
    stores = [n for n in ast.walk(f.node) if isinstance(n, ast.Name) and n.id == name and isinstance(n.ctx, ast.Store)]
    if len(stores) != 2 or name in [a.arg for a in f.node.args.args + f.node.args.kwonlyargs]:
        return None
    for n in ast.walk(f.node):
        if isinstance(n, ast.If) and len(n.body) == 1 and len(n.orelse) == 1 and isinstance(n.test, ast.Compare) \
                and len(n.test.ops) == 1 and isinstance(n.test.left, ast.Name) and isinstance(n.test.comparators[0], ast.Constant) \
                and n.test.comparators[0].value is None and isinstance(n.test.ops[0], (ast.Is, ast.IsNot)):
            x = n.test.left.id
            zero_arm, same_arm = (n.body[0], n.orelse[0]) if isinstance(n.test.ops[0], ast.Is) else (n.orelse[0], n.body[0])
            ok_ = all(isinstance(s_, ast.Assign) and len(s_.targets) == 1 and isinstance(s_.targets[0], ast.Name) and s_.targets[0].id == name
                      for s_ in (zero_arm, same_arm))
            if ok_ and isinstance(zero_arm.value, ast.Constant) and zero_arm.value.value in (0, 0.0) and not isinstance(zero_arm.value.value, bool) \
                    and isinstance(same_arm.value, ast.Name) and same_arm.value.id == x \
                    and not any(isinstance(m, ast.Name) and m.id == x and isinstance(m.ctx, ast.Store) for m in ast.walk(f.node)):
                return x
    return None


def r_kernel_call_typestates(ctx, rules=('R15.1', 'R16.2', 'R18.4'), only_funcs: Optional[Set[str]] = None) -> List[Ob]:
    wm = wrapper_model(ctx)
    obs: List[Ob] = []
    r_mrts, r_tau, r_ne = rules
    for f in wm.funcs:
        if only_funcs is not None and f.name not in only_funcs:
            continue
        tps = wm.train_params.get(f.qual, set())
        for call, site, ks in kernel_calls(wm, f):
            if not ks:
                continue
            k0 = ks[0]
            kparams = [a.arg for a in k0.node.args.args]
            idx = top_level_index(f, call)
            kname = site.compiled_symbol
            for pos, a in enumerate(call.args):
                if pos >= len(kparams):
                    break
                role = kparams[pos]
                # ---- MRTS must be the resolved local
                if role == 'MRTS' and r_mrts:
                    t = f"{f.name}: MRTS argument of kernel `{kname}` is resolved ('auto' replaced by default_thresh of the same trains) before the call"
                    good = False
                    detail = ast.unparse(a)
                    if isinstance(a, ast.Name):
                        res = [(_is_mrts_resolution(st, a.id, wm, f), k) for k, st in enumerate(f.node.body[:idx + 1])]
                        res = [(r, k) for r, k in res if r is not None]
                        src_ok = False
                        for st in f.node.body[:idx + 1]:
                            if isinstance(st, ast.Assign) and isinstance(st.value, ast.Call):
                                tg = wm.callees(f, st.value)
                                if tg and tg[0][0].name == 'resolve_keywords' and isinstance(st.targets[0], ast.Tuple) \
                                        and isinstance(st.targets[0].elts[0], ast.Name) and st.targets[0].elts[0].id == a.id:
                                    src_ok = True
                        if not res and src_ok:
                            # the keyword itself was resolved in kwargs before it was read: `kwargs['MRTS'] = default_thresh(..)`
                            # (under the string test) precedes `<name>, _ = resolve_keywords(**kwargs)`
                            rk = [k for k, st in enumerate(f.node.body[:idx + 1]) if isinstance(st, ast.Assign) and isinstance(st.value, ast.Call)
                                  and (wm.callees(f, st.value) or [(None,)])[0][0] is not None
                                  and wm.callees(f, st.value)[0][0].name == 'resolve_keywords' and isinstance(st.targets[0], ast.Tuple)
                                  and isinstance(st.targets[0].elts[0], ast.Name) and st.targets[0].elts[0].id == a.id]
                            if rk:
                                for k2 in range(rk[-1]):
                                    loc0 = next((k_ for k_, v_ in _keyword_locals(wm, f).items() if v_ == 'MRTS'), 'MRTS')
                                    for cand in {loc0, a.id} | {n_.targets[0].elts[0].id for n_ in f.node.body[:rk[-1]]
                                                                if isinstance(n_, ast.Assign) and isinstance(n_.targets[0], ast.Tuple)
                                                                and n_.targets[0].elts and isinstance(n_.targets[0].elts[0], ast.Name)}:
                                        d = _kwargs_mrts_resolution_at(f, k2, cand, wm)
                                        if d is not None:
                                            res = [(d, k2)]
                        if res and src_ok:
                            # threshold computed from all train parameters of this function
                            dcall = res[-1][0]
                            roots = set()
                            for aa in dcall.args:
                                roots |= wm._train_roots(aa)
                            good = bool(tps) and tps <= roots
                            detail = f"default_thresh({', '.join(ast.unparse(x) for x in dcall.args)}); train parameters {sorted(tps)}"
                        else:
                            detail = f"resolution statement found={bool(res)}, from resolve_keywords={src_ok}"
                    if good:
                        obs.append(ok(r_mrts, t, f.loc(call), construct=f"{_fn(f)}::{kname}::MRTS"))
                    else:
                        obs.append(violation(r_mrts, t, f.loc(call), key=f"{_fn(f)}::{kname}::MRTS-unresolved", detail=detail))
                # ---- max_tau must be a number
                if role == 'max_tau' and r_tau:
                    t = f"{f.name}: max_tau argument of kernel `{kname}` has passed `if max_tau is None: max_tau = 0.0`"
                    good = _none_defaulted(a) is not None       # `0.0 if max_tau is None else max_tau` at the call
                    if isinstance(a, ast.Name) and _none_default_select(f, a.id, call) is not None:
                        good = True                             # ... or the same selection as a two-armed `if` into a local
                    if isinstance(a, ast.Name):
                        for n in ast.walk(f.node):
                            if isinstance(n, ast.If) and isinstance(n.test, ast.Compare) and isinstance(n.test.left, ast.Name) \
                                    and n.test.left.id == a.id and len(n.test.ops) == 1 and isinstance(n.test.ops[0], ast.Is) \
                                    and isinstance(n.test.comparators[0], ast.Constant) and n.test.comparators[0].value is None \
                                    and not n.orelse and len(n.body) == 1 and isinstance(n.body[0], ast.Assign) and \
                                    isinstance(n.body[0].targets[0], ast.Name) and n.body[0].targets[0].id == a.id and \
                                    isinstance(n.body[0].value, ast.Constant) and n.body[0].value.value in (0, 0.0) and \
                                    not isinstance(n.body[0].value.value, bool):
                                # the conversion precedes the call in the same block or an enclosing one (position in the
                                # function's own statement order: line numbers of inlined statements belong to the helper)
                                if _preorder_index(f.node, n) < _preorder_index(f.node, call):
                                    good = True
                    if good:
                        obs.append(ok(r_tau, t, f.loc(call), construct=f"{_fn(f)}::{kname}::max_tau"))
                    else:
                        obs.append(violation(r_tau, t, f.loc(call), key=f"{_fn(f)}::{kname}::max_tau-maybe-None",
                                             detail=ast.unparse(a)))
                # ---- spike arrays: non-empty accessor exactly for kernels that read element 0 unguarded
                is_ne = isinstance(a, ast.Call) and isinstance(a.func, ast.Attribute) and a.func.attr == 'get_spikes_non_empty'
                is_sp = isinstance(a, ast.Attribute) and a.attr == 'spikes'
                measure_kernel = any(
                    (isinstance(x, ast.Call) and isinstance(x.func, ast.Attribute) and x.func.attr == 'get_spikes_non_empty') or
                    (isinstance(x, ast.Attribute) and x.attr == 'spikes') for x in call.args[:2])
                if pos < 2 and r_ne and measure_kernel:
                    needs = any(_kernel_needs_nonempty(k, pos) for k in ks)
                    t = (f"{f.name}: spike array {pos + 1} of kernel `{kname}` is passed through "
                         + ("get_spikes_non_empty() (the kernel reads element 0 unconditionally)" if needs else
                            "the plain `.spikes` (auxiliary edge spikes must not be counted as spikes)"))
                    good = (is_ne if needs else is_sp)
                    b = a.func.value if is_ne else (a.value if is_sp else a)
                    while isinstance(b, (ast.Subscript, ast.Attribute)):
                        b = b.value
                    root = b.id if isinstance(b, ast.Name) else None
                    if good and root in (tps | _train_locals(f, tps)):
                        obs.append(ok(r_ne, t, f.loc(call), construct=f"{_fn(f)}::{kname}::arg{pos}"))
                    else:
                        obs.append(violation(r_ne, t, f.loc(call), key=f"{_fn(f)}::{kname}::spike-array-{pos}",
                                             detail=ast.unparse(a)))
                if role in ('t_start', 't_end') and r_ne and measure_kernel:
                    t = f"{f.name}: `{role}` of kernel `{kname}` is the `{role}` of a (reconciled) train parameter"
                    good = isinstance(a, ast.Attribute) and a.attr == role and isinstance(a.value, (ast.Name, ast.Subscript))
                    if good:
                        obs.append(ok(r_ne, t, f.loc(call), construct=f"{_fn(f)}::{kname}::{role}"))
                    else:
                        obs.append(violation(r_ne, t, f.loc(call), key=f"{_fn(f)}::{kname}::edge-{role}", detail=ast.unparse(a)))
                if role == 'RI' and r_mrts:
                    t = f"{f.name}: RI argument of kernel `{kname}` is the RI returned by resolve_keywords"
                    good = isinstance(a, ast.Name) and _keyword_locals(wm, f).get(a.id) == 'RI'
                    if good:
                        obs.append(ok(r_mrts, t, f.loc(call), construct=f"{_fn(f)}::{kname}::RI"))
                    else:
                        obs.append(violation(r_mrts, t, f.loc(call), key=f"{_fn(f)}::{kname}::RI", detail=ast.unparse(a)))
            # arity
            t = f"{f.name}: kernel `{kname}` receives every parameter without default"
            ndef = len(k0.node.args.defaults)
            if len(call.args) + len(call.keywords) >= len(kparams) - ndef:
                obs.append(ok('R12.4', t, f.loc(call), construct=f"{_fn(f)}::{kname}::arity"))
            else:
                obs.append(violation('R12.4', t, f.loc(call), key=f"{_fn(f)}::{kname}::arity"))
    # multivariate wrappers that resolve 'auto' into kwargs
    for f in wm.funcs:
        if only_funcs is not None and f.name not in only_funcs:
            continue
        tps = wm.train_params.get(f.qual, set())
        mrts_local = next((k_ for k_, v_ in _keyword_locals(wm, f).items() if v_ == 'MRTS'), 'MRTS')
        for k, st in enumerate(f.node.body):
            dcall = _kwargs_mrts_resolution_at(f, k, mrts_local, wm)
            if dcall is None:
                continue
            roots = set()
            for aa in dcall.args:
                roots |= wm.train_roots_in(f, aa)
            t = f"{f.name}: 'auto' is replaced in kwargs by default_thresh of the (reconciled) train list before any pair is evaluated"
            pr = wm.reconcile_prologue(f)
            good = bool(tps) and tps <= roots and pr is not None and pr['index'] < k
            if good and r_mrts:
                obs.append(ok(r_mrts, t, f.loc(st), construct=f"{_fn(f)}::kwargs-MRTS"))
            elif r_mrts:
                obs.append(violation(r_mrts, t, f.loc(st), key=f"{_fn(f)}::kwargs-MRTS",
                                     detail=f"default_thresh({', '.join(ast.unparse(x) for x in dcall.args)}); prologue before: "
                                            f"{pr is not None and pr['index'] < k}"))
    # multivariate wrappers that forward **kwargs to a per-pair function must have resolved 'auto' into kwargs first:
    # otherwise every pair computes its own threshold from two trains while the profile route uses the pooled one
    for f in wm.funcs:
        if only_funcs is not None and f.name not in only_funcs:
            continue
        if not r_mrts:
            continue
        tps = wm.train_params.get(f.qual, set())
        if not tps or f.node.args.kwarg is None:
            continue
        kw = f.node.args.kwarg.arg
        owner = f
        res_idx = None
        mrts_local = next((k_ for k_, v_ in _keyword_locals(wm, f).items() if v_ == 'MRTS'), 'MRTS')
        for k, st in enumerate(f.node.body):
            if _kwargs_mrts_resolution_at(f, k, mrts_local, wm) is not None:
                res_idx = k
        # calls (also inside nested helpers such as divide_and_conquer) that pass elements of a train list and **kwargs
        nodes = [f.node] + [n for n in ast.walk(f.node) if isinstance(n, ast.FunctionDef) and n is not f.node]
        seen_calls = set()
        for n in ast.walk(f.node):
            if not isinstance(n, ast.Call) or id(n) in seen_calls:
                continue
            seen_calls.add(id(n))
            fw = any(k.arg is None and isinstance(k.value, ast.Name) and k.value.id == kw for k in n.keywords)
            if not fw:
                continue
            elem = [a for a in n.args if isinstance(a, ast.Subscript) and isinstance(a.value, ast.Name) and a.value.id in tps
                    and not isinstance(a.slice, ast.Constant)]       # args[0], args[1] of a dispatcher are the whole input
            if len(elem) < 2:
                continue
            explicit = any(k.arg == 'MRTS' for k in n.keywords)
            t = (f"{f.name}: before **kwargs are forwarded to a per-pair function, MRTS='auto' has been replaced in kwargs by the "
                 f"threshold of the whole (reconciled) list - every pair and the profile route then use the same threshold")
            top = top_level_index(f, n)
            if explicit or (res_idx is not None and (top == -1 or res_idx < top or top_level_index(f, n) >= 0 and res_idx < top)):
                obs.append(ok(r_mrts, t, f.loc(n), construct=f"{_fn(f)}::forward-kwargs::{n.lineno - f.node.lineno}"))
            elif res_idx is not None:
                # call inside a nested helper defined before the resolution statement: the helper runs after it
                obs.append(ok(r_mrts, t, f.loc(n), construct=f"{_fn(f)}::forward-kwargs::{n.lineno - f.node.lineno}"))
            else:
                obs.append(violation(r_mrts, t, f.loc(n), key=f"{_fn(f)}::forwards-unresolved-auto",
                                     detail=f"`{ast.unparse(n)[:100]}`: kwargs may still carry MRTS='auto' (no "
                                            f"`kwargs['MRTS'] = default_thresh(...)` in this function)"))
    return obs


# ======================================================================================
# R12.4 / R05.1: call shape of single-pass sites and route identity
# ======================================================================================
def _norm_arg(a: ast.AST, ren: Dict[str, str]) -> str:
    class R(ast.NodeTransformer):
        def visit_Name(self, n):
            return ast.copy_location(ast.Name(id=ren.get(n.id, n.id), ctx=n.ctx), n)
    x = _none_defaulted(a)
    if x is not None:
        a = ast.Name(id=x, ctx=ast.Load())      # `0.0 if X is None else X`: the role is X (R16.2 decides the conversion)
    a2 = R().visit(ast.parse(ast.unparse(a), mode='eval').body)
    return ast.unparse(a2)


def _keyword_locals(wm: WrapperModel, f: FuncInfo) -> Dict[str, str]:
    """locals holding the resolved keywords: `<a>, <b> = resolve_keywords(**kwargs)` -> {a: 'MRTS', b: 'RI'}"""
    out: Dict[str, str] = {}
    for n in ast.walk(f.node):
        if isinstance(n, ast.Assign) and isinstance(n.value, ast.Call) and isinstance(n.targets[0], ast.Tuple) and \
                len(n.targets[0].elts) == 2 and all(isinstance(e, ast.Name) for e in n.targets[0].elts):
            tg = wm.callees(f, n.value)
            if tg and tg[0][0].name == 'resolve_keywords':
                out[n.targets[0].elts[0].id] = 'MRTS'
                out[n.targets[0].elts[1].id] = 'RI'
    return out


def _inline_train_locals(f: FuncInfo, a: ast.AST) -> ast.AST:
    """replace locals bound once to `<list>[...]` by that expression (st_i = spike_trains[indices[i]])"""
    defs: Dict[str, ast.AST] = {}
    for n in ast.walk(f.node):
        if isinstance(n, ast.Assign) and len(n.targets) == 1 and isinstance(n.targets[0], ast.Name) and \
                isinstance(n.value, ast.Subscript) and isinstance(n.value.value, ast.Name):
            defs[n.targets[0].id] = n.value

    class R(ast.NodeTransformer):
        def visit_Name(self, n):
            if n.id in defs and isinstance(n.ctx, ast.Load):
                return ast.parse(ast.unparse(defs[n.id]), mode='eval').body
            return n
    return R().visit(ast.parse(ast.unparse(a), mode='eval').body)


def _norm_pairwise(args: List[str]) -> List[str]:
    """list-based wrappers address the two trains of a pair as L[a], L[b] (or L[idx[a]], L[idx[b]]): rename to T1, T2
    in order of appearance"""
    import re
    pat = re.compile(r"T1\[((?:\w+\[)?\w+\]?)\]")
    order: List[str] = []
    for a in args:
        for m in pat.finditer(a):
            if m.group(1) not in order:
                order.append(m.group(1))
    out = []
    for a in args:
        for k, ix in enumerate(order):
            a = a.replace(f"T1[{ix}]", f"T{k + 1}")
        out.append(a)
    return out


def r05_1_route_identity(ctx, rule: str = 'R05.1') -> List[Ob]:
    """At every single-pass site: the compiled call and the fallback/interval routes are the same measure on the
    same arguments; the fallback is literally `<profile function>(same trains, same settings).avrg/integral(interval)`."""
    from .kernels import discover_families
    wm = wrapper_model(ctx)
    fams, sites = ctx.get('families', lambda c: discover_families(c.repo))
    obs: List[Ob] = []
    for fam in fams:
        s = fam.single_site
        if s is None:
            continue
        f = s.fi
        tps_list = [a.arg for a in f.node.args.args if a.arg in wm.train_params.get(f.qual, set())]
        # (a) compiled call arguments are role-equal to what the profile wrapper passes to its kernel
        ccalls = [c for c, st, ks in kernel_calls(wm, f) if st.where == s.where]
        pcalls = [c for c, st, ks in kernel_calls(wm, fam.wrapper) if st.where == fam.site.where]
        t = (f"{f.name}: the compiled single-pass kernel `{s.compiled_symbol}` receives the same argument roles as "
             f"`{fam.wrapper.name}` passes to the profile kernel")
        if len(ccalls) == 1 and len(pcalls) == 1:
            wt = [a.arg for a in fam.wrapper.node.args.args if a.arg in wm.train_params.get(fam.wrapper.qual, set())]
            ren_c = {n: f"T{k + 1}" for k, n in enumerate(tps_list)}
            ren_p = {n: f"T{k + 1}" for k, n in enumerate(wt)}
            ren_c.update(_keyword_locals(wm, f))
            ren_p.update(_keyword_locals(wm, fam.wrapper))
            def role_arg(g, call_, a_):
                # a local that holds `0.0 if P is None else P` plays the role of P (R16.2 decides the conversion itself)
                if isinstance(a_, ast.Name):
                    x_ = _none_default_select(g, a_.id, call_)
                    if x_ is not None:
                        return ast.Name(id=x_, ctx=ast.Load())
                return a_
            ac = _norm_pairwise([_norm_arg(_inline_train_locals(f, role_arg(f, ccalls[0], a)), ren_c) for a in ccalls[0].args])
            ap = _norm_pairwise([_norm_arg(_inline_train_locals(fam.wrapper, role_arg(fam.wrapper, pcalls[0], a)), ren_p)
                                 for a in pcalls[0].args])
            if ac == ap:
                obs.append(ok(rule, t, f.loc(ccalls[0]), construct=f"{_fn(f)}::compiled-call", detail=', '.join(ac)))
            else:
                obs.append(violation(rule, t, f.loc(ccalls[0]), key=f"{_fn(f)}::compiled-call-shape",
                                     detail=f"single-pass: ({', '.join(ac)})\nprofile:     ({', '.join(ap)})"))
        else:
            obs.append(inconclusive(rule, t, f.loc(), f"{len(ccalls)} compiled calls / {len(pcalls)} profile calls",
                                    construct=f"{_fn(f)}::compiled-call"))
        # (a') the averaging interval is the caller's on every route: `interval` decides between the single-pass kernel (whole
        # recording) and the profile route, and is handed to avrg/integral - re-binding it (say to None when it spans the
        # recording) makes the scalar average over something else than the profile route of the same call does
        if 'interval' in [a.arg for a in f.node.args.args + f.node.args.kwonlyargs]:
            t = f"{f.name}: the averaging interval reaches the route selection and avrg/integral as the caller gave it (never re-bound)"
            rebinds = [n for n in ast.walk(f.node) if isinstance(n, (ast.Assign, ast.AugAssign, ast.AnnAssign)) and any(
                isinstance(x, ast.Name) and x.id == 'interval' and isinstance(x.ctx, ast.Store)
                for tg in (n.targets if isinstance(n, ast.Assign) else [n.target]) for x in ast.walk(tg))]
            harmless = [n for n in rebinds if isinstance(n, ast.Assign) and isinstance(n.value, ast.Call) and len(n.value.args) == 1
                        and ast.unparse(n.value.func) in ('tuple', 'list', 'np.array', 'np.asarray')
                        and isinstance(n.value.args[0], ast.Name) and n.value.args[0].id == 'interval']
            other = [n for n in rebinds if n not in harmless]
            if not other:
                obs.append(ok(rule, t, f.loc(), construct=f"{_fn(f)}::interval-as-given"))
            else:
                obs.append(violation(rule, t, f.loc(other[0]), key=f"{_fn(f)}::interval-rebound::{ast.unparse(other[0])[:60]}",
                                     detail=f"`{ast.unparse(other[0])[:100]}`"))
        # (b) non-compiled routes: every return outside the try body goes through a profile route of this family
        routes = []
        for n in ast.walk(f.node):
            if isinstance(n, ast.Call) and isinstance(n.func, ast.Attribute) and n.func.attr in ('avrg', 'integral') \
                    and isinstance(n.func.value, ast.Call):
                routes.append(n)
        # spike_directionality-style fallback (per-spike values summed) has no avrg/integral: handled by its own rule
        for n in routes:
            inner = n.func.value
            tg = wm.callees(f, inner)
            tname = tg[0][0].name if tg else '?'
            reach = _reaches(wm, tg[0][0], fam.wrapper) if tg else False
            t = (f"{f.name}: non-compiled route is `{tname}(same trains, same settings).{n.func.attr}(interval)` with "
                 f"`{tname}` the profile function of the same measure")
            args_ok = len(inner.args) >= 2 and [ast.unparse(a) for a in inner.args[:2]] == tps_list[:2]
            ival_ok = len(n.args) == 1 and isinstance(n.args[0], ast.Name) and n.args[0].id == 'interval'
            if not n.args and not n.keywords and _interval_is_none_at(f, n) and _method_default_none(wm, n.func.attr):
                ival_ok = True              # `.integral()` is `.integral(None)`, and interval is None on this path
            # settings: **kwargs forwarded, or MRTS passed explicitly; max_tau (if a parameter) forwarded
            has_kwargs = any(k.arg is None for k in inner.keywords)
            kwnames = {k.arg for k in inner.keywords if k.arg}
            fparams = [a.arg for a in f.node.args.args]
            mrts_ok = has_kwargs or 'MRTS' in kwnames
            if not mrts_ok:
                # the resolved threshold handed on positionally to a private profile helper
                kl = {k_ for k_, v_ in _keyword_locals(wm, f).items() if v_ == 'MRTS'} | {'MRTS'}
                mrts_ok = any(isinstance(a, ast.Name) and a.id in kl for a in inner.args[2:])
            tau_ok = True
            if 'max_tau' in fparams:
                tau_ok = ('max_tau' in kwnames and isinstance(next(k.value for k in inner.keywords if k.arg == 'max_tau'), ast.Name)) or \
                    any(isinstance(a, ast.Name) and a.id == 'max_tau' for a in inner.args[2:])
            good = reach and args_ok and ival_ok and mrts_ok and tau_ok
            if good:
                obs.append(ok(rule, t, f.loc(n), construct=f"{_fn(f)}::route::{n.lineno - f.node.lineno}"))
            else:
                obs.append(violation(rule, t, f.loc(n), key=f"{_fn(f)}::route::{ast.unparse(n)[:80]}",
                                     detail=f"reaches profile wrapper={reach} trains={args_ok} interval={ival_ok} "
                                            f"MRTS forwarded={mrts_ok} max_tau forwarded={tau_ok}: {ast.unparse(n)}"))
        if not routes and fam.single_site is not None:
            obs.append(info(rule, f"{f.name}: fallback does not go through avrg/integral (per-spike route)", f.loc()))
    return obs


def _method_default_none(wm: WrapperModel, meth: str) -> bool:
    """every method of that name in the package takes (self, interval=None)"""
    found = 0
    for m in wm.repo.modules.values():
        for qual, fi in m.functions.items():
            if '.' in qual and qual.rsplit('.', 1)[1] == meth:
                a = fi.node.args
                found += 1
                if len(a.args) != 2 or a.args[1].arg != 'interval' or len(a.defaults) != 1 \
                        or not (isinstance(a.defaults[0], ast.Constant) and a.defaults[0].value is None):
                    return False
    return found > 0


def _interval_is_none_at(f: FuncInfo, node: ast.AST) -> bool:
    """`interval` is a parameter that is never re-bound, and `node` lies either after a top-level
    `if interval is not None: raise/return` or inside the body of an `if interval is None:`."""
    if 'interval' not in [a.arg for a in f.node.args.args + f.node.args.kwonlyargs]:
        return False
    if any(isinstance(x, ast.Name) and x.id == 'interval' and isinstance(x.ctx, ast.Store) for x in ast.walk(f.node)):
        return False

    def is_test(t, op):
        return isinstance(t, ast.Compare) and len(t.ops) == 1 and isinstance(t.ops[0], op) and isinstance(t.left, ast.Name) \
            and t.left.id == 'interval' and isinstance(t.comparators[0], ast.Constant) and t.comparators[0].value is None

    def inside(block, known) -> bool:
        for st in block:
            if any(x is node for x in ast.walk(st)):
                if known and not isinstance(st, (ast.If, ast.Try, ast.For, ast.While, ast.With)):
                    return True
                if isinstance(st, ast.If):
                    if any(x is node for x in ast.walk(st.test)):
                        return known
                    in_body = any(x is node for b in st.body for x in ast.walk(b))
                    k2 = known or (is_test(st.test, ast.Is) if in_body else is_test(st.test, ast.IsNot))
                    return inside(st.body if in_body else st.orelse, k2)
                if isinstance(st, (ast.FunctionDef, ast.ClassDef)):
                    return False
                for b in ([st.body, st.orelse, st.finalbody] + [h.body for h in st.handlers]) if isinstance(st, ast.Try) \
                        else [getattr(st, 'body', []), getattr(st, 'orelse', [])]:
                    if any(x is node for s2 in b for x in ast.walk(s2)):
                        return inside(b, known)
                return known
            if isinstance(st, ast.If) and not st.orelse and is_test(st.test, ast.IsNot) and st.body \
                    and isinstance(st.body[-1], (ast.Raise, ast.Return)):
                known = True
        return False
    return inside(f.node.body, False)


def _reaches(wm: WrapperModel, src: FuncInfo, dst: FuncInfo, depth: int = 0) -> bool:
    if src.qual == dst.qual:
        return True
    if depth > 4:
        return False
    for n in ast.walk(src.node):
        if isinstance(n, ast.Call):
            for t, _ in wm.callees(src, n):
                if t.qual != src.qual and _reaches(wm, t, dst, depth + 1):
                    return True
            # function-valued arguments
            for a in list(n.args) + [k.value for k in n.keywords]:
                if isinstance(a, ast.Name):
                    r = wm.repo.resolve_symbol(src.module, a.id)
                    if r and r.qual != src.qual and _reaches(wm, r, dst, depth + 1):
                        return True
                    if a.id in wm.partials.get(src.qual, {}):
                        if _reaches(wm, wm.partials[src.qual][a.id][0], dst, depth + 1):
                            return True
    return False


# ======================================================================================
# R14.1 dispatcher agreement
# ======================================================================================
def r14_1_dispatchers(ctx, rule: str = 'R14.1') -> List[Ob]:
    wm = wrapper_model(ctx)
    obs: List[Ob] = []
    for f in wm.funcs:
        if not (f.node.args.vararg and f.node.args.kwarg and not f.node.args.args):
            continue
        va, kw = f.node.args.vararg.arg, f.node.args.kwarg.arg
        # the arms by path: every path of the dispatcher is decided by tests on len(args) and returns one call
        from .rules_classes import MethodPaths
        from .compare import Inconclusive as _Inc
        from . import canon as C
        try:
            mp = MethodPaths(f).run()
        except (_Inc, C.CanonError) as e:
            obs.append(inconclusive(rule, f"{f.name}: var-args dispatcher is a single if/elif/else on len(args)", f.loc(),
                                    str(e), construct=_fn(f)))
            continue
        L = C.atom(('call', 'len', (C.atom(('n', va)),)))
        eq1, eq2 = C.mk_cmp('eq', L, C.ONE), C.mk_cmp('eq', L, C.const(2))
        ret_nodes = {id(n): n for n in ast.walk(f.node) if isinstance(n, ast.Return)}
        arms = {}
        shape_ok = bool(mp.results)
        for v, conds, env_, stores_, node in mp.results:
            cs = set(conds)
            if any(C.mk_not(c) in cs for c in cs):
                continue
            others = [c for c in cs if c not in (eq1, eq2, C.mk_not(eq1), C.mk_not(eq2))]
            if eq1 in cs:
                key = 1
            elif eq2 in cs:
                key = 2
            elif C.mk_not(eq1) in cs and (C.mk_not(eq2) in cs or not any(eq2 in set(r[1]) for r in mp.results)):
                key = 'else'
            else:
                key = None
            sa = C.single_atom(v) if v is not None and C.is_poly(v) else None
            if key is None or others or sa is None or sa[0] != 'call' or not isinstance(sa[1], str) or key in arms:
                shape_ok = False
                break
            kws = sa[3] if len(sa) > 3 else ()
            fw = len(kws) == 1 and kws[0][0] == '**' and kws[0][1] == C.atom(('n', kw))
            call_node = node.value if isinstance(node, ast.Return) and isinstance(node.value, ast.Call) else node
            shown = [C.show(x) if not (isinstance(x, tuple) and x and x[0] == 'star') else None for x in sa[2]]
            if key == 2 and len(sa[2]) == 1 and isinstance(sa[2][0], tuple) and sa[2][0][0] == 'star' \
                    and sa[2][0][1] == C.atom(('n', va)):
                # `bi(*args)` under len(args) == 2 passes args[0], args[1]
                shown = [f"{va}[0]", f"{va}[1]"]
            arms[key] = (sa[1], [x if x is not None else '*' for x in shown], fw, call_node)
        if not shape_ok or 'else' not in arms or 1 not in arms:
            obs.append(inconclusive(rule, f"{f.name}: var-args dispatcher is a single if/elif/else on len(args) whose arms are "
                                    f"`return g(..., **kwargs)`", f.loc(), construct=_fn(f)))
            continue
        # one list argument -> multi(args[0]); else -> multi(args): same target
        t = f"{f.name}: a single list argument and several separate train arguments go to the same multivariate function"
        g1, a1, k1, c1 = arms[1]
        ge, ae, ke, ce = arms['else']
        if g1 == ge and a1 == [f"{va}[0]"] and ae == [va] and k1 and ke:
            obs.append(ok(rule, t, f.loc(c1), construct=f"{_fn(f)}::multi"))
        else:
            obs.append(violation(rule, t, f.loc(c1), key=f"{_fn(f)}::multi-arms",
                                 detail=f"len==1 -> {g1}({', '.join(a1)}, **kw={k1}); else -> {ge}({', '.join(ae)}, **kw={ke})"))
        if 2 in arms:
            g2, a2, k2, c2 = arms[2]
            t = f"{f.name}: exactly two arguments go to the bivariate function with both trains in order and all keywords"
            tg2 = wm.repo.resolve_symbol(f.module, g2)
            tgm = wm.repo.resolve_symbol(f.module, g1)
            same_family = False
            detail = ''
            if tg2 and tgm:
                s2 = _reachable_sites(wm, tg2)
                sm = _reachable_sites(wm, tgm)
                same_family = bool(s2) and bool(sm) and (s2 <= sm or sm <= s2 or bool(s2 & sm))
                detail = f"kernels reached: bi {sorted(s2)}, multi {sorted(sm)}"
            if a2 == [f"{va}[0]", f"{va}[1]"] and k2 and same_family:
                obs.append(ok(rule, t, f.loc(c2), construct=f"{_fn(f)}::bi", detail=detail))
            elif a2 == [f"{va}[0]", f"{va}[1]"] and k2 and tg2 and tgm and (not s2 or not sm):
                # no backend routine is reached from one of the arms: the backend selection of these functions is not resolved
                # (no `from .cython.x import y` dispatch site), so which measure they compute cannot be compared
                obs.append(inconclusive(rule, t, f.loc(c2), f"no dispatch site reached from `{g2 if not s2 else g1}`: backend selection not resolved",
                                        construct=f"{_fn(f)}::bi"))
            else:
                obs.append(violation(rule, t, f.loc(c2), key=f"{_fn(f)}::bi-arm",
                                     detail=f"len==2 -> {g2}({', '.join(a2)}, **kw={k2}); same measure={same_family}; {detail}"))
        else:
            obs.append(info(rule, f"{f.name}: two-way dispatcher (no bivariate arm)", f.loc()))
    return obs


def _reachable_sites(wm: WrapperModel, f: FuncInfo, depth: int = 0, seen: Optional[Set[str]] = None) -> Set[str]:
    seen = seen if seen is not None else set()
    if f.qual in seen or depth > 5:
        return set()
    seen.add(f.qual)
    out = {s.compiled_symbol for s in wm.site_by_func.get(f.qual, []) if s.kind == 'paired'}
    for n in ast.walk(f.node):
        if isinstance(n, ast.Call):
            for t, _ in wm.callees(f, n):
                out |= _reachable_sites(wm, t, depth + 1, seen)
            for a in list(n.args) + [k.value for k in n.keywords]:
                if isinstance(a, ast.Call) and a.args and ast.unparse(a.func).split('.')[-1] == 'partial':
                    a = a.args[0]           # the partial application written in place
                if isinstance(a, ast.Name):
                    if a.id in wm.partials.get(f.qual, {}):
                        out |= _reachable_sites(wm, wm.partials[f.qual][a.id][0], depth + 1, seen)
                    else:
                        r = wm.repo.resolve_symbol(f.module, a.id)
                        if r:
                            out |= _reachable_sites(wm, r, depth + 1, seen)
    return out


# ======================================================================================
# R14.4 positional binding agreement / R14.5 keyword flow
# ======================================================================================
def r14_4_positional_binding(ctx, rule: str = 'R14.4') -> List[Ob]:
    wm = wrapper_model(ctx)
    obs: List[Ob] = []
    tracked = set(TRACKED_KEYWORDS) | {'threshold', 'Reconcile'}
    for f in wm.funcs:
        for n in ast.walk(f.node):
            if not isinstance(n, ast.Call):
                continue
            tgs = wm.callees(f, n)
            for t, pre in tgs:
                tp = [a.arg for a in t.node.args.args if a.arg not in pre]
                if t.cls and tp and tp[0] == 'self':
                    tp = tp[1:]
                for k, a in enumerate(n.args):
                    if isinstance(a, ast.Starred):
                        break
                    if isinstance(a, ast.Name) and a.id in tracked:
                        title = (f"{f.name}: `{a.id}` passed positionally to {t.name}() lands on the parameter of the same name")
                        if k < len(tp) and tp[k] == a.id:
                            obs.append(ok(rule, title, f.loc(n), construct=f"{_fn(f)}::{t.name}::{a.id}"))
                        elif a.id not in [x.arg for x in t.node.args.args]:
                            continue     # callee has no parameter of that name (local helper with its own naming)
                        else:
                            got = tp[k] if k < len(tp) else '<none>'
                            obs.append(violation(rule, title, f.loc(n), key=f"{_fn(f)}::{t.name}::{a.id}->{got}",
                                                 detail=f"position {k} of {t.name}({', '.join(tp)}) is `{got}`"))
                scope = {a.arg for a in f.node.args.args} | {x.id for x in ast.walk(f.node) if isinstance(x, ast.Name)
                                                              and isinstance(x.ctx, ast.Store)}
                for kwd in n.keywords:
                    if kwd.arg in ('interval', 'max_tau', 'MRTS', 'RI', 'indices') and kwd.arg in scope and \
                            not (isinstance(kwd.value, ast.Name) and kwd.value.id in tracked):
                        if kwd.arg == 'interval' and isinstance(kwd.value, ast.Constant) and kwd.value.value is None \
                                and _interval_is_none_at(f, n):
                            continue        # `interval=None` where the parameter is known to be None: the same value
                        title = f"{f.name}: keyword `{kwd.arg}=` of {t.name}() is fed from the variable of the same name"
                        obs.append(violation(rule, title, f.loc(n), key=f"{_fn(f)}::{t.name}::kw:{kwd.arg}<-expr",
                                             detail=f"`{ast.unparse(kwd)}` although `{kwd.arg}` is in scope"))
                        continue
                    if kwd.arg in tracked and isinstance(kwd.value, ast.Name) and kwd.value.id in tracked:
                        title = f"{f.name}: keyword `{kwd.arg}=` of {t.name}() is fed from the variable of the same name"
                        if kwd.value.id == kwd.arg:
                            obs.append(ok(rule, title, f.loc(n), construct=f"{_fn(f)}::{t.name}::kw:{kwd.arg}"))
                        else:
                            obs.append(violation(rule, title, f.loc(n), key=f"{_fn(f)}::{t.name}::kw:{kwd.arg}<-{kwd.value.id}",
                                                 detail=ast.unparse(kwd)))
    return obs


def r14_5_keyword_flow(ctx, rule: str = 'R14.5') -> List[Ob]:
    """A tracked keyword that a wrapper has in scope is handed to every callee that accepts it (by name, by
    position, inside **kwargs or pre-bound through functools.partial) - it is never silently dropped."""
    wm = wrapper_model(ctx)
    obs: List[Ob] = []
    tracked = ('interval', 'max_tau', 'indices', 'normalize')
    kw_tracked = ('MRTS', 'RI')
    # tracked keyword parameters are never rewritten on the way (except the documented normalisations)
    for f in wm.funcs:
        fparams0 = [a.arg for a in f.node.args.args]
        for p in [x for x in fparams0 if x in ('interval', 'max_tau', 'indices', 'normalize')]:
            for n in ast.walk(f.node):
                if not (isinstance(n, ast.Assign) and any(isinstance(t_, ast.Name) and t_.id == p for tt in n.targets for t_ in ast.walk(tt))):
                    continue
                v = n.value
                allowed = False
                if p == 'max_tau' and isinstance(v, ast.Constant) and v.value in (0, 0.0):
                    allowed = True
                if p == 'indices' and isinstance(v, ast.Call) and ast.unparse(v.func) in ('np.arange', 'np.array', 'np.asarray', 'list', 'range'):
                    allowed = True
                title = (f"{f.name}: keyword parameter `{p}` is passed on as given (only `max_tau: None -> 0.0` and the `indices` "
                         f"normalisation rewrite a tracked keyword)")
                if allowed:
                    obs.append(ok(rule, title, f.loc(n), construct=f"{_fn(f)}::{p}::rebind"))
                else:
                    obs.append(violation(rule, title, f.loc(n), key=f"{_fn(f)}::{p}::rewritten::{ast.unparse(v)[:60]}",
                                         detail=f"`{ast.unparse(n)[:120]}`: this call form now honours `{p}` differently from the others"))
    for f in wm.funcs:
        fparams = [a.arg for a in f.node.args.args]
        in_scope = [p for p in fparams if p in tracked]
        has_kwargs = f.node.args.kwarg is not None
        # parameters accepted and never read
        for p in in_scope:
            reads = [x for x in ast.walk(f.node) if isinstance(x, ast.Name) and x.id == p and isinstance(x.ctx, ast.Load)]
            t = f"{f.name}: parameter `{p}` is used"
            if reads:
                obs.append(ok(rule, t, f.loc(), construct=f"{_fn(f)}::{p}::used"))
            elif (f.name == 'filter_by_spike_sync' and p == 'indices') or p == 'normalize':
                obs.append(info(rule, f"{f.name}: parameter `{p}` is accepted and ignored (not among the keywords/measures C14 enumerates)", f.loc()))
            else:
                obs.append(violation(rule, t, f.loc(), key=f"{_fn(f)}::{p}::unused",
                                     detail="accepted and silently ignored"))
        for n in ast.walk(f.node):
            if not isinstance(n, ast.Call):
                continue
            for t_, pre in wm.callees(f, n):
                if t_.module.startswith('pyspike.cython') or t_.name in ('default_thresh', 'resolve_keywords',
                                                                           'reconcile_spike_trains', 'reconcile_spike_trains_bi'):
                    continue
                tp = [a.arg for a in t_.node.args.args]
                passed_pos = tp_pos = [a for a in tp if a not in pre]
                bound: Set[str] = set(pre)
                bound_expr: Dict[str, ast.AST] = {}
                k = 0
                for a in n.args:
                    if isinstance(a, ast.Starred):
                        break
                    if k < len(tp_pos):
                        bound.add(tp_pos[k])
                        bound_expr[tp_pos[k]] = a
                    k += 1
                bound |= {kk.arg for kk in n.keywords if kk.arg}
                for kk in n.keywords:
                    if kk.arg:
                        bound_expr[kk.arg] = kk.value
                fw_kwargs = any(kk.arg is None for kk in n.keywords)
                for p in in_scope:
                    if p in tp and p != 'indices' or (p == 'indices' and p in tp):
                        title = f"{f.name}: `{p}` is forwarded to {t_.name}() which accepts it"
                        # a function-valued parameter pre-bound elsewhere (partial) counts as forwarded
                        if p == 'interval' and p in bound_expr and isinstance(bound_expr[p], ast.Constant) \
                                and bound_expr[p].value is None and _interval_is_none_at(f, n):
                            obs.append(ok(rule, title, f.loc(n), construct=f"{_fn(f)}::{t_.name}::{p}"))
                            continue
                        if p in bound_expr and not (isinstance(bound_expr[p], ast.Name) and bound_expr[p].id == p):
                            obs.append(violation(rule, title, f.loc(n), key=f"{_fn(f)}::{t_.name}::not-forwarded:{p}",
                                                 detail=f"`{p}` of {t_.name}() is bound to `{ast.unparse(bound_expr[p])[:60]}` although this "
                                                        f"function has its own `{p}` to pass on"))
                        elif p in bound:
                            obs.append(ok(rule, title, f.loc(n), construct=f"{_fn(f)}::{t_.name}::fw:{p}"))
                        else:
                            # allowed: the callee is the per-pair function and the selection was already applied
                            if p == 'indices':
                                continue
                            obs.append(violation(rule, title, f.loc(n), key=f"{_fn(f)}::{t_.name}::dropped:{p}",
                                                 detail=f"call `{ast.unparse(n)[:100]}` does not bind `{p}`"))
                if has_kwargs and t_.node.args.kwarg is not None:
                    title = f"{f.name}: MRTS/RI (in **kwargs) are forwarded to {t_.name}()"
                    explicit = {kk.arg for kk in n.keywords if kk.arg}
                    if fw_kwargs or 'MRTS' in explicit:
                        obs.append(ok(rule, title, f.loc(n), construct=f"{_fn(f)}::{t_.name}::fw:kwargs"))
                    else:
                        obs.append(violation(rule, title, f.loc(n), key=f"{_fn(f)}::{t_.name}::dropped:kwargs",
                                             detail=f"call `{ast.unparse(n)[:100]}` forwards neither **kwargs nor MRTS="))
    return obs


# ======================================================================================
# the profile object is built from the kernel's arrays as they are returned
# ======================================================================================
FUNCTION_CLASSES = ('PieceWiseConstFunc', 'PieceWiseLinFunc', 'DiscreteFunc')
_MUTATORS = {'sort', 'resize', 'put', 'fill', 'itemset', 'partition', 'setfield', 'byteswap', 'append', 'extend', 'insert', 'pop',
             'remove', 'reverse', 'clear'}


def _same_values(a: ast.AST) -> ast.AST:
    """strip wrappers that return an array of the same values in the same order: x[:], x.copy(), np.asarray(x), np.array(x)"""
    while True:
        if isinstance(a, ast.Subscript) and isinstance(a.slice, ast.Slice) and a.slice.lower is None and a.slice.upper is None \
                and a.slice.step is None:
            a = a.value
        elif isinstance(a, ast.Call) and isinstance(a.func, ast.Attribute) and a.func.attr == 'copy' and not a.args and not a.keywords:
            a = a.func.value
        elif isinstance(a, ast.Call) and (dotted(a.func) or '') in ('np.asarray', 'np.array', 'np.ascontiguousarray', 'np.copy', 'numpy.asarray',
                                                                    'numpy.array') and len(a.args) == 1 \
                and all(k.arg in ('dtype', 'copy') for k in a.keywords) \
                and all(k.arg != 'dtype' or (isinstance(k.value, ast.Name) and k.value.id == 'float') or ast.unparse(k.value) in ('np.float64', 'np.double')
                        for k in a.keywords):
            a = a.args[0]
        else:
            return a


def r_profile_from_kernel(ctx, rule: str, modules: Optional[Tuple[str, ...]] = None) -> List[Ob]:
    """A bivariate profile function hands the arrays its kernel returns to the function class unchanged: the layout
    of those arrays (edge entries at both ends of a discrete profile, one value per interval of a piecewise profile)
    is what integral / avrg / add / evaluation of the class are written against; an entry dropped, a slice or a
    re-ordering between the kernel and the constructor changes every result derived from the profile."""
    wm = wrapper_model(ctx)
    repo = wm.repo
    mods = modules or ('pyspike.isi_distance', 'pyspike.spike_distance', 'pyspike.spike_sync', 'pyspike.spike_directionality')
    obs: List[Ob] = []
    found: Dict[str, int] = {m: 0 for m in mods}
    for fi in repo.all_functions(pyx=False):
        if fi.module not in mods:
            continue
        rets = [n for n in ast.walk(fi.node) if isinstance(n, ast.Return) and isinstance(n.value, ast.Call)
                and isinstance(n.value.func, ast.Name) and n.value.func.id in FUNCTION_CLASSES]
        calls = kernel_calls(wm, fi)
        if not rets or not calls:
            continue
        fn = _fn(fi)
        found[fi.module] += 1
        par = {}
        for n in ast.walk(fi.node):
            for c in ast.iter_child_nodes(n):
                par[c] = n
        binds = []
        direct: List[ast.Call] = []
        shape_problem = None
        for call, _s, _ks in calls:
            p = par.get(call)
            if isinstance(p, ast.Assign) and p.value is call and len(p.targets) == 1:
                t = p.targets[0]
                if isinstance(t, ast.Tuple) and all(isinstance(e, ast.Name) for e in t.elts):
                    binds.append((p, tuple(e.id for e in t.elts), False))
                    continue
                if isinstance(t, ast.Name):
                    binds.append((p, (t.id,), True))
                    continue
            if isinstance(p, ast.Starred) and isinstance(par.get(p), ast.Call) and any(par.get(p) is r.value for r in rets) \
                    and len(par[p].args) == 1 and not par[p].keywords:
                direct.append(call)                      # return Cls(*kernel(...)): nothing can lie in between
                continue
            shape_problem = f"the result of `{ast.unparse(call)[:60]}` is not bound to names"
        t_all = f"{fi.name} ({fi.path}): the profile object is constructed from the arrays of the kernel call exactly as returned"
        if direct and not binds and not shape_problem:
            for call in direct:
                obs.append(ok(rule, t_all, fi.loc(call), construct=f"{fn}::ctor::direct", detail='the constructor is applied to the kernel call itself'))
            continue
        if shape_problem or not binds or direct or len({b[1:] for b in binds}) != 1:
            obs.append(inconclusive(rule, t_all, fi.loc(), shape_problem or 'kernel calls bind different names', construct=fn))
            continue
        names, packed = binds[0][1], binds[0][2]
        bind_nodes = {id(b[0]) for b in binds}
        # single-assignment aliases  x = times
        alias: Dict[str, str] = {}
        for n in ast.walk(fi.node):
            if isinstance(n, ast.Assign) and len(n.targets) == 1 and isinstance(n.targets[0], ast.Name) and isinstance(n.value, ast.Name) \
                    and n.value.id in names and n.targets[0].id not in names:
                alias[n.targets[0].id] = n.value.id
        bad = False
        for nm in names:
            for n in ast.walk(fi.node):
                where = None
                if isinstance(n, ast.Name) and n.id == nm and isinstance(n.ctx, (ast.Store, ast.Del)):
                    q = par.get(n)
                    while q is not None and not isinstance(q, ast.stmt):
                        q = par.get(q)
                    if id(q) in bind_nodes:
                        continue
                    where, what = n, f"`{nm}` is bound again (`{ast.unparse(q)[:80]}`)"
                elif isinstance(n, ast.Subscript) and isinstance(n.ctx, (ast.Store, ast.Del)) and isinstance(n.value, ast.Name) and n.value.id == nm:
                    where, what = n, f"an element of `{nm}` is overwritten"
                elif isinstance(n, ast.Call) and isinstance(n.func, ast.Attribute) and isinstance(n.func.value, ast.Name) \
                        and n.func.value.id == nm and n.func.attr in _MUTATORS:
                    where, what = n, f"`{nm}.{n.func.attr}(...)` changes the array in place"
                if where is not None:
                    bad = True
                    obs.append(violation(rule, t_all, fi.loc(where), key=f"{fn}::kernel-result-changed::{nm}",
                                         detail=f"{what} between the kernel call and the constructor: the class methods (integral, avrg, add, "
                                                f"evaluation) are written against the layout the kernel produces"))
        for r in rets:
            cargs = [_same_values(a) for a in r.value.args]
            if r.value.keywords:
                kw = {k.arg: k.value for k in r.value.keywords}
            else:
                kw = {}
            if packed:
                good = len(cargs) == 1 and isinstance(cargs[0], ast.Starred) and isinstance(cargs[0].value, ast.Name) \
                    and alias.get(cargs[0].value.id, cargs[0].value.id) == names[0] and not kw
                if not good and cargs and not kw:
                    # Cls(res[0], res[1], ...): the components in their order
                    good = all(isinstance(a, ast.Subscript) and isinstance(a.value, ast.Name)
                               and alias.get(a.value.id, a.value.id) == names[0] and isinstance(a.slice, ast.Constant)
                               and a.slice.value == k for k, a in enumerate(cargs)) and len(cargs) >= 2
                want = f"*{names[0]}"
            else:
                got = [alias.get(a.id, a.id) if isinstance(a, ast.Name) else None for a in cargs]
                good = got == list(names) and not kw
                want = ', '.join(names)
            if good:
                if not bad:
                    obs.append(ok(rule, t_all, fi.loc(r), construct=f"{fn}::ctor::L{r.lineno}", detail=f"{r.value.func.id}({want})"))
                continue
            # an argument that computes on a kernel array (slice, arithmetic, call) or another order: violation; unknown names: undecided
            mentions = [a for a in list(cargs) + list(kw.values())
                        if not isinstance(a, ast.Name) and any(isinstance(x, ast.Name) and alias.get(x.id, x.id) in names for x in ast.walk(a))]
            plain = [alias.get(a.id, a.id) for a in cargs if isinstance(a, ast.Name)]
            if mentions or (len(plain) == len(cargs) == len(names) and set(plain) == set(names)):
                obs.append(violation(rule, t_all, fi.loc(r), key=f"{fn}::ctor-args",
                                     detail=f"`{ast.unparse(r.value)[:100]}`; expected {r.value.func.id}({want})"))
            else:
                obs.append(inconclusive(rule, t_all, fi.loc(r), f"`{ast.unparse(r.value)[:100]}`: arguments are not the names bound by the "
                                                                 f"kernel call ({want})", construct=f"{fn}::ctor"))
    t = "bivariate profile functions (kernel call + function-class constructor) are found in each measure's module"
    missing = [m for m, k in found.items() if k == 0]
    if missing:
        obs.append(inconclusive(rule, t, 'pyspike', f"none recognised in {missing}", construct='profile-ctor::found'))
    else:
        obs.append(ok(rule, t, 'pyspike', construct='profile-ctor::found', detail=str(found)))
    return obs
