"""Pair-value providers hand on what the kernel / the profile computed (who-may-write rule on the pooled pair).

The scalar multivariate measures that are *pooled* ratios - SPIKE-Sync and spike train order - accumulate, pair by
pair, the two numbers `(c, mp)` (summed profile values, summed multiplicities) that a private provider returns
(`_spike_sync_values`, `_spike_train_order_impl`), and divide the totals once.  The totals equal the integral of the
multivariate profile - which is what makes `f(list, interval)` the average of the profile, permutation invariant and
equal on every call form - exactly when every provider returns the pair as it was computed: by the compiled /
fallback kernel, or by `<bivariate profile>.integral(interval)`.  A provider that substitutes another pair on some
path (a "convention" for a silent pair such as (1, 1), a clamp, a rounding) changes the pooled ratio whenever that
path is taken by one pair of several, although every two-train call still looks right.

Rule: in every function whose result is unpacked into two names that a `*_multi` loop accumulates, every `return`
hands on (a) the result of a call of a backend kernel imported in that function, (b) the result of
`<call>.integral(...)`, or (c) names / components that are bound - by every assignment to them in the function - to
the components of such a call, in order.  A returned literal or arithmetic on the components is a definite violation;
an unrecognised shape is undecided.
"""
from __future__ import annotations

import ast
from typing import Dict, List, Optional, Set

from .frontend import FuncInfo
from .report import Ob, ok, violation, inconclusive

MODULES = ('pyspike.spike_sync', 'pyspike.spike_directionality')


def _fn(f: FuncInfo) -> str:
    return f"{f.path}::{f.name}"


def _own(node: ast.AST):
    stack = list(ast.iter_child_nodes(node))
    while stack:
        n = stack.pop()
        if isinstance(n, (ast.FunctionDef, ast.Lambda, ast.ClassDef)):
            continue
        yield n
        stack.extend(ast.iter_child_nodes(n))


def providers(repo) -> List[FuncInfo]:
    """functions of the pooled-ratio modules whose result a loop unpacks into two names and accumulates"""
    out: Dict[str, FuncInfo] = {}
    for mod in MODULES:
        if mod not in repo.modules:
            continue
        m = repo.modules[mod]
        for f in m.functions.values():
            for loop in _own(f.node):
                if not isinstance(loop, (ast.For, ast.While)):
                    continue
                for st in ast.walk(loop):
                    if isinstance(st, ast.Assign) and len(st.targets) == 1 and isinstance(st.targets[0], ast.Tuple) \
                            and len(st.targets[0].elts) == 2 and all(isinstance(e, ast.Name) for e in st.targets[0].elts) \
                            and isinstance(st.value, ast.Call) and isinstance(st.value.func, ast.Name):
                        a, b = (e.id for e in st.targets[0].elts)
                        accumulated = {x.value.id for x in ast.walk(loop) if isinstance(x, ast.AugAssign) and isinstance(x.op, ast.Add)
                                       and isinstance(x.value, ast.Name) and isinstance(x.target, ast.Name)}
                        callee = st.value.func.id
                        if {a, b} <= accumulated and callee in m.functions:
                            out[callee] = m.functions[callee]
                        elif {a, b} <= accumulated and callee in m.imports and m.imports[callee][1] \
                                and repo.has_func(m.imports[callee][0], m.imports[callee][1]):
                            g = repo.func(m.imports[callee][0], m.imports[callee][1])
                            if not g.is_pyx and '.cython' not in g.module:
                                out[g.name] = g
    return list(out.values())


def r_pair_value_providers(ctx, rule: str) -> List[Ob]:
    repo = ctx.repo
    obs: List[Ob] = []
    provs = providers(repo)
    if not provs:
        return [inconclusive(rule, "the providers of the pooled pair (summed values, summed multiplicities) are found: a `*_multi` loop that "
                                   "unpacks a call into two names and accumulates both", 'pyspike/spike_sync.py', construct='pair-providers')]
    for f in provs:
        fn = _fn(f)
        # backend kernels imported inside the function (`from .cython... import X as impl`)
        kernels: Set[str] = set()
        for n in _own(f.node):
            if isinstance(n, ast.ImportFrom) and n.module and 'cython' in n.module:
                kernels |= {a.asname or a.name for a in n.names}

        def source_call(e: ast.AST) -> bool:
            if not isinstance(e, ast.Call):
                return False
            if isinstance(e.func, ast.Name) and e.func.id in kernels:
                return True
            return isinstance(e.func, ast.Attribute) and e.func.attr == 'integral' and isinstance(e.func.value, ast.Call)

        # every assignment to a name, anywhere in the function
        defs: Dict[str, List[tuple]] = {}
        for n in _own(f.node):
            if isinstance(n, ast.Assign):
                for t in n.targets:
                    if isinstance(t, ast.Name):
                        defs.setdefault(t.id, []).append(('whole', n.value, n))
                    elif isinstance(t, (ast.Tuple, ast.List)):
                        for k, e in enumerate(t.elts):
                            if isinstance(e, ast.Name):
                                defs.setdefault(e.id, []).append(('comp', k, n.value, n))
            elif isinstance(n, (ast.AugAssign, ast.AnnAssign)) and isinstance(n.target, ast.Name):
                defs.setdefault(n.target.id, []).append(('update', n, n))
            elif isinstance(n, (ast.For, ast.comprehension)):
                for e in ast.walk(n.target):
                    if isinstance(e, ast.Name):
                        defs.setdefault(e.id, []).append(('loop', n, n))
            elif isinstance(n, ast.NamedExpr) and isinstance(n.target, ast.Name):
                defs.setdefault(n.target.id, []).append(('whole', n.value, n))
        params = {a.arg for a in f.node.args.args + f.node.args.kwonlyargs}

        def literal_or_arith(e: ast.AST) -> bool:
            return isinstance(e, (ast.Constant, ast.BinOp, ast.UnaryOp, ast.IfExp)) or \
                (isinstance(e, ast.Call) and isinstance(e.func, ast.Name) and e.func.id in ('float', 'int', 'max', 'min', 'abs', 'round'))

        def component(e: ast.AST, k: int, depth: int = 0) -> Optional[str]:
            """None when component k of the result is component k of a source call; else 'bad: ...' / 'unknown: ...'"""
            if depth > 4:
                return 'unknown: definition chain too long'
            if isinstance(e, ast.Name):
                if e.id in params or e.id not in defs:
                    return f"unknown: `{e.id}` is not computed in the function"
                for d in defs[e.id]:
                    if d[0] == 'comp' and d[1] == k and source_call(d[2]):
                        continue
                    if d[0] == 'comp' and isinstance(d[2], (ast.Tuple, ast.List)) and d[1] < len(d[2].elts):
                        r = component(d[2].elts[d[1]], k, depth + 1)
                        if r is None:
                            continue
                        return r
                    if d[0] == 'comp' and d[1] != k and source_call(d[2]):
                        return f"bad: `{e.id}` is component {d[1]} of the computed pair but is returned as component {k}"
                    if d[0] == 'update':
                        return f"bad: `{ast.unparse(d[1])}` changes a component of the computed pair"
                    if d[0] == 'whole':
                        if literal_or_arith(d[1]):
                            return f"bad: `{ast.unparse(d[2])[:70]}` replaces a component of the computed pair"
                        if isinstance(d[1], ast.Subscript) and isinstance(d[1].slice, ast.Constant) and d[1].slice.value == k:
                            r = whole(d[1].value, depth + 1)
                            if r is None:
                                continue
                            return r
                        return f"unknown: `{ast.unparse(d[2])[:70]}`"
                    if d[0] == 'comp':
                        if isinstance(d[2], (ast.Tuple, ast.List)):
                            return f"bad: `{ast.unparse(d[3])[:70]}` replaces a component of the computed pair"
                        return f"unknown: `{ast.unparse(d[3])[:70]}`"
                    return f"unknown: `{e.id}` is bound by a loop"
                return None
            if isinstance(e, ast.Subscript) and isinstance(e.slice, ast.Constant) and e.slice.value == k:
                return whole(e.value, depth + 1)
            if literal_or_arith(e):
                return f"bad: component {k} of the result is `{ast.unparse(e)[:50]}`, not what the kernel / the profile computed"
            return f"unknown: `{ast.unparse(e)[:60]}`"

        def whole(e: ast.AST, depth: int = 0) -> Optional[str]:
            if depth > 4:
                return 'unknown: definition chain too long'
            if source_call(e):
                return None
            if isinstance(e, ast.Call) and isinstance(e.func, ast.Name) and e.func.id == 'tuple' and len(e.args) == 1 and not e.keywords:
                return whole(e.args[0], depth + 1)
            if isinstance(e, (ast.Tuple, ast.List)):
                if len(e.elts) != 2:
                    return f"bad: a result of {len(e.elts)} components"
                for k, c in enumerate(e.elts):
                    r = component(c, k, depth)
                    if r is not None:
                        return r
                return None
            if isinstance(e, ast.Name):
                if e.id in params or e.id not in defs:
                    return f"unknown: `{e.id}` is not computed in the function"
                for d in defs[e.id]:
                    if d[0] == 'whole':
                        r = whole(d[1], depth + 1)
                        if r is not None:
                            return r
                    elif d[0] == 'update':
                        return f"bad: `{ast.unparse(d[1])}` changes the computed pair"
                    else:
                        return f"unknown: `{ast.unparse(d[-1])[:70]}`"
                return None
            if literal_or_arith(e):
                return f"bad: the result is `{ast.unparse(e)[:50]}`, not what the kernel / the profile computed"
            return f"unknown: `{ast.unparse(e)[:60]}`"

        rets = [n for n in _own(f.node) if isinstance(n, ast.Return)]
        t = (f"{f.name}: every path returns the pair (summed values, summed multiplicities) as the kernel or the profile's integral "
             f"computed it - the pooled ratio of the multivariate call is the ratio of the totals of exactly these pairs")
        if not rets:
            obs.append(inconclusive(rule, t, f.loc(), 'no return statement', construct=f"{fn}::pair-result"))
            continue
        for k, r in enumerate(rets):
            if r.value is None:
                obs.append(violation(rule, t, f.loc(r), key=f"{fn}::pair-result::none", detail='a path returns nothing'))
                continue
            res = whole(r.value)
            if res is None:
                obs.append(ok(rule, t, f.loc(r), construct=f"{fn}::pair-result::{k}"))
            elif res.startswith('bad: '):
                obs.append(violation(rule, t, f.loc(r), key=f"{fn}::pair-result::{res[5:65]}", detail=res[5:]))
            else:
                obs.append(inconclusive(rule, t, f.loc(r), res[9:], construct=f"{fn}::pair-result::{k}"))
    return obs


# ======================================================================================
# what a kernel is given: the trains' own arrays and edges
# ======================================================================================
def r_kernel_arguments(ctx, rule: str, modules=None) -> List[Ob]:
    """Every call of a backend kernel from the measure modules passes, as its two spike arrays, `<train>.spikes` or
    `<train>.get_spikes_non_empty()` of a train variable (a parameter, a reconciled pair, an element of the train
    list) - possibly through a local bound once to exactly that - and, as its edges, `<train>.t_start` / `<train>.t_end`
    of one of those trains.  The kernels are written for *all* spikes of a train on *its* interval (edge rules, auxiliary
    spikes, multiplicity of the edge entries): a slice, a filter, a window selection or another pair of edges in
    between makes the kernel compute the measure of different trains (a spike exactly on t_end dropped by a half-open
    selection changes the last interval of the ISI profile, for instance)."""
    from .rules_wrappers import kernel_calls
    from .wrappers import wrapper_model
    wm = wrapper_model(ctx)
    repo = wm.repo
    mods = modules or ('pyspike.isi_distance', 'pyspike.spike_distance', 'pyspike.spike_sync', 'pyspike.spike_directionality')
    obs: List[Ob] = []
    n_calls = 0
    for fi in repo.all_functions(pyx=False):
        if fi.module not in mods:
            continue
        calls = kernel_calls(wm, fi)
        if not calls:
            continue
        fn = _fn(fi)
        stores: Dict[str, List[ast.AST]] = {}
        for n in _own(fi.node):
            if isinstance(n, ast.Assign):
                for t in n.targets:
                    if isinstance(t, ast.Name):
                        stores.setdefault(t.id, []).append(n.value)
                    elif isinstance(t, (ast.Tuple, ast.List)):
                        for e in t.elts:
                            if isinstance(e, ast.Name):
                                stores.setdefault(e.id, []).append(None)
            elif isinstance(n, (ast.AugAssign, ast.AnnAssign)) and isinstance(n.target, ast.Name):
                stores.setdefault(n.target.id, []).append(None)
            elif isinstance(n, (ast.For, ast.comprehension)):
                for e in ast.walk(n.target):
                    if isinstance(e, ast.Name):
                        stores.setdefault(e.id, []).append(None)

        def resolve(e, depth=0):
            while isinstance(e, ast.Name) and depth < 4 and len(stores.get(e.id, [])) == 1 and stores[e.id][0] is not None:
                e, depth = stores[e.id][0], depth + 1
            return e

        def train_like(x) -> bool:
            return isinstance(x, ast.Name) or (isinstance(x, ast.Subscript) and not isinstance(x.slice, ast.Slice))

        def array_arg(e) -> Optional[str]:
            e = resolve(e)
            if isinstance(e, ast.Attribute) and e.attr == 'spikes' and train_like(e.value):
                return None
            if isinstance(e, ast.Call) and isinstance(e.func, ast.Attribute) and e.func.attr == 'get_spikes_non_empty' \
                    and not e.args and not e.keywords and train_like(e.func.value):
                return None
            if isinstance(e, ast.Subscript) or isinstance(e, (ast.BinOp, ast.ListComp, ast.GeneratorExp, ast.IfExp)) \
                    or (isinstance(e, ast.Call) and not (isinstance(e.func, ast.Attribute) and e.func.attr == 'get_spikes_non_empty')):
                return f"bad: `{ast.unparse(e)[:70]}` is not the train's own array (`<train>.spikes` / `<train>.get_spikes_non_empty()`)"
            return f"unknown: `{ast.unparse(e)[:70]}`"

        def edge_arg(e, attr) -> Optional[str]:
            e = resolve(e)
            if isinstance(e, ast.Attribute) and e.attr == attr and train_like(e.value):
                return None
            if isinstance(e, ast.Attribute) and e.attr in ('t_start', 't_end') and train_like(e.value):
                return f"bad: `{ast.unparse(e)}` is passed where the kernel expects `{attr}`"
            if isinstance(e, (ast.Constant, ast.BinOp, ast.Subscript)) or (isinstance(e, ast.Call) and isinstance(e.func, ast.Name)
                                                                        and e.func.id in ('float', 'min', 'max')):
                return f"bad: `{ast.unparse(e)[:70]}` is not the train's own `{attr}`"
            return f"unknown: `{ast.unparse(e)[:70]}`"
        for call, _site, _ks in calls:
            if 'simulated' in (_site.compiled_module or ''):
                continue            # (the annealing kernel works on a matrix, not on trains)
            if len(call.args) < 4 or any(isinstance(a, ast.Starred) for a in call.args[:4]):
                obs.append(inconclusive(rule, f"{fi.name}: the kernel call passes two spike arrays and two edges positionally", fi.loc(call),
                                        ast.unparse(call)[:80], construct=f"{fn}::kernel-args"))
                continue
            n_calls += 1
            t = (f"{fi.name}: the kernel `{ast.unparse(call.func)}` receives the trains' own spike arrays and edges (`<train>.spikes` / "
                 f"`<train>.get_spikes_non_empty()`, `<train>.t_start`, `<train>.t_end`) - nothing selected, sliced or re-framed in between")
            res = [array_arg(call.args[0]), array_arg(call.args[1]), edge_arg(call.args[2], 't_start'), edge_arg(call.args[3], 't_end')]
            bad = [r for r in res if r and r.startswith('bad: ')]
            unk = [r for r in res if r and r.startswith('unknown: ')]
            if bad:
                obs.append(violation(rule, t, fi.loc(call), key=f"{fn}::kernel-args::{bad[0][5:65]}", detail=bad[0][5:]))
            elif unk:
                obs.append(inconclusive(rule, t, fi.loc(call), unk[0][9:], construct=f"{fn}::kernel-args::{ast.unparse(call.func)}"))
            else:
                obs.append(ok(rule, t, fi.loc(call), construct=f"{fn}::kernel-args::{ast.unparse(call.func)}"))
    if n_calls == 0:
        obs.append(inconclusive(rule, "kernel calls of the measure modules are found", 'pyspike', construct='kernel-args'))
    return obs
