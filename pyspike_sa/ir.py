"""Structured IR over Python ASTs (shared by engines C, D, F).

A function body becomes a list of items:
  ('simple', stmt)                       Assign / AugAssign / Expr(call)
  ('if', [(test, items), ...], else_items, node)   if/elif chain flattened to guarded alternatives
  ('while', test, items, node)
  ('for', target, iter, items, node)
  ('return', value, node)
  ('jump', 'break'|'continue', node)
  ('raise', node)
  ('try', body_items, [(handler_type, items)], node)
Dropped (and recorded in `notes`): docstrings, `pass`, `assert`, bare `print(...)`,
`with nogil:` wrappers (flattened), nested function definitions (kept in `nested`).
"""
from __future__ import annotations

import ast
from typing import Dict, List, Tuple


class IRError(Exception):
    pass


class IRBuilder:
    def __init__(self, keep_asserts: bool = False, keep_prints: bool = False):
        self.notes: List[Tuple[str, ast.AST]] = []
        self.nested: Dict[str, ast.FunctionDef] = {}
        self.keep_asserts = keep_asserts
        self.keep_prints = keep_prints

    def build(self, body: List[ast.stmt]) -> list:
        out = []
        for k, st in enumerate(body):
            if isinstance(st, ast.Expr) and isinstance(st.value, ast.Constant) and isinstance(st.value.value, str):
                continue  # docstring / string statement
            if isinstance(st, ast.Pass):
                continue
            if isinstance(st, (ast.Import, ast.ImportFrom)):
                out.append(('import', st))
                continue
            if isinstance(st, ast.Assert):
                self.notes.append(('assert', st))
                if self.keep_asserts:
                    out.append(('assert', st.test, st))
                continue
            if isinstance(st, ast.Expr) and isinstance(st.value, ast.Call) and \
                    isinstance(st.value.func, ast.Name) and st.value.func.id == 'print':
                self.notes.append(('print', st))
                if self.keep_prints:
                    out.append(('simple', st))
                continue
            if isinstance(st, ast.Global):
                continue
            if isinstance(st, ast.FunctionDef):
                self.nested[st.name] = st
                out.append(('def', st))
                continue
            if isinstance(st, ast.With):
                names = [getattr(i.context_expr, 'id', None) for i in st.items]
                if names == ['nogil']:
                    out.extend(self.build(st.body))
                    continue
                out.append(('with', st, self.build(st.body)))
                continue
            if isinstance(st, (ast.Assign, ast.AugAssign, ast.AnnAssign, ast.Expr, ast.Delete)):
                out.append(('simple', st))
                continue
            if isinstance(st, ast.If):
                alts = []
                cur = st
                while True:
                    alts.append((cur.test, self.build(cur.body), cur))
                    if len(cur.orelse) == 1 and isinstance(cur.orelse[0], ast.If):
                        cur = cur.orelse[0]
                        continue
                    els = self.build(cur.orelse)
                    break
                out.append(('if', alts, els, st))
                continue
            if isinstance(st, ast.While):
                if st.orelse:
                    raise IRError(f"line {st.lineno}: while/else")
                out.append(('while', st.test, self.build(st.body), st))
                continue
            if isinstance(st, ast.For):
                if st.orelse:
                    raise IRError(f"line {st.lineno}: for/else")
                out.append(('for', st.target, st.iter, self.build(st.body), st))
                continue
            if isinstance(st, ast.Return):
                out.append(('return', st.value, st))
                continue
            if isinstance(st, ast.Break):
                out.append(('jump', 'break', st))
                continue
            if isinstance(st, ast.Continue):
                out.append(('jump', 'continue', st))
                continue
            if isinstance(st, ast.Raise):
                out.append(('raise', st))
                continue
            if isinstance(st, ast.Try):
                handlers = []
                for h in st.handlers:
                    ty = ast.unparse(h.type) if h.type is not None else None
                    handlers.append((ty, self.build(h.body), h))
                if st.finalbody:
                    raise IRError(f"line {st.lineno}: try/finally")
                out.append(('try', self.build(st.body), handlers, self.build(st.orelse), st))
                continue
            raise IRError(f"line {getattr(st, 'lineno', '?')}: statement kind {type(st).__name__}")
        return out


def assigned_names(items: list) -> set:
    """Names (re)bound anywhere in a list of IR items (not descending into nested defs)."""
    acc = set()

    def tgt(t):
        if isinstance(t, ast.Name):
            acc.add(t.id)
        elif isinstance(t, (ast.Tuple, ast.List)):
            for e in t.elts:
                tgt(e)
        elif isinstance(t, ast.Starred):
            tgt(t.value)

    def walk(its):
        for it in its:
            k = it[0]
            if k == 'simple':
                st = it[1]
                if isinstance(st, ast.Assign):
                    for t in st.targets:
                        tgt(t)
                elif isinstance(st, (ast.AugAssign, ast.AnnAssign)):
                    tgt(st.target)
            elif k == 'if':
                for _, body, _n in it[1]:
                    walk(body)
                walk(it[2])
            elif k == 'while':
                walk(it[2])
            elif k == 'for':
                tgt(it[1])
                walk(it[3])
            elif k == 'with':
                walk(it[2])
            elif k == 'try':
                walk(it[1])
                for _, b, _h in it[2]:
                    walk(b)
                walk(it[3])
            elif k == 'import':
                for a in it[1].names:
                    acc.add(a.asname or a.name.split('.')[0])
    walk(items)
    return acc


def stored_arrays(items: list) -> set:
    """Base names of subscript-store targets anywhere in a list of IR items."""
    acc = set()

    def tgt(t):
        if isinstance(t, ast.Subscript):
            b = t.value
            while isinstance(b, ast.Subscript):
                b = b.value
            if isinstance(b, ast.Name):
                acc.add(b.id)
        elif isinstance(t, (ast.Tuple, ast.List)):
            for e in t.elts:
                tgt(e)

    def walk(its):
        for it in its:
            k = it[0]
            if k == 'simple':
                st = it[1]
                if isinstance(st, ast.Assign):
                    for t in st.targets:
                        tgt(t)
                elif isinstance(st, (ast.AugAssign, ast.AnnAssign)):
                    tgt(st.target)
            elif k == 'if':
                for _, body, _n in it[1]:
                    walk(body)
                walk(it[2])
            elif k == 'while':
                walk(it[2])
            elif k == 'for':
                walk(it[3])
            elif k == 'with':
                walk(it[2])
            elif k == 'try':
                walk(it[1])
                for _, b, _h in it[2]:
                    walk(b)
                walk(it[3])
    walk(items)
    return acc


def read_names(node_or_items) -> set:
    """All Name ids loaded anywhere inside an AST node or list of IR items."""
    acc = set()

    def from_node(n):
        for x in ast.walk(n):
            if isinstance(x, ast.Name) and isinstance(x.ctx, ast.Load):
                acc.add(x.id)

    def walk(its):
        for it in its:
            for part in it[1:]:
                visit(part)

    def visit(part):
        if isinstance(part, ast.AST):
            from_node(part)
        elif isinstance(part, list):
            for p in part:
                if isinstance(p, tuple) and p and isinstance(p[0], str):
                    walk([p])
                else:
                    visit(p)
        elif isinstance(part, tuple):
            for p in part:
                visit(p)

    if isinstance(node_or_items, ast.AST):
        from_node(node_or_items)
    else:
        walk(node_or_items)
    return acc
