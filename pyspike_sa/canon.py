"""Engine B: canonicaliser.

Expressions are normalised to polynomials over Q in *atoms*.  Everything is an immutable
tuple so terms are hashable and comparable:

  Poly  = ('P', ((mono, coeff), ...))      mono = tuple of atoms (sorted, with repetition)
  atom  = ('n', name) | ('sub', base, index) | ('call', fname, args) | ('max', args) |
          ('min', args) | ('abs', poly) | ('div', num, den) | ('attr', base, name) |
          ('k', python constant) | ('slice', lo, hi, step) | ('tuple', items) |
          ('cmp', op, poly) | ('and', items) | ('or', items) | ('not', x) |
          ('ifexp', cond, a, b) | ('alloc', kind, size) | ...

The normal form is exact over the reals (not over IEEE floats): `2*a-b`, `a-(b-a)` and
`2*a+-b` coincide, `x += e` equals `x = x + e`, `max(a, max(b, c))` equals `max([c, b, a])`.
Strictness of comparisons is never normalised away.
"""
from __future__ import annotations

import ast
from fractions import Fraction
from typing import Callable, Dict, Iterable, List, Optional, Tuple

Term = tuple


class CanonError(Exception):
    """Expression shape the canonicaliser does not model (-> inconclusive)."""


def _key(t) -> str:
    return repr(t)


# ----------------------------------------------------------------------------
# polynomial arithmetic
# ----------------------------------------------------------------------------
def P(items: Dict[tuple, Fraction]) -> Term:
    its = tuple(sorted(((m, c) for m, c in items.items() if c != 0), key=lambda mc: _key(mc[0])))
    return ('P', its)


def const(c) -> Term:
    c = Fraction(c)
    return ('P', (((), c),)) if c != 0 else ('P', ())


ZERO = const(0)
ONE = const(1)


def atom(a: tuple) -> Term:
    return ('P', (((a,), Fraction(1)),))


def is_poly(t) -> bool:
    return isinstance(t, tuple) and len(t) == 2 and t[0] == 'P'


def as_poly(t) -> Term:
    if is_poly(t):
        return t
    return atom(t)


def items(p: Term) -> Dict[tuple, Fraction]:
    return dict(p[1])


def is_const(p: Term) -> bool:
    return all(m == () for m, _ in p[1])


def const_value(p: Term) -> Fraction:
    assert is_const(p)
    return p[1][0][1] if p[1] else Fraction(0)


def single_atom(p: Term) -> Optional[tuple]:
    """If p is exactly one atom with coefficient 1, return it."""
    if len(p[1]) == 1:
        m, c = p[1][0]
        if c == 1 and len(m) == 1:
            return m[0]
    return None


def add(a: Term, b: Term) -> Term:
    d = items(a)
    for m, c in b[1]:
        d[m] = d.get(m, Fraction(0)) + c
    return P(d)


def scale(a: Term, k) -> Term:
    k = Fraction(k)
    return P({m: c * k for m, c in a[1]})


def neg(a: Term) -> Term:
    return scale(a, -1)


def sub(a: Term, b: Term) -> Term:
    return add(a, neg(b))


def _mono_mul(m1: tuple, m2: tuple) -> tuple:
    return tuple(sorted(m1 + m2, key=_key))


def mul(a: Term, b: Term) -> Term:
    d: Dict[tuple, Fraction] = {}
    for m1, c1 in a[1]:
        for m2, c2 in b[1]:
            m = _mono_mul(m1, m2)
            d[m] = d.get(m, Fraction(0)) + c1 * c2
    return _merge_divs(P(d))


def _merge_divs(p: Term) -> Term:
    """Fold `x * div(n, d)` into `div(x*n, d)` so each monomial has at most one div atom
    and, if it has one, consists of that atom alone."""
    need = False
    for m, c in p[1]:
        nd = sum(1 for a in m if a[0] == 'div')
        if nd > 1 or (nd == 1 and len(m) > 1):
            need = True
            break
    if not need:
        return p
    out = ZERO
    for m, c in p[1]:
        divs = [a for a in m if a[0] == 'div']
        if not divs or (len(divs) == 1 and len(m) == 1):
            out = add(out, P({m: c}))
            continue
        rest = tuple(a for a in m if a[0] != 'div')
        num = P({rest: Fraction(1)})
        den = ONE
        for dv in divs:
            num = mul(num, dv[1])
            den = mul(den, dv[2])
        out = add(out, scale(div(num, den), c))
    return out


def content_sign(p: Term) -> Tuple[Fraction, Term]:
    """p = k * p' with p' primitive-ish: first coefficient (in canonical monomial order) is +1."""
    if not p[1]:
        return Fraction(0), p
    k = p[1][0][1]
    return k, scale(p, 1 / k)


def div(num: Term, den: Term) -> Term:
    if not den[1]:
        raise CanonError("division by literal zero")
    if is_const(den):
        return scale(num, 1 / const_value(den))
    if not num[1]:
        return ZERO
    # flatten nested quotients
    na = single_atom(num)
    # num = k * div(a, b)  ->  div(a, b*den)
    if len(num[1]) == 1 and len(num[1][0][0]) == 1 and num[1][0][0][0][0] == 'div':
        k = num[1][0][1]
        dv = num[1][0][0][0]
        return scale(div(dv[1], mul(dv[2], den)), k)
    if len(den[1]) == 1 and len(den[1][0][0]) == 1 and den[1][0][0][0][0] == 'div':
        k = den[1][0][1]
        dv = den[1][0][0][0]
        return scale(div(mul(num, dv[2]), dv[1]), 1 / k)
    if any(a[0] == 'div' for m, _ in num[1] for a in m) or any(a[0] == 'div' for m, _ in den[1] for a in m):
        # sums containing quotients: keep as an opaque quotient of the two sides
        pass
    kn, n1 = content_sign(num)
    kd, d1 = content_sign(den)
    if n1 == d1:
        return const(kn / kd)
    return scale(atom(('div', n1, d1)), kn / kd)


def mk_abs(p: Term) -> Term:
    if is_const(p):
        return const(abs(const_value(p)))
    k, p1 = content_sign(p)
    return scale(atom(('abs', p1)), abs(k))


def mk_minmax(kind: str, args: Iterable[Term]) -> Term:
    flat: List[Term] = []
    for a in args:
        sa = single_atom(a)
        if sa is not None and sa[0] == kind:
            flat.extend(sa[1])
        else:
            flat.append(a)
    uniq = sorted(set(flat), key=_key)
    consts = [a for a in uniq if is_const(a)]
    if len(consts) > 1:
        cv = [const_value(c) for c in consts]
        keep = const(max(cv) if kind == 'max' else min(cv))
        uniq = sorted(set([a for a in uniq if not is_const(a)] + [keep]), key=_key)
    if len(uniq) == 1:
        return uniq[0]
    return atom((kind, tuple(uniq)))


# ----------------------------------------------------------------------------
# conditions
# ----------------------------------------------------------------------------
def mk_cmp(op: str, lhs: Term, rhs: Term) -> tuple:
    """Canonical comparison atom: ('cmp', 'lt'|'le'|'eq'|'ne', poly) meaning poly OP 0."""
    if op in ('lt', 'le'):
        d = sub(lhs, rhs)
    elif op in ('gt', 'ge'):
        d = sub(rhs, lhs)
        op = 'lt' if op == 'gt' else 'le'
    else:
        d = sub(lhs, rhs)
        k, d1 = content_sign(d)
        d = d1 if d[1] else d
        return ('cmp', op, d)
    # scale by positive content only (keeps direction)
    if d[1]:
        k = abs(d[1][0][1])
        d = scale(d, 1 / k)
    return ('cmp', op, d)


def mk_not(c: tuple) -> tuple:
    if c[0] == 'cmp':
        op, d = c[1], c[2]
        if op == 'lt':
            return ('cmp', 'le', neg(d))
        if op == 'le':
            return ('cmp', 'lt', neg(d))
        if op == 'eq':
            return ('cmp', 'ne', d)
        if op == 'ne':
            return ('cmp', 'eq', d)
    if c[0] == 'not':
        return c[1]
    if c[0] == 'and':
        return ('or', tuple(mk_not(x) for x in c[1]))
    if c[0] == 'or':
        return ('and', tuple(mk_not(x) for x in c[1]))
    if c[0] == 'k' and isinstance(c[1], bool):
        return ('k', not c[1])
    return ('not', c)


def mk_bool(kind: str, parts: Iterable[tuple]) -> tuple:
    flat: List[tuple] = []
    for p in parts:
        if p[0] == kind:
            flat.extend(p[1])
        else:
            flat.append(p)
    if len(flat) == 1:
        return flat[0]
    return (kind, tuple(flat))


def cond_set_form(c: tuple) -> tuple:
    """Order-insensitive form of a condition (operands of and/or as sorted sets)."""
    if c[0] in ('and', 'or'):
        return (c[0], tuple(sorted({cond_set_form(x) for x in c[1]}, key=_key)))
    if c[0] == 'not':
        return ('not', cond_set_form(c[1]))
    return c


# ----------------------------------------------------------------------------
# generic traversal / substitution on canonical terms
# ----------------------------------------------------------------------------
def rebuild(t, f: Callable[[tuple], Optional[Term]]):
    """Bottom-up rebuild of a canonical term.  `f(atom)` may return a replacement Poly
    for an atom (after its children were rebuilt) or None to keep it."""
    if is_poly(t):
        out = ZERO
        for m, c in t[1]:
            term = const(c)
            for a in m:
                term = mul(term, as_poly(rebuild(a, f)))
            out = add(out, term)
        return out
    if not isinstance(t, tuple) or not t:
        return t
    tag = t[0]
    if tag in ('n', 'k'):
        new = t
    elif tag == 'sub':
        b_ = rebuild(t[1], f)
        if is_poly(b_) and single_atom(b_) is not None:
            b_ = single_atom(b_)          # the base of a subscript is an atom, also after a substitution
        new = ('sub', b_, rebuild(t[2], f))
    elif tag == 'call':
        new = mk_call(t[1], tuple(rebuild(a, f) for a in t[2]), t[3] if len(t) > 3 else ())
        if is_poly(new):
            return new
    elif tag in ('max', 'min'):
        r = mk_minmax(tag, [rebuild(a, f) for a in t[1]])
        sa = single_atom(r)
        if sa is None or sa[0] != tag:
            return r
        new = sa
    elif tag == 'abs':
        r = mk_abs(rebuild(t[1], f))
        sa = single_atom(r)
        if sa is None:
            return r
        new = sa
    elif tag == 'div':
        r = div(rebuild(t[1], f), rebuild(t[2], f))
        sa = single_atom(r)
        if sa is None:
            return r
        new = sa
    elif tag == 'attr':
        b_ = rebuild(t[1], f)
        if is_poly(b_) and single_atom(b_) is not None:
            b_ = single_atom(b_)
        new = ('attr', b_, t[2])
    elif tag == 'slice':
        new = ('slice',) + tuple(rebuild(x, f) if x is not None else None for x in t[1:])
    elif tag in ('tuple', 'list'):
        new = (tag, tuple(rebuild(x, f) for x in t[1]))
    elif tag == 'cmp':
        # re-normalise: poly OP 0
        new = mk_cmp(t[1], rebuild(t[2], f), ZERO)
    elif tag in ('and', 'or'):
        new = mk_bool(tag, [rebuild(x, f) for x in t[1]])
    elif tag == 'not':
        new = mk_not(rebuild(t[1], f))
    elif tag == 'ifexp':
        new = ('ifexp', rebuild(t[1], f), rebuild(t[2], f), rebuild(t[3], f))
    elif tag == 'alloc':
        new = ('alloc', t[1], rebuild(t[2], f)) + tuple(t[3:])
    elif tag == 'listcomp' and len(t) == 3:
        new = ('listcomp', rebuild(t[1], f),
               tuple((rebuild(it, f), names, tuple(rebuild(c, f) for c in conds)) for it, names, conds in t[2]))
    elif tag == 'bound':
        new = t
    else:
        new = tuple(rebuild(x, f) if isinstance(x, tuple) else x for x in t)
    r = f(new)
    return new if r is None else r


def resolve_ifexp(t, conds) -> Term:
    """Replace every conditional-expression atom whose condition (or its negation) is among the path conditions
    `conds` by the selected alternative: a value computed by `x = a if c else b` and a value computed on the
    branch of `if c:` are then directly comparable."""
    cs = set(conds)

    def f(a):
        if a[0] == 'ifexp':
            if a[1] in cs:
                return as_poly(a[2]) if is_poly(a[2]) else atom(a[2]) if isinstance(a[2], tuple) else a[2]
            try:
                if mk_not(a[1]) in cs:
                    return as_poly(a[3]) if is_poly(a[3]) else atom(a[3]) if isinstance(a[3], tuple) else a[3]
            except Exception:
                pass
        return None
    return rebuild(t, f)


def simplify_minmax(t, conds) -> Term:
    """min/max atoms with an operand that the conditions `conds` make redundant lose it: under `x <= y` (or `x < y`)
    min(x, y, ..) is min(x, ..) and max(x, y, ..) is max(y, ..)."""
    cs = set(conds)

    def le(x, y) -> bool:
        try:
            return mk_cmp('le', x, y) in cs or mk_cmp('lt', x, y) in cs
        except Exception:
            return False

    def f(a):
        if a[0] in ('min', 'max') and len(a[1]) >= 2:
            args = list(a[1])
            changed = True
            while changed and len(args) > 1:
                changed = False
                for i_, x in enumerate(args):
                    for j_, y in enumerate(args):
                        if i_ == j_:
                            continue
                        if le(x, y):
                            # x <= y: y is redundant in a min, x in a max
                            del args[j_ if a[0] == 'min' else i_]
                            changed = True
                            break
                    if changed:
                        break
            if len(args) != len(a[1]):
                return mk_minmax(a[0], args)
        return None
    return rebuild(t, f)


def _first_open_ifexp(t, cs):
    """condition of an outermost conditional-expression atom of `t` that the conditions `cs` do not decide"""
    found = []

    def f(a):
        if a[0] == 'ifexp' and not found:
            try:
                decided = a[1] in cs or mk_not(a[1]) in cs
            except Exception:
                decided = True
            if not decided:
                found.append(a[1])
        return None
    rebuild(t, f)
    return found[0] if found else None


def case_split(t, conds, limit: int = 64):
    """[(term, conditions)]: the value `t` reached under `conds`, split into the cases of every conditional expression
    that `conds` leave open (`a if c else b` -> a under c, b under not c); contradictory cases are dropped.  With more
    than `limit` cases the remaining conditional expressions stay as they are."""
    out = []
    work = [(resolve_ifexp(t, conds), list(conds))]
    while work:
        tm, cs = work.pop()
        c = _first_open_ifexp(tm, set(cs)) if len(out) + len(work) < limit else None
        if c is None:
            out.append((tm, cs))
            continue
        for cc in (c, mk_not(c)):
            cs2 = cs + [cc]
            if contradictory(cs2):
                continue
            work.append((resolve_ifexp(tm, cs2), cs2))
    return out


_SIGNS = {'lt': {-1}, 'le': {-1, 0}, 'eq': {0}, 'ne': {-1, 1}, 'gt': {1}, 'ge': {0, 1}}


def contradictory(conds) -> bool:
    """The conjunction of the path conditions is unsatisfiable for a simple reason: a condition together with its
    negation, or comparisons of one and the same quantity with 0 that exclude each other (`x == 0` and `x < 0`)."""
    cs = list(conds)
    s = set(cs)
    for c in cs:
        try:
            if mk_not(c) in s:
                return True
        except Exception:
            pass
    allowed: Dict[tuple, set] = {}
    for c in cs:
        if not (isinstance(c, tuple) and c and c[0] == 'cmp' and c[1] in _SIGNS and is_poly(c[2])):
            continue
        p, signs = c[2], set(_SIGNS[c[1]])
        its = p[1]
        if not its:
            continue
        # orientation: make the first non-constant coefficient positive
        lead = next((co for m, co in its if m != ()), None)
        if lead is None:
            continue
        if lead < 0:
            p = neg(p)
            signs = {-x for x in signs}
        cur = allowed.get(p)
        allowed[p] = signs if cur is None else (cur & signs)
        if not allowed[p]:
            return True
    return False


def subst_atoms(t, mapping: Dict[tuple, Term]):
    if not mapping:
        return t
    return rebuild(t, lambda a: mapping.get(a))


def atoms_of(t, acc=None) -> set:
    """All atoms occurring anywhere in a canonical term."""
    if acc is None:
        acc = set()
    if is_poly(t):
        for m, _ in t[1]:
            for a in m:
                atoms_of(a, acc)
        return acc
    if isinstance(t, tuple) and t:
        if isinstance(t[0], str) and t[0] in ('n', 'k'):
            acc.add(t)
            return acc
        if isinstance(t[0], str):
            acc.add(t)
        for x in t[1:] if isinstance(t[0], str) else t:
            if isinstance(x, tuple):
                atoms_of(x, acc)
    return acc


def names_of(t) -> set:
    return {a[1] for a in atoms_of(t) if a[0] == 'n'}


# ----------------------------------------------------------------------------
# calls
# ----------------------------------------------------------------------------
CALL_ALIASES = {
    'fabs': 'abs', 'np.abs': 'abs', 'np.fabs': 'abs', 'math.fabs': 'abs',
    'fmax': 'max', 'fmin': 'min',
    'xrange': 'range',
}
IDENTITY_CALLS = {'np.asarray', 'float', 'np.float64', 'numpy.float64', 'np.double'}
# symmetric-call table: fname -> list of argument permutations under which the call is invariant
# (filled by rules after the symmetry of the callee has been established)
SYMMETRIC_CALLS: Dict[str, List[Tuple[int, ...]]] = {}


def mk_call(fname: str, args: tuple, kwargs: tuple = ()):
    fname = CALL_ALIASES.get(fname, fname)
    if fname in IDENTITY_CALLS and len(args) == 1 and not kwargs:
        return args[0]
    if fname in ('max', 'min') and not kwargs:
        a = list(args)
        if len(a) == 1 and isinstance(a[0], tuple) and a[0] and a[0][0] in ('list', 'tuple'):
            a = list(a[0][1])
        elif len(a) == 1 and is_poly(a[0]):
            sa = single_atom(a[0])
            if sa is not None and sa[0] in ('list', 'tuple'):
                a = list(sa[1])
        if len(a) >= 2 and all(is_poly(x) for x in a):
            return mk_minmax(fname, a)
    if fname == 'abs' and len(args) == 1 and is_poly(args[0]) and not kwargs:
        return mk_abs(args[0])
    if fname in SYMMETRIC_CALLS and not kwargs:
        best = args
        for perm in SYMMETRIC_CALLS[fname]:
            if len(perm) == len(args):
                cand = tuple(args[i] for i in perm)
                if _key(cand) < _key(best):
                    best = cand
        args = best
    t = ('call', fname, tuple(args)) + ((tuple(kwargs),) if kwargs else ())
    return t


# ----------------------------------------------------------------------------
# AST -> canonical term
# ----------------------------------------------------------------------------
CMP_OPS = {ast.Lt: 'lt', ast.LtE: 'le', ast.Gt: 'gt', ast.GtE: 'ge', ast.Eq: 'eq', ast.NotEq: 'ne'}


def dotted(node: ast.AST) -> Optional[str]:
    if isinstance(node, ast.Name):
        return node.id
    if isinstance(node, ast.Attribute):
        b = dotted(node.value)
        return (b + '.' + node.attr) if b else None
    return None


class Env:
    """Symbolic environment: variable name -> canonical term.  Unbound names become
    ('n', rename(name)) atoms."""

    def __init__(self, rename: Optional[Dict[str, str]] = None):
        self.vals: Dict[str, Term] = {}
        self.rename = rename or {}
        self.lens: Dict[tuple, Term] = {}     # atom/array term -> known length poly
        self.versions: Dict[str, object] = {}  # canonical array name -> version tag (reads after stores)
        self.call_adapters: Dict[str, Callable] = {}
        self.negated: set = set()              # canonical names whose value is the negative of the shared symbol
        self.returned = None                   # the IR `return` item a path ended in (path enumeration)

    def copy(self) -> 'Env':
        e = Env(self.rename)
        e.vals = dict(self.vals)
        e.lens = dict(self.lens)
        e.versions = dict(self.versions)
        e.call_adapters = self.call_adapters
        e.negated = self.negated
        e.returned = getattr(self, 'returned', None)
        return e

    def cn(self, name: str) -> str:
        """canonical (renamed) name of a local"""
        return self.rename.get(name, name)

    def name_atom(self, name: str) -> tuple:
        return ('n', self.cn(name))

    def get(self, name: str) -> Term:
        c = self.cn(name)
        if c in self.vals:
            return self.vals[c]
        if c in self.negated:
            return neg(atom(('n', c)))
        return atom(('n', c))

    def set(self, name: str, value: Term):
        self.vals[self.cn(name)] = value

    def unset(self, name: str):
        self.vals.pop(self.cn(name), None)


def to_poly(t) -> Term:
    return t if is_poly(t) else atom(t)


def canon_expr(node: ast.AST, env: Env) -> Term:
    """Canonical term for an expression node.  Returns a Poly for arithmetic-valued
    expressions and a condition/tuple atom otherwise (callers use to_poly when needed)."""
    if isinstance(node, ast.Constant):
        v = node.value
        if isinstance(v, bool) or v is None or isinstance(v, str):
            return atom(('k', v))
        if isinstance(v, int):
            return const(v)
        if isinstance(v, float):
            return const(Fraction(repr(v)))
        raise CanonError(f"constant {v!r}")
    if isinstance(node, ast.Name):
        return env.get(node.id)
    if isinstance(node, ast.UnaryOp):
        if isinstance(node.op, ast.USub):
            return neg(to_poly(canon_expr(node.operand, env)))
        if isinstance(node.op, ast.UAdd):
            return to_poly(canon_expr(node.operand, env))
        if isinstance(node.op, ast.Not):
            return atom(mk_not(canon_cond(node.operand, env)))
        raise CanonError("unary op")
    if isinstance(node, ast.BinOp):
        a = to_poly(canon_expr(node.left, env))
        b = to_poly(canon_expr(node.right, env))
        if isinstance(node.op, ast.Add):
            return add(a, b)
        if isinstance(node.op, ast.Sub):
            return sub(a, b)
        if isinstance(node.op, ast.Mult):
            return mul(a, b)
        if isinstance(node.op, ast.Div):
            return div(a, b)
        if isinstance(node.op, ast.FloorDiv):
            return atom(('floordiv', a, b))
        if isinstance(node.op, ast.Mod):
            return atom(('mod', a, b))
        if isinstance(node.op, ast.Pow):
            if is_const(b) and const_value(b).denominator == 1 and 0 <= const_value(b) <= 6:
                r = ONE
                for _ in range(int(const_value(b))):
                    r = mul(r, a)
                return r
            return atom(('pow', a, b))
        if isinstance(node.op, (ast.BitAnd, ast.BitOr)):
            # element-wise and/or of boolean arrays: the same value as np.logical_and / np.logical_or
            r = mk_call('np.logical_and' if isinstance(node.op, ast.BitAnd) else 'np.logical_or', (a, b), ())
            return r if is_poly(r) else atom(r)
        raise CanonError(f"binary op {type(node.op).__name__}")
    if isinstance(node, ast.Compare):
        return atom(canon_cond(node, env))
    if isinstance(node, ast.BoolOp):
        return atom(canon_cond(node, env))
    if isinstance(node, ast.IfExp):
        c = canon_cond(node.test, env)
        a = canon_expr(node.body, env)
        b = canon_expr(node.orelse, env)
        if a == b:
            return a
        return atom(('ifexp', c, a, b))
    if isinstance(node, ast.Call):
        fn = dotted(node.func)
        if fn is None:
            # method call on an expression: obj.method(args)
            if isinstance(node.func, ast.Attribute):
                base = canon_expr(node.func.value, env)
                fn_t = ('method', base, node.func.attr)
                args = tuple(canon_expr(a, env) for a in node.args)
                kws = tuple(sorted(((k.arg, canon_expr(k.value, env)) for k in node.keywords), key=_key))
                return atom(('call', fn_t, args) + ((kws,) if kws else ()))
            raise CanonError("call of non-name")
        # local variable bound to something callable: use the bound value's name if it is a name atom
        head = fn.split('.')[0]
        if env.cn(head) in env.vals and '.' in fn:
            base = canon_expr(node.func.value, env)  # type: ignore[attr-defined]
            fn_t = ('method', base, node.func.attr)  # type: ignore[attr-defined]
            args = tuple(canon_expr(a, env) for a in node.args)
            kws = tuple(sorted(((k.arg, canon_expr(k.value, env)) for k in node.keywords), key=_key))
            return atom(('call', fn_t, args) + ((kws,) if kws else ()))
        args = []
        for a in node.args:
            if isinstance(a, ast.Starred):
                args.append(('star', canon_expr(a.value, env)))
            else:
                args.append(canon_expr(a, env))
        kws = tuple(sorted((((k.arg or '**'), canon_expr(k.value, env)) for k in node.keywords), key=_key))
        if fn == 'len' and len(args) == 1:
            a0 = args[0]
            sa = single_atom(a0) if is_poly(a0) else a0
            if sa is not None:
                if sa in env.lens:
                    return env.lens[sa]
                if sa[0] == 'alloc':
                    return sa[2]
                # the prefix X[:hi] of a buffer of known allocated length: hi elements.  (Assumption, stated in DESIGN.md:
                # a kernel never cuts a prefix longer than the buffer it filled - the bound is its event counter + 2, the
                # buffer has one cell per spike + 2, and a store beyond it would have raised before the slice is taken.)
                if sa[0] == 'sub' and isinstance(sa[2], tuple) and sa[2][:1] == ('slice',) and sa[2][3] is None \
                        and (sa[2][1] is None or sa[2][1] == ZERO) and sa[2][2] is not None:
                    base_ = sa[1]
                    if base_ in env.lens or base_[0] == 'alloc':
                        return to_poly(sa[2][2])
        if fn in ('np.empty', 'np.zeros', 'np.ones') and len(args) >= 1:
            return atom(('alloc', fn[3:], args[0]) + ((kws,) if kws else ()))
        if fn in ('np.empty_like', 'np.zeros_like', 'np.ones_like') and len(args) == 1:
            a0 = args[0]
            sa = single_atom(a0) if is_poly(a0) else a0
            if sa is not None and sa[0] == 'alloc':
                return atom(('alloc', fn[3:-5], sa[2]))
            if sa is not None and sa in env.lens:
                return atom(('alloc', fn[3:-5], env.lens[sa]))
            if sa is not None and sa[0] in ('n', 'attr'):
                # an array of the same shape as a named array: its length is that array's length
                return atom(('alloc', fn[3:-5], atom(('call', 'len', (a0,)))))
        if fn in ('np.square', 'numpy.square') and len(args) == 1 and not kws and is_poly(args[0]):
            return mul(args[0], args[0])
        if fn in ('np.diff', 'numpy.diff') and len(args) == 1 and not kws:
            # np.diff(X) is X[1:] - X[:-1]; np.diff(B[a:b]) is B[a+1:b] - B[a:b-1]
            a0 = args[0]
            sa = single_atom(a0) if is_poly(a0) else a0
            if sa is not None and sa[0] in ('n', 'attr', 'sub'):
                if sa[0] == 'sub' and isinstance(sa[2], tuple) and sa[2][:1] == ('slice',) and sa[2][3] is None:
                    B_, (_, lo_, hi_, _s) = sa[1], sa[2]
                    lo_ = ZERO if lo_ is None else lo_
                    nB = _len_of(B_, env)
                    hi_ = nB if hi_ is None else hi_
                    hi_hi = None if hi_ == nB else hi_
                    first = atom(('sub', B_, ('slice', add(lo_, ONE), hi_hi, None)))
                    second = atom(('sub', B_, ('slice', (None if lo_ == ZERO else lo_), sub(hi_, ONE), None)))
                    return sub(first, second)
                if sa[0] != 'sub':
                    nX = _len_of(sa, env)
                    return sub(atom(('sub', sa, ('slice', ONE, None, None))), atom(('sub', sa, ('slice', None, sub(nX, ONE), None))))
        if fn in env.call_adapters:
            fn, args = env.call_adapters[fn](fn, list(args), env)
        r = mk_call(fn, tuple(args), kws)
        return r if is_poly(r) else atom(r)
    if isinstance(node, ast.Subscript) and isinstance(node.value, ast.Attribute) and node.value.attr == 'shape' \
            and isinstance(node.slice, ast.Constant) and node.slice.value == 0:
        # X.shape[0] is len(X)
        return canon_expr(ast.Call(func=ast.Name(id='len', ctx=ast.Load()), args=[node.value.value], keywords=[]), env)
    if isinstance(node, ast.Subscript):
        base = canon_expr(node.value, env)
        bsa = single_atom(base) if is_poly(base) else base
        if bsa is None:
            bsa = ('expr', base)
        sl = node.slice
        if isinstance(sl, ast.Slice):
            lo = to_poly(canon_expr(sl.lower, env)) if sl.lower is not None else None
            hi = to_poly(canon_expr(sl.upper, env)) if sl.upper is not None else None
            st = to_poly(canon_expr(sl.step, env)) if sl.step is not None else None
            ln = _len_of(bsa, env)
            if hi is not None and is_const(hi) and const_value(hi) < 0:
                hi = add(ln, hi)
            if lo is not None and is_const(lo) and const_value(lo) < 0:
                lo = add(ln, lo)
            rc = _range_comp(bsa)
            if rc is not None and st is None:
                # a slice of `[f(i) for i in range(a, b)]` whose bounds provably lie inside it is the comprehension over the
                # sub-range (a slice clamps its bounds, a range does not: hence the proviso)
                elt_, a_, b_ = rc
                p_ = lo if lo is not None else ZERO
                q_ = hi if hi is not None else sub(b_, a_)
                inside = is_const(p_) and const_value(p_) >= 0 and is_const(sub(q_, sub(b_, a_))) and const_value(sub(q_, sub(b_, a_))) <= 0
                if inside:
                    return atom(('listcomp', elt_, ((atom(('call', 'range', (add(a_, p_), add(a_, q_)))), (0,), ()),)))
            return atom(('sub', bsa, ('slice', lo, hi, st)))
        if isinstance(sl, ast.Tuple):
            idx = ('tuple', tuple(canon_expr(e, env) for e in sl.elts))
            return atom(('sub', bsa, idx))
        idx = canon_expr(sl, env)
        if is_poly(idx) and is_const(idx) and const_value(idx) < 0:
            idx = add(_len_of(bsa, env), idx)
        rc = _range_comp(bsa)
        if rc is not None and is_poly(idx):
            # element k of `[f(i) for i in range(a, b)]` is f(a + k) (where the element exists)
            elt_, a_, b_ = rc
            return to_poly(subst_atoms(elt_, {('bound', 0): add(a_, idx)}))
        # versioned read after a store in the same region
        r = atom(('sub', _versioned(bsa, env), idx))
        root = bsa
        while root[0] == 'sub':
            root = root[1]
        if root[0] == 'n' and root[1] in env.negated:
            return neg(r)
        return r
    if isinstance(node, ast.Attribute):
        d = dotted(node)
        base = canon_expr(node.value, env)
        bsa = single_atom(base) if is_poly(base) else base
        if node.attr == 'size' and bsa is not None:
            # the number of elements of a one-dimensional array of known allocation is its length
            if bsa in env.lens:
                return env.lens[bsa]
            if bsa[0] in ('n', 'call', 'attr', 'sub'):
                # a plain local / parameter / computed array: the arrays of this package that are asked for their `.size` are
                # one-dimensional (the distance matrices are allocated with a tuple - handled above - and never asked)
                return atom(('call', 'len', (atom(bsa),)))
            if bsa[0] == 'alloc' and not (is_poly(bsa[2]) is False and isinstance(bsa[2], tuple) and bsa[2][:1] == ('tuple',)):
                sz = bsa[2]
                sza = single_atom(sz) if is_poly(sz) else sz
                if not (sza is not None and sza[0] == 'tuple'):
                    return to_poly(sz)
        return atom(('attr', bsa if bsa is not None else ('expr', base), node.attr))
    if isinstance(node, ast.List) and any(isinstance(e, ast.Starred) for e in node.elts):
        # [a, *rest, b] is [a] + list(rest) + [b] (lists are summed as the repository's rules sum them)
        total = ZERO
        for e in node.elts:
            if isinstance(e, ast.Starred):
                total = add(total, to_poly(canon_expr(e.value, env)))
            else:
                total = add(total, atom(('list', (canon_expr(e, env),))))
        return total
    if isinstance(node, (ast.Tuple, ast.List)):
        tag = 'tuple' if isinstance(node, ast.Tuple) else 'list'
        return atom((tag, tuple(canon_expr(e, env) for e in node.elts)))
    if isinstance(node, ast.ListComp):
        # symbolic form: bound variables become positional placeholders, the iterables and the element are
        # canonicalised in the current state (so locals used inside are replaced by their values)
        try:
            e2 = env.copy()
            gens = []
            k = 0
            for g in node.generators:
                it = canon_expr(g.iter, e2)
                tgs = [g.target] if isinstance(g.target, ast.Name) else list(getattr(g.target, 'elts', []))
                if not tgs or not all(isinstance(t_, ast.Name) for t_ in tgs):
                    raise CanonError('comprehension target')
                names = []
                for t_ in tgs:
                    e2.vals[t_.id] = atom(('bound', k))
                    names.append(k)
                    k += 1
                conds = tuple(canon_cond(c_, e2) for c_ in g.ifs)
                gens.append((it, tuple(names), conds))
            elt = canon_expr(node.elt, e2)
            lc = _neighbours_as_range(('listcomp', elt, tuple(gens)))
            return atom(lc)
        except CanonError:
            return atom(('listcomp', ast.dump(node)))
    if isinstance(node, ast.Starred):
        return atom(('star', canon_expr(node.value, env)))
    raise CanonError(f"expression kind {type(node).__name__}")


def _range_comp(bsa):
    """`[elt(i) for i in range(a, b)]` (one generator, one variable, no filter) -> (elt, a, b)"""
    if not (isinstance(bsa, tuple) and bsa and bsa[0] == 'listcomp' and len(bsa) == 3 and len(bsa[2]) == 1):
        return None
    it, names, conds = bsa[2][0]
    if names != (0,) or conds:
        return None
    ia = single_atom(it) if is_poly(it) else it
    if ia is None or ia[0] != 'call' or ia[1] not in ('range', 'xrange') or len(ia) > 3:
        return None
    args = ia[2]
    if len(args) == 1:
        return bsa[1], ZERO, to_poly(args[0])
    if len(args) == 2:
        return bsa[1], to_poly(args[0]), to_poly(args[1])
    return None


def _neighbours_as_range(lc: tuple) -> tuple:
    """`[f(a, b) for a, b in zip(X[:-1], X[1:])]` is `[f(X[i], X[i+1]) for i in range(0, len(X) - 1)]` (both slices have
    len(X) - 1 elements, zip pairs them up in order)"""
    if len(lc[2]) != 1:
        return lc
    it, names, conds = lc[2][0]
    if names != (0, 1) or conds:
        return lc
    ia = single_atom(it) if is_poly(it) else it
    if ia is None or ia[0] != 'call' or ia[1] != 'zip' or len(ia) > 3 or len(ia[2]) != 2:
        return lc
    s0 = single_atom(ia[2][0]) if is_poly(ia[2][0]) else ia[2][0]
    s1 = single_atom(ia[2][1]) if is_poly(ia[2][1]) else ia[2][1]
    if s0 and s1 and s1[0] == 'sub' and s1[1] == s0 and isinstance(s1[2], tuple) and s1[2][:1] == ('slice',):
        # zip(X, X[1:]) stops with the shorter operand: the same pairs as zip(X[:-1], X[1:])
        s0 = ('sub', s0, ('slice', None, sub(atom(('call', 'len', (atom(s0),))), ONE), None))
    if not (s0 and s1 and s0[0] == 'sub' and s1[0] == 'sub' and s0[1] == s1[1]
            and isinstance(s0[2], tuple) and isinstance(s1[2], tuple) and s0[2][:1] == ('slice',) and s1[2][:1] == ('slice',)):
        return lc
    X = s0[1]
    n = atom(('call', 'len', (atom(X),)))
    if X[0] == 'sub' and isinstance(X[2], tuple) and X[2][:1] == ('slice',) and X[2][3] is None:
        # the neighbours of a slice S[a:b] with 0 <= a and b = len(S) - c, c >= 0 (no clamping, no wrap-around wherever S has
        # at least c elements): len(S[a:b]) is b - a for the purpose of the range below (a negative difference and the
        # clamped 0 both give an empty range), element k is S[a + k]
        S_, (_, a_, b_, _st) = X[1], X[2]
        nS = atom(('call', 'len', (atom(S_),)))
        a_ = ZERO if a_ is None else a_
        b_ = nS if b_ is None else b_
        if is_const(a_) and const_value(a_) >= 0 and is_const(sub(b_, nS)) and const_value(sub(b_, nS)) <= 0:
            nX = sub(b_, a_)
            _, lo0, hi0, st0 = s0[2]
            _, lo1, hi1, st1 = s1[2]
            # the slice bounds were resolved against len(X) as an opaque call: compare with that spelling
            first_ok = (lo0 is None or lo0 == ZERO) and hi0 == sub(n, ONE) and st0 is None
            second_ok = lo1 == ONE and (hi1 is None or hi1 == n) and st1 is None
            if first_ok and second_ok:
                ph = atom(('bound', 99))
                elt = subst_atoms(lc[1], {('bound', 1): atom(('sub', S_, add(ph, ONE))), ('bound', 0): atom(('sub', S_, ph))})
                elt = subst_atoms(elt, {('bound', 99): atom(('bound', 0))})
                return ('listcomp', elt, ((atom(('call', 'range', (a_, sub(add(a_, nX), ONE)))), (0,), ()),))
    _, lo0, hi0, st0 = s0[2]
    _, lo1, hi1, st1 = s1[2]
    first_ok = (lo0 is None or lo0 == ZERO) and hi0 == sub(n, ONE) and st0 is None
    second_ok = lo1 == ONE and (hi1 is None or hi1 == n) and st1 is None
    if not (first_ok and second_ok):
        return lc
    i = atom(('bound', 0))
    elt = subst_atoms(lc[1], {('bound', 1): atom(('sub', X, add(i, ONE)))})
    elt = subst_atoms(elt, {('bound', 0): atom(('sub', X, i))})
    # (the substitution of bound 0 must not touch the index variable introduced for bound 1: done in this order, the new
    # `i` inside X[i + 1] would be replaced again - so build with a placeholder)
    ph = atom(('bound', 99))
    elt = subst_atoms(lc[1], {('bound', 1): atom(('sub', X, add(ph, ONE))), ('bound', 0): atom(('sub', X, ph))})
    elt = subst_atoms(elt, {('bound', 99): i})
    return ('listcomp', elt, ((atom(('call', 'range', (ZERO, sub(n, ONE)))), (0,), ()),))


def _len_of(bsa: tuple, env: Env) -> Term:
    if bsa in env.lens:
        return env.lens[bsa]
    if bsa[0] == 'alloc':
        return bsa[2]
    rc = _range_comp(bsa)
    if rc is not None:
        return sub(rc[2], rc[1])
    return atom(('call', 'len', (atom(bsa),)))


def _versioned(bsa: tuple, env: Env) -> tuple:
    if bsa[0] == 'n':
        v = env.versions.get(bsa[1])
        if v:
            return ('n', f"{bsa[1]}#{v}")
    return bsa


def canon_cond(node: ast.AST, env: Env) -> tuple:
    if isinstance(node, ast.BoolOp):
        kind = 'and' if isinstance(node.op, ast.And) else 'or'
        return mk_bool(kind, [canon_cond(v, env) for v in node.values])
    if isinstance(node, ast.UnaryOp) and isinstance(node.op, ast.Not):
        return mk_not(canon_cond(node.operand, env))
    if isinstance(node, ast.Compare):
        parts = []
        left = node.left
        for op, right in zip(node.ops, node.comparators):
            if isinstance(op, (ast.Is, ast.IsNot)):
                l = canon_expr(left, env)
                r = canon_expr(right, env)
                c = ('is', l, r)
                parts.append(c if isinstance(op, ast.Is) else ('not', c))
            elif isinstance(op, (ast.In, ast.NotIn)):
                l = canon_expr(left, env)
                r = canon_expr(right, env)
                c = ('in', l, r)
                parts.append(c if isinstance(op, ast.In) else ('not', c))
            else:
                l = canon_expr(left, env)
                r = canon_expr(right, env)
                if not (is_poly(l) and is_poly(r)):
                    raise CanonError("comparison of non-arithmetic operands")
                parts.append(mk_cmp(CMP_OPS[type(op)], l, r))
            left = right
        return mk_bool('and', parts)
    t = canon_expr(node, env)
    if is_poly(t):
        sa = single_atom(t)
        if sa is not None and sa[0] in ('cmp', 'and', 'or', 'not', 'is', 'in'):
            return sa
        if sa is not None and sa[0] == 'k' and isinstance(sa[1], bool):
            return sa
        return ('truth', t)
    return t


# ----------------------------------------------------------------------------
# pretty printer (for reports)
# ----------------------------------------------------------------------------
def show(t) -> str:
    if is_poly(t):
        if not t[1]:
            return '0'
        parts = []
        for m, c in t[1]:
            ms = '*'.join(show(a) for a in m)
            if not m:
                s = str(c)
            elif c == 1:
                s = ms
            elif c == -1:
                s = '-' + ms
            else:
                s = f"{c}*{ms}"
            parts.append(s)
        out = ' + '.join(parts).replace('+ -', '- ')
        return out
    if not isinstance(t, tuple) or not t:
        return repr(t)
    tag = t[0]
    if tag == 'n':
        return t[1]
    if tag == 'k':
        return repr(t[1])
    if tag == 'sub':
        return f"{show(t[1])}[{show(t[2])}]"
    if tag == 'slice':
        return ':'.join('' if x is None else show(x) for x in t[1:3]) + ('' if t[3] is None else ':' + show(t[3]))
    if tag == 'call':
        fn = t[1] if isinstance(t[1], str) else f"{show(t[1][1])}.{t[1][2]}"
        a = ', '.join(show(x) for x in t[2])
        if len(t) > 3 and t[3]:
            a += ', ' + ', '.join(f"{k}={show(v)}" for k, v in t[3])
        return f"{fn}({a})"
    if tag in ('max', 'min'):
        return f"{tag}({', '.join(show(x) for x in t[1])})"
    if tag == 'abs':
        return f"abs({show(t[1])})"
    if tag == 'div':
        return f"({show(t[1])})/({show(t[2])})"
    if tag == 'attr':
        return f"{show(t[1])}.{t[2]}"
    if tag == 'cmp':
        op = {'lt': '<', 'le': '<=', 'eq': '==', 'ne': '!='}[t[1]]
        return f"({show(t[2])} {op} 0)"
    if tag in ('and', 'or'):
        return '(' + f" {tag} ".join(show(x) for x in t[1]) + ')'
    if tag == 'not':
        return f"not {show(t[1])}"
    if tag == 'listcomp' and len(t) == 3:
        gens = ' '.join(f"for {','.join('_' + str(n) for n in names)} in {show(it)}" +
                        ''.join(f" if {show(c)}" for c in conds) for it, names, conds in t[2])
        return f"[{show(t[1])} {gens}]"
    if tag == 'bound':
        return f"_{t[1]}"
    if tag == 'ifexp':
        return f"({show(t[2])} if {show(t[1])} else {show(t[3])})"
    if tag in ('tuple', 'list'):
        return '(' + ', '.join(show(x) for x in t[1]) + ')'
    if tag == 'alloc':
        return f"np.{t[1]}({show(t[2])})"
    if tag == 'truth':
        return f"bool({show(t[1])})"
    if tag == 'is':
        return f"({show(t[1])} is {show(t[2])})"
    if tag == 'star':
        return '*' + show(t[1])
    return tag + '(' + ', '.join(show(x) if isinstance(x, tuple) else repr(x) for x in t[1:]) + ')'
