"""Remaining structural rules:
R08.2  start-edge and end-edge rules are mirror images under time reflection (rho)
R15.2  MRTS is read only in monotone sinks;  R15.3 keyword defaults;  R15.4 threshold definition (isi_lengths.py)
R17.1/R17.2  SPIKE-Sync filter masks and scale
R20.1  merge / psth pool all trains through multiset-preserving operations only
R06.2/R06.3/R05.5  divide-and-conquer slices, normalisation by the number of pairs, pooled sums
R13.3  reconcile applies sort+dedup, global edges and two-sided clipping and builds new objects
"""
from __future__ import annotations

import ast
from typing import Dict, List, Optional, Set, Tuple

from . import canon as C
from .canon import Env
from .compare import Inconclusive,  Side
from .frontend import FuncInfo, Repo
from .ir import IRBuilder
from .report import Ob, ok, violation, inconclusive, info
from .wrappers import wrapper_model, _fn


# ======================================================================================
# rho: time reflection on canonical terms
# ======================================================================================
class Reflect:
    """rho: t -> T0 - t with T0 = t_start + t_end, spike s[c] -> T0 - s[N-1-c].
    For a Time-typed term e, r(e) is defined by rho(e) = T0 - r(e); for a Duration-typed term rho(d) is returned."""

    def __init__(self, t_start: str, t_end: str, arrays: Dict[str, C.Term]):
        self.ts, self.te = t_start, t_end
        self.arrays = arrays        # array name -> length term

    def r_atom(self, a: tuple) -> Optional[C.Term]:
        """r of a Time atom (None if the atom is not a Time)"""
        if a == ('n', self.ts):
            return C.atom(('n', self.te))
        if a == ('n', self.te):
            return C.atom(('n', self.ts))
        if a[0] == 'sub' and a[1][0] == 'n' and a[1][1] in self.arrays and C.is_poly(a[2]):
            n = self.arrays[a[1][1]]
            return C.atom(('sub', a[1], C.sub(C.sub(n, C.ONE), a[2])))
        if a[0] in ('min', 'max'):
            parts = [self.r_time(x) for x in a[1]]
            if all(p is not None for p in parts):
                return C.mk_minmax('max' if a[0] == 'min' else 'min', parts)
            return None
        if a[0] == 'ifexp':
            x, y = self.r_time(a[2]), self.r_time(a[3])
            if x is not None and y is not None:
                return C.atom(('ifexp', a[1], x, y))
        return None

    def weight(self, p: C.Term) -> Optional[int]:
        w = 0
        for m, c in p[1]:
            if len(m) == 0:
                continue
            if len(m) != 1:
                return None
            if self.r_atom(m[0]) is not None:
                w += c
            elif self.rho_dur_atom(m[0]) is not None:
                pass
            else:
                return None
        return w

    def r_time(self, p: C.Term) -> Optional[C.Term]:
        """p Time-typed (affine weight 1): returns r(p)"""
        if not C.is_poly(p) or self.weight(p) != 1:
            return None
        out = C.ZERO
        for m, c in p[1]:
            if len(m) == 0:
                return None
            ra = self.r_atom(m[0])
            if ra is not None:
                out = C.add(out, C.scale(ra, c))
            else:
                rd = self.rho_dur_atom(m[0])
                if rd is None:
                    return None
                out = C.sub(out, C.scale(rd, c))     # T0 - (time + d) = (T0 - time) - d  =>  r gains -rho(d)... d is reflected as rho(d)
        return out

    def rho_dur_atom(self, a: tuple) -> Optional[C.Term]:
        if a[0] in ('min', 'max'):
            parts = [self.rho_dur(x) for x in a[1]]
            if all(p is not None for p in parts):
                return C.mk_minmax(a[0], parts)
            return None
        if a[0] == 'ifexp':
            x, y = self.rho_dur(a[2]), self.rho_dur(a[3])
            if x is not None and y is not None:
                return C.atom(('ifexp', a[1], x, y))
            return None
        if a[0] == 'abs':
            x = self.rho_dur(a[1])
            return C.mk_abs(x) if x is not None else None
        return None

    def rho_dur(self, p: C.Term) -> Optional[C.Term]:
        """p Duration-typed (affine weight 0): returns rho(p)"""
        if not C.is_poly(p):
            return None
        if self.weight(p) != 0:
            return None
        out = C.ZERO
        for m, c in p[1]:
            if len(m) == 0:
                return None
            ra = self.r_atom(m[0])
            if ra is not None:
                out = C.sub(out, C.scale(ra, c))     # sum a_i (T0 - r_i) with sum a_i = 0
            else:
                rd = self.rho_dur_atom(m[0])
                if rd is None:
                    return None
                out = C.add(out, C.scale(rd, c))
        return out


# ======================================================================================
# R15.4 / R08.2: isi_lengths.py
# ======================================================================================
def r15_4_threshold_definition(ctx, rule: str = 'R15.4', rule_mirror: str = 'R08.2') -> List[Ob]:
    repo: Repo = ctx.repo
    obs: List[Ob] = []
    if 'pyspike.isi_lengths' not in repo.modules:
        return [inconclusive(rule, 'pyspike/isi_lengths.py present', 'pyspike/isi_lengths.py')]
    mi = repo.module('pyspike.isi_lengths')
    from .rules_projection import PathExec
    # ---- isi_lengths(spike_times, t_start, t_end)
    fi = repo.func('pyspike.isi_lengths', 'isi_lengths')
    fn = _fn(fi)
    ps = [a.arg for a in fi.node.args.args]
    s, t_start, t_end = ps[:3]
    N = C.atom(('call', 'len', (C.atom(('n', s)),)))
    ts, te = C.atom(('n', t_start)), C.atom(('n', t_end))

    def sub(idx):
        return C.atom(('sub', ('n', s), idx))
    last = C.sub(N, C.ONE)
    gt1 = C.mk_cmp('gt', N, C.ONE)
    from .rules_classes import MethodPaths
    try:
        mp = MethodPaths(fi).run()
    except (Inconclusive, C.CanonError) as e:
        return [inconclusive(rule, 'isi_lengths: paths enumerable', fi.loc(), str(e), construct=fn)]
    empty = {C.mk_cmp('eq', N, C.ZERO), C.mk_cmp('lt', N, C.ONE), C.mk_cmp('le', N, C.ZERO)}
    nonempty = {C.mk_cmp('gt', N, C.ZERO), C.mk_cmp('ge', N, C.ONE), C.mk_cmp('ne', N, C.ZERO)}
    empty |= {C.mk_not(c) for c in nonempty}
    nonempty |= {C.mk_not(c) for c in empty}
    c_first = C.mk_cmp('gt', sub(C.ZERO), ts)
    c_last = C.mk_cmp('lt', sub(last), te)
    want = {
        ('start', True): C.atom(('ifexp', gt1, C.mk_minmax('max', [C.sub(sub(C.ZERO), ts), C.sub(sub(C.ONE), sub(C.ZERO))]), C.sub(sub(C.ZERO), ts))),
        ('start', False): C.atom(('ifexp', gt1, C.sub(sub(C.ONE), sub(C.ZERO)), C.sub(ts, sub(C.ZERO)))),
        ('end', True): C.atom(('ifexp', gt1, C.mk_minmax('max', [C.sub(te, sub(last)), C.sub(sub(last), sub(C.sub(last, C.ONE)))]), C.sub(te, sub(last)))),
        ('end', False): C.atom(('ifexp', gt1, C.sub(sub(last), sub(C.sub(last, C.ONE))), C.sub(sub(last), te))),
    }
    what = {('start', True): 'first interval when the first spike is after t_start: max(s[0]-t_start, s[1]-s[0]) if N>1 else s[0]-t_start',
            ('start', False): 'first interval when the first spike sits on t_start: s[1]-s[0] if N>1 else a zero-length interval',
            ('end', True): 'last interval when the last spike is before t_end: max(t_end-s[-1], s[-1]-s[-2]) if N>1 else t_end-s[-1]',
            ('end', False): 'last interval when the last spike sits on t_end: s[-1]-s[-2] if N>1 else a zero-length interval'}
    bnd = C.atom(('bound', 0))
    elt = C.sub(sub(C.add(bnd, C.ONE)), sub(bnd))

    def interior(i_start, i_end):
        r = C.mk_call('range', (i_start, C.sub(i_end, C.ONE)), ())
        r = r if C.is_poly(r) else C.atom(r)
        return C.atom(('listcomp', elt, ((r, (0,), ()),)))

    def lst(v):
        return C.atom(('list', (v,)))

    def norm_lists(tm):
        def f(a):
            if a[0] == 'list' and len(a[1]) != 1:
                out_ = C.ZERO
                for e_ in a[1]:
                    out_ = C.add(out_, C.atom(('list', (e_,))))
                return out_
            if a[0] == 'listcomp' and len(a) == 3 and len(a[2]) == 1:
                it_ = a[2][0][0]
                sa_ = C.single_atom(it_) if C.is_poly(it_) else it_
                if sa_ is not None and sa_[0] == 'call' and sa_[1] == 'range' and len(sa_[2]) == 2 \
                        and all(C.is_poly(x) and C.is_const(x) for x in sa_[2]) \
                        and C.const_value(sa_[2][0]) >= C.const_value(sa_[2][1]):
                    return C.ZERO          # a comprehension over an empty range contributes nothing
            return None
        return C.rebuild(tm, f)

    def one_spike(tm, conds):
        # a non-empty train for which `N > 1` fails has exactly one spike: s[N-1] is s[0] - on such a path, and
        # inside the else-alternative of every `... if N > 1 else ...` value
        n_atom = C.single_atom(N)
        if C.mk_not(gt1) in conds:
            return C.subst_atoms(tm, {n_atom: C.ONE})

        def f(a):
            if a[0] == 'ifexp' and a[1] == gt1:
                alt = a[3] if C.is_poly(a[3]) else C.atom(a[3])
                return C.atom(('ifexp', gt1, a[2], C.subst_atoms(alt, {n_atom: C.ONE})))
            return None
        return C.rebuild(tm, f)
    seen_empty = 0
    verdict: Dict[tuple, List[bool]] = {}
    detail: Dict[tuple, str] = {}
    # conditional expressions inside the returned value are cases of their own (`a if s[0] > t_start else b` in a list
    # element is the same decision as an `if` statement around the return)
    results = []
    for v, conds, env_p, stores, node in mp.results:
        if v is not None and C.is_poly(v) and not C.contradictory(conds):
            for v2, conds2 in C.case_split(v, conds):
                results.append((v2, conds2, env_p, stores, node))
        else:
            results.append((v, conds, env_p, stores, node))
    for v, conds, env_p, stores, node in results:
        cs = set(conds)
        if C.contradictory(conds):
            continue            # contradictory path conditions: not a path of the function
        # a test `N == 1` on a non-empty train decides `N > 1`
        if C.mk_cmp('eq', N, C.ONE) in cs:
            conds = list(conds) + [C.mk_not(gt1)]
        elif C.mk_cmp('ne', N, C.ONE) in cs and (cs & nonempty):
            conds = list(conds) + [gt1]
        cs = set(conds)
        if C.mk_not(gt1) in cs:
            # exactly one spike: s[N-1] is s[0] in the path conditions as well
            n_atom_ = C.single_atom(N)
            conds = list(conds) + [C.subst_atoms(c, {n_atom_: C.ONE}) for c in conds if c[0] == 'cmp']
            cs = set(conds)
        c_first1, c_last1 = c_first, c_last
        if C.mk_not(gt1) in cs:
            c_last1 = C.subst_atoms(c_last, {C.single_atom(N): C.ONE})
        if cs & empty and not cs & nonempty:
            seen_empty += 1
            good = v == lst(C.sub(te, ts))
            t = "isi_lengths: a train without spikes contributes one interval t_end - t_start"
            obs.append(ok(rule, t, fi.loc(node), construct=f"{fn}::empty") if good else
                       violation(rule, t, fi.loc(node), key=f"{fn}::empty-train", detail=C.show(v) if v is not None else 'None'))
            continue
        f1 = True if c_first in cs else False if C.mk_not(c_first) in cs else None
        f2 = True if (c_last in cs or c_last1 in cs) else False if (C.mk_not(c_last) in cs or C.mk_not(c_last1) in cs) else None
        if f1 is None or f2 is None or v is None:
            obs.append(inconclusive(rule, "isi_lengths: every non-empty path decides `s[0] > t_start` and `s[-1] < t_end`", fi.loc(node),
                                    f"conditions {[C.show(c) for c in conds]}", construct=f"{fn}::path"))
            continue
        exp = C.add(C.add(lst(C.resolve_ifexp(want[('start', f1)], conds)), interior(C.ZERO if f1 else C.ONE, N if f2 else last)),
                    lst(C.resolve_ifexp(want[('end', f2)], conds)))
        got = norm_lists(one_spike(C.resolve_ifexp(v, conds), conds))
        exp = norm_lists(one_spike(exp, conds))
        good = got == exp
        for key in (('start', f1), ('end', f2), ('interior', None)):
            verdict.setdefault(key, []).append(good)
            if not good:
                detail[key] = f"on the path {[C.show(c) for c in conds]}\nreturns  {C.show(got)}\nexpected {C.show(exp)}"
    if not seen_empty:
        obs.append(violation(rule, "isi_lengths: a train without spikes contributes one interval t_end - t_start", fi.loc(),
                             key=f"{fn}::empty-train", detail='no path for an empty train'))
    for key in (('start', True), ('start', False), ('end', True), ('end', False)):
        t = f"isi_lengths: {what[key]}"
        vs = verdict.get(key)
        if not vs:
            obs.append(violation(rule, t, fi.loc(), key=f"{fn}::{key[0]}-rule::{'open' if key[1] else 'on-edge'}", detail='no such path'))
        elif all(vs):
            obs.append(ok(rule, t, fi.loc(), construct=f"{fn}::{key[0]}::{key[1]}"))
        else:
            obs.append(violation(rule, t, fi.loc(), key=f"{fn}::{key[0]}-rule::{'open' if key[1] else 'on-edge'}", detail=detail.get(key, '')))
    t = "isi_lengths: result is [first interval] + interior ISIs s[i+1]-s[i] + [last interval], every spike pair counted once"
    vs = verdict.get(('interior', None))
    obs.append(ok(rule, t, fi.loc(), construct=f"{fn}::interior") if vs and all(vs) else
               violation(rule, t, fi.loc(), key=f"{fn}::interior-isis", detail=detail.get(('interior', None), '')))
    # rho mirror: the start rules are the time reflections of the end rules (reflection applied to the forms that
    # the paths above were shown to return)
    rf = Reflect(t_start, t_end, {s: N})
    for flag in (True, False):
        t = (f"isi_lengths: the {'open' if flag else 'on-edge'} start rule is the mirror image (time reflection) of the "
             f"{'open' if flag else 'on-edge'} end rule")
        established = all(verdict.get(('start', flag), [False])) and all(verdict.get(('end', flag), [False]))
        try:
            rs = rf.rho_dur(want[('start', flag)])
        except Exception:
            rs = None
        if rs is None or not established:
            obs.append(inconclusive(rule_mirror, t, fi.loc(), 'edge rules not established (see R15.4)' if not established else
                                    'start rule not reflectable', construct=f"{fn}::mirror::{flag}"))
        elif rs == want[('end', flag)] or _one_spike_equal(rs, want[('end', flag)], s, N):
            obs.append(ok(rule_mirror, t, fi.loc(), construct=f"{fn}::mirror::{flag}"))
        else:
            obs.append(violation(rule_mirror, t, fi.loc(), key=f"{fn}::mirror::{'open' if flag else 'on-edge'}",
                                 detail=f"rho(start rule) = {C.show(rs)}\nend rule         = {C.show(want[('end', flag)])}"))
    # ---- default_thresh_: RMS over the pool of all trains
    if 'default_thresh_' in mi.functions:
        f2 = mi.functions['default_thresh_']
        fn2 = _fn(f2)
        ps2 = [a.arg for a in f2.node.args.args]
        loops = [n for n in f2.node.body if isinstance(n, ast.For)]
        t = "default_thresh_: the ISI lengths of every train of the list are pooled (no train skipped, none filtered)"
        good = False
        pool = None
        if len(loops) == 1 and isinstance(loops[0].iter, ast.Name) and loops[0].iter.id == ps2[0] and len(loops[0].body) == 1:
            st = loops[0].body[0]
            # (`pool = pool + isi_lengths(..)` is the same accumulation as `pool += isi_lengths(..)`)
            if isinstance(st, ast.Assign) and len(st.targets) == 1 and isinstance(st.targets[0], ast.Name) and isinstance(st.value, ast.BinOp) \
                    and isinstance(st.value.op, ast.Add) and isinstance(st.value.left, ast.Name) and st.value.left.id == st.targets[0].id:
                st = ast.copy_location(ast.AugAssign(target=ast.Name(id=st.targets[0].id, ctx=ast.Store()), op=ast.Add(),
                                                     value=st.value.right), st)
            if isinstance(st, ast.AugAssign) and isinstance(st.op, ast.Add) and isinstance(st.value, ast.Call) and \
                    isinstance(st.value.func, ast.Name) and st.value.func.id == 'isi_lengths' and isinstance(st.target, ast.Name):
                a = st.value.args
                good = len(a) == 3 and isinstance(a[0], ast.Name) and a[0].id == loops[0].target.id and \
                    [ast.unparse(x) for x in a[1:]] == ps2[1:3]
                pool = st.target.id
        # the same pool as one flattening comprehension: [x for t in trains for x in isi_lengths(t, t_start, t_end)]
        # (compared as canonical values: bound names do not matter)
        comp_pool = None
        rv_comp = None
        if not good and not loops and len(ps2) >= 3:
            try:
                env2 = Env()
                from .compare import Region
                side2 = Side(f2)
                pe2 = PathExec(side2)
                for st in f2.node.body:
                    if isinstance(st, (ast.Assign, ast.AugAssign)):
                        pe2.cmp.exec_simple(st, env2, Region(), side2)
                retn = next(n for n in f2.node.body if isinstance(n, ast.Return))
                rv_comp = C.canon_expr(retn.value, env2)
                ref = f"[x__ for t__ in {ps2[0]} for x__ in isi_lengths(t__, {ps2[1]}, {ps2[2]})]"
                for wrap in ("np.array({})", "{}", "np.asarray({})"):
                    P_ = C.canon_expr(ast.parse(wrap.format(ref), mode='eval').body, Env())
                    want_ = C.canon_expr(ast.parse("np.sqrt(np.sum(P__ * P__) / len(P__))", mode='eval').body, Env())
                    want_ = C.subst_atoms(want_, {('n', 'P__'): P_})
                    if rv_comp == want_:
                        comp_pool = P_
                        good = True
                        break
            except Exception:
                comp_pool = None
        obs.append(ok(rule, t, f2.loc(), construct=f"{fn2}::pool") if good else violation(rule, t, f2.loc(), key=f"{fn2}::pool-all-trains"))
        t = "default_thresh_: returns the root mean square sqrt(sum(x*x) / len(x)) of the pooled lengths"
        good = comp_pool is not None
        try:
            if comp_pool is not None:
                raise StopIteration
            env2 = Env()
            from .compare import Region
            side2 = Side(f2)
            pe2 = PathExec(side2)
            for st in f2.node.body:
                if isinstance(st, (ast.Assign, ast.AugAssign)):
                    pe2.cmp.exec_simple(st, env2, Region(), side2)
            retn = next(n for n in f2.node.body if isinstance(n, ast.Return))
            rv = C.canon_expr(retn.value, env2)
            P = C.atom(('n', pool)) if pool else None
            sa = C.single_atom(rv)
            if sa is not None and sa[0] == 'call' and sa[1] == 'np.sqrt' and P is not None:
                inner = sa[2][0]
                # pool was rebound through np.array(pool): accept array(pool) as the pool
                ia = C.single_atom(inner)
                if ia is not None and ia[0] == 'div':
                    na, da = C.single_atom(ia[1]), C.single_atom(ia[2])
                    if na is not None and da is not None and na[0] == 'call' and na[1] == 'np.sum' and da[0] == 'call' and da[1] == 'len':
                        X = da[2][0]
                        if na[2][0] == C.mul(X, X) and C.single_atom(X) is not None:
                            good = True
        except StopIteration:
            pass
        except Exception:
            good = False
        obs.append(ok(rule, t, f2.loc(), construct=f"{fn2}::rms") if good else violation(rule, t, f2.loc(), key=f"{fn2}::rms-shape"))
    if 'default_thresh' in mi.functions:
        f3 = mi.functions['default_thresh']
        fn3 = _fn(f3)
        p0 = f3.node.args.args[0].arg
        t = "default_thresh: every train of the list contributes its spikes; edges are taken from the (reconciled) first train"
        good = False
        plain = None
        for n in ast.walk(f3.node):
            if isinstance(n, ast.ListComp) and len(n.generators) == 1 and isinstance(n.generators[0].iter, ast.Name) and \
                    n.generators[0].iter.id == p0 and not n.generators[0].ifs and 'spikes' in ast.unparse(n.elt):
                good = True
                v = n.generators[0].target.id if isinstance(n.generators[0].target, ast.Name) else '?'
                plain = ast.unparse(n.elt).replace(' ', '') in (f"{v}.spikes.tolist()", f"{v}.spikes", f"list({v}.spikes)")
        obs.append(ok(rule, t, f3.loc(), construct=f"{fn3}::all-trains") if good else violation(rule, t, f3.loc(), key=f"{fn3}::all-trains"))
        t = ("default_thresh: trains contribute their plain spike times (an empty train must reach isi_lengths empty so that it counts "
             "the recording length once; auxiliary edge spikes would count it twice)")
        if plain:
            obs.append(ok(rule, t, f3.loc(), construct=f"{fn3}::plain-spikes"))
        elif plain is False:
            obs.append(violation(rule, t, f3.loc(), key=f"{fn3}::not-plain-spikes"))
    return obs


def _one_spike_equal(a: C.Term, b: C.Term, s: str, N: C.Term) -> bool:
    """equality of two ifexp(N>1, X, Y) terms where in the N == 1 alternative s[N-1] and s[0] denote the same spike"""
    sa, sb = C.single_atom(a), C.single_atom(b)
    if sa is None or sb is None or sa[0] != 'ifexp' or sb[0] != 'ifexp' or sa[1] != sb[1] or sa[2] != sb[2]:
        return False
    last = ('sub', ('n', s), C.sub(N, C.ONE))
    zero = ('sub', ('n', s), C.ZERO)
    ya = C.subst_atoms(sa[3], {last: C.atom(zero)})
    yb = C.subst_atoms(sb[3], {last: C.atom(zero)})
    return ya == yb


# ======================================================================================
# R15.2 / R15.3
# ======================================================================================
def _is_selector(fn: ast.FunctionDef) -> bool:
    """a three-argument routine that touches its arguments through comparisons, min and max only and returns one of them
    (decided by evaluating it on the 13 weak orderings of three values)"""
    from .rules_coincidence import _weak_orderings, eval_interpolate
    try:
        return all(eval_interpolate(fn, a, b, t) is not None for (a, b, t) in _weak_orderings(3))
    except Exception:
        return False


def r15_2_mrts_sinks(ctx, eng, rule: str = 'R15.2') -> List[Ob]:
    """Inside the backends MRTS is read only as an operand of max(...) (a floor in a denominator), divided by a
    constant, or passed on at the MRTS position of a helper: all monotone sinks."""
    obs: List[Ob] = []
    repo = ctx.repo
    kernels: List[FuncInfo] = []
    for f in repo.all_functions():
        if not f.module.startswith('pyspike.cython') or 'simulated' in f.module:
            continue
        ps = [a.arg for a in f.node.args.args]
        if 'MRTS' in ps:
            kernels.append(f)
    for f in kernels:
        par = {}
        for n in ast.walk(f.node):
            for c in ast.iter_child_nodes(n):
                par[c] = n
        fn = _fn(f)
        bad = []
        n_reads = 0

        def pos_const(e):
            return isinstance(e, ast.Constant) and isinstance(e.value, (int, float)) and not isinstance(e.value, bool) and e.value > 0
        # locals that hold the threshold scaled by a positive constant (`quarter = MRTS / 4`) are thresholds too
        thr = {'MRTS'}
        for _ in range(3):
            for n in ast.walk(f.node):
                if isinstance(n, ast.Assign) and len(n.targets) == 1 and isinstance(n.targets[0], ast.Name):
                    v = n.value
                    while isinstance(v, ast.BinOp) and isinstance(v.op, (ast.Div, ast.Mult)) and \
                            (pos_const(v.right) or (isinstance(v.op, ast.Mult) and pos_const(v.left))):
                        v = v.left if pos_const(v.right) else v.right
                    if isinstance(v, ast.Name) and v.id in thr:
                        thr.add(n.targets[0].id)
        for n in ast.walk(f.node):
            if isinstance(n, ast.Name) and n.id in thr and isinstance(n.ctx, ast.Load):
                n_reads += 1
                top = n
                p = par.get(top)
                # scaling by a positive constant keeps the role
                while isinstance(p, ast.BinOp) and isinstance(p.op, (ast.Div, ast.Mult)) and \
                        ((p.left is top and pos_const(p.right)) or (isinstance(p.op, ast.Mult) and p.right is top and pos_const(p.left))):
                    top = p
                    p = par.get(top)
                if isinstance(p, ast.Assign) and len(p.targets) == 1 and isinstance(p.targets[0], ast.Name) and p.targets[0].id in thr:
                    continue
                if isinstance(p, ast.List):
                    p = par.get(p)
                if isinstance(p, ast.Call) and isinstance(p.func, ast.Name):
                    if p.func.id in ('max', 'fmax'):
                        continue
                    # helper call: the threshold must land on the helper's MRTS (or `t` threshold) parameter
                    tgt = None
                    for m in repo.modules.values():
                        if p.func.id in m.functions and m.name.startswith('pyspike.cython'):
                            tgt = m.functions[p.func.id]
                    nested = f"{f.name}.{p.func.id}"
                    if repo.has_func(f.module, nested):
                        tgt = repo.func(f.module, nested)
                    if tgt is not None:
                        tp = [a.arg for a in tgt.node.args.args]
                        k = [i for i, a in enumerate(p.args) if a is top]
                        if k and k[0] < len(tp) and tp[k[0]] in ('MRTS', 't'):
                            continue
                        if k and k[0] == 2 and len(tp) == 3 and _is_selector(tgt.node):
                            continue        # third argument of the thresholded interpolation, whatever its parameters are called
                        if k and len(tp) == len(p.args) + 1 and k[0] + 0 < len(tp) and tp[k[0]] in ('MRTS', 't'):
                            continue
                    bad.append((n, f"passed to {p.func.id}() at a non-threshold position"))
                    continue
                bad.append((n, f"read in `{ast.unparse(p)[:60]}`"))
            if isinstance(n, ast.AugAssign) and isinstance(n.target, ast.Name) and n.target.id == 'MRTS':
                if not (isinstance(n.op, ast.Div) and isinstance(n.value, ast.Constant) and n.value.value > 0):
                    bad.append((n, f"rewritten by `{ast.unparse(n)}`"))
        t = f"{f.name} ({f.path}): MRTS is used only as a floor inside max(...), scaled by a positive constant, or handed to a helper's threshold parameter"
        if not bad:
            obs.append(ok(rule, t, f.loc(), construct=f"{fn}::mrts-sinks", detail=f"{n_reads} reads"))
        for n, why in bad:
            obs.append(violation(rule, t, f.loc(n), key=f"{fn}::mrts-sink::{why}", detail=why))
    return obs


def r15_3_defaults(ctx, rule: str = 'R15.3') -> List[Ob]:
    repo = ctx.repo
    obs: List[Ob] = []
    f = repo.func('pyspike.generic', 'resolve_keywords')
    fn = _fn(f)
    kwname = f.node.args.kwarg.arg if f.node.args.kwarg else 'kwargs'
    # decided on the values returned along every path: component k of the result is kwargs[K] where K is present and
    # the default where it is absent (or `kwargs.get(K, default)`, which is the same thing in one call)
    from .rules_classes import MethodPaths
    from .compare import Inconclusive as _Inc
    env = Env()

    def cexpr(src):
        return C.canon_expr(ast.parse(src, mode='eval').body, env)

    def ccond(src):
        return C.canon_cond(ast.parse(src, mode='eval').body, env)
    try:
        mp = MethodPaths(f).run()
        results = [r for r in mp.results if not any(C.mk_not(c) in set(r[1]) for c in r[1])]
    except (_Inc, C.CanonError) as e:
        obs.append(inconclusive(rule, "resolve_keywords: the returned pair can be evaluated along every path", f.loc(), str(e), construct=fn))
        results = None
    if results is not None:
        comps = []
        for v, conds, _env, _stores, node in results:
            sa = C.single_atom(v) if v is not None and C.is_poly(v) else None
            comps.append((sa[1] if sa is not None and sa[0] == 'tuple' and len(sa[1]) == 2 else None, set(conds), node))
        t = "resolve_keywords: returns (MRTS, RI) in that order"
        if results and all(c is not None for c, _, _ in comps):
            obs.append(ok(rule, t, f.loc(comps[0][2]), construct=f"{fn}::return", detail=f"{len(comps)} paths"))
        else:
            obs.append(violation(rule, t, f.loc(), key=f"{fn}::return-order", detail="a path does not return a pair"))
        for k, (key, want, alts) in enumerate((('MRTS', 0.0, ('0.0', '0')), ('RI', False, ('False', '0')))):
            t = f"resolve_keywords: `{key}` is taken from the keywords when present and defaults to {want!r}"
            present, absent = ccond(f"'{key}' in {kwname}"), ccond(f"'{key}' not in {kwname}")
            taken = cexpr(f"{kwname}['{key}']")
            defaults = {cexpr(a_) for a_ in alts}
            gets = {cexpr(f"{kwname}.get('{key}', {a_})") for a_ in alts}
            bad = None
            for comp, conds, node in comps:
                if comp is None:
                    bad = 'no pair returned'
                    break
                c = comp[k]
                if c in gets or (c == taken and present in conds) or (c in defaults and absent in conds):
                    continue
                bad = f"component {k + 1} is {C.show(c)} under [{', '.join(C.show(x) for x in conds)}]"
                break
            if bad is None and comps:
                obs.append(ok(rule, t, f.loc(), construct=f"{fn}::{key}"))
            else:
                obs.append(violation(rule, t, f.loc(), key=f"{fn}::default::{key}", detail=bad or 'no path'))
    # kernel defaults MRTS = 0
    for k in repo.all_functions():
        if not k.module.startswith('pyspike.cython'):
            continue
        ps = [a.arg for a in k.node.args.args]
        ds = k.node.args.defaults
        named = dict(zip(ps[len(ps) - len(ds):], ds))
        for nm, want in (('MRTS', 0.0), ('RI', 0)):
            if nm in named:
                d = named[nm]
                t = f"{k.name} ({k.path}): default of `{nm}` is {want!r} (the non-adaptive measure)"
                if isinstance(d, ast.Constant) and float(d.value) == float(want):
                    obs.append(ok(rule, t, k.loc(), construct=f"{_fn(k)}::default::{nm}"))
                else:
                    obs.append(violation(rule, t, k.loc(), key=f"{_fn(k)}::default::{nm}", detail=ast.unparse(d)))
    return obs


# ======================================================================================
# R17: filter
# ======================================================================================
def r17_filter(ctx, rule1: str = 'R17.1', rule2: str = 'R17.2') -> List[Ob]:
    repo = ctx.repo
    obs: List[Ob] = []
    f = repo.func('pyspike.spike_sync', 'filter_by_spike_sync')
    fn = _fn(f)
    ps = [a.arg for a in f.node.args.args]
    trains, thr = ps[0], ps[1]
    masks = []
    for n in ast.walk(f.node):
        if isinstance(n, ast.Subscript) and isinstance(n.slice, ast.Compare) and len(n.slice.ops) == 1 and isinstance(n.ctx, ast.Load):
            masks.append(n)
    env = Env()
    # N = len(spike_trains)
    nname = None
    for n in ast.walk(f.node):
        if isinstance(n, ast.Assign) and isinstance(n.targets[0], ast.Name) and isinstance(n.value, ast.Call) and \
                isinstance(n.value.func, ast.Name) and n.value.func.id == 'len' and isinstance(n.value.args[0], ast.Name) and \
                n.value.args[0].id == trains:
            nname = n.targets[0].id
    t = "filter_by_spike_sync: kept and removed spikes are selected by complementary masks `v > E` / `v <= E` over the same v and E, applied to the same train"
    if len(masks) != 2 or nname is None:
        obs.append(violation(rule1, t, f.loc(), key=f"{fn}::masks-count", detail=f"{len(masks)} mask subscripts, N = {nname}"))
        return obs
    keep, rem = masks
    # which is which: the one appended to the first result list... use operator
    ck = C.canon_cond(keep.slice, env)
    cr = C.canon_cond(rem.slice, env)
    good = C.mk_not(ck) == cr and ast.unparse(keep.value) == ast.unparse(rem.value)
    if good:
        obs.append(ok(rule1, t, f.loc(keep), construct=f"{fn}::masks"))
    else:
        obs.append(violation(rule1, t, f.loc(keep), key=f"{fn}::masks-not-complementary",
                             detail=f"kept: {ast.unparse(keep)}; removed: {ast.unparse(rem)}"))
    # strict keep test and scale E = threshold * (N - 1)
    v_expected = None
    t = f"filter_by_spike_sync: a spike is kept when its count of coincident trains is strictly greater than threshold * (N - 1)"
    # find the mask used for the *kept* list: the first SpikeTrain(...) appended before the removed branch
    kept_mask = None
    for n in ast.walk(f.node):
        if isinstance(n, ast.Assign) and isinstance(n.targets[0], ast.Name) and n.value in (keep, rem):
            nm = n.targets[0].id
            if 'filter' in nm or 'keep' in nm or 'kept' in nm:
                kept_mask = n.value
    if kept_mask is None:
        kept_mask = keep
    ckm = C.canon_cond(kept_mask.slice, env)
    # the counter: the side of the comparison that is a zero-initialised local
    zero_init = {n.targets[0].id for n in ast.walk(f.node) if isinstance(n, ast.Assign) and isinstance(n.targets[0], ast.Name)
                 and isinstance(n.value, ast.Call) and ast.unparse(n.value.func) in ('np.zeros_like', 'np.zeros')}
    sides = [kept_mask.slice.left, kept_mask.slice.comparators[0]]
    cvar = next((x for x in sides if isinstance(x, ast.Name) and x.id in zero_init), kept_mask.slice.left)
    E = C.mul(C.atom(('n', thr)), C.sub(C.atom(('n', nname)), C.ONE))
    want = C.mk_cmp('gt', C.canon_expr(cvar, env), E)
    if ckm == want:
        obs.append(ok(rule2, t, f.loc(kept_mask), construct=f"{fn}::keep-test"))
    else:
        obs.append(violation(rule2, t, f.loc(kept_mask), key=f"{fn}::keep-test", detail=f"found {C.show(ckm)}; expected {C.show(want)}"))
    # accumulation: zeros init, loop over all N trains skipping exactly i == j, adding the per-spike indicator
    cname = cvar.id if isinstance(cvar, ast.Name) else None

    def all_of_trains(lp: ast.For):
        """A loop that visits every train of the list once, in order: (index name or None, spellings of the element)."""
        it, tg = lp.iter, lp.target
        rng_all = lambda e: isinstance(e, ast.Call) and ast.unparse(e) in (f"range({nname})", f"range(len({trains}))")
        if isinstance(it, ast.Call) and isinstance(it.func, ast.Name) and it.func.id == 'enumerate' and len(it.args) == 1 \
                and ast.unparse(it.args[0]) == trains and isinstance(tg, ast.Tuple) and len(tg.elts) == 2 \
                and all(isinstance(e, ast.Name) for e in tg.elts):
            return tg.elts[0].id, {tg.elts[1].id, f"{trains}[{tg.elts[0].id}]"}
        if isinstance(it, ast.Call) and isinstance(it.func, ast.Name) and it.func.id == 'zip' and len(it.args) == 2 \
                and rng_all(it.args[0]) and ast.unparse(it.args[1]) == trains and isinstance(tg, ast.Tuple) \
                and len(tg.elts) == 2 and all(isinstance(e, ast.Name) for e in tg.elts):
            return tg.elts[0].id, {tg.elts[1].id, f"{trains}[{tg.elts[0].id}]"}
        if rng_all(it) and isinstance(tg, ast.Name):
            return tg.id, {f"{trains}[{tg.id}]"}
        if isinstance(it, ast.Name) and it.id == trains and isinstance(tg, ast.Name):
            return None, {tg.id}
        return None

    def with_aliases(lp: ast.For, elems: Set[str]) -> Set[str]:
        out = set(elems)
        for s_ in lp.body:
            if isinstance(s_, ast.Assign) and len(s_.targets) == 1 and isinstance(s_.targets[0], ast.Name) \
                    and ast.unparse(s_.value) in out:
                out.add(s_.targets[0].id)
        return out

    outer = None
    for n in ast.walk(f.node):
        if isinstance(n, ast.For) and all_of_trains(n) is not None and cname and \
                any(isinstance(s_, ast.Assign) and isinstance(s_.targets[0], ast.Name) and s_.targets[0].id == cname for s_ in n.body):
            outer = n
            break
    t = "filter_by_spike_sync: the count runs over all N trains, skips exactly the train itself, and adds the per-spike coincidence indicator of (this train, other train)"
    good = False
    detail = ''
    if outer is not None and cname:
        i, st_names = all_of_trains(outer)
        st_names = with_aliases(outer, st_names)
        init = [s for s in outer.body if isinstance(s, ast.Assign) and isinstance(s.targets[0], ast.Name) and s.targets[0].id == cname]
        inner = [s for s in outer.body if isinstance(s, ast.For)]
        if init and inner:
            zi = isinstance(init[0].value, ast.Call) and ast.unparse(init[0].value.func) in ('np.zeros_like', 'np.zeros')
            lp = inner[0]
            bind = all_of_trains(lp)
            rng = bind is not None and bind[0] is not None and i is not None
            j, other_names = bind if bind is not None else (None, set())
            other_names = with_aliases(lp, other_names)
            skip = [s for s in lp.body if isinstance(s, ast.If) and len(s.body) == 1 and isinstance(s.body[0], ast.Continue)]
            skip_ok = rng and len(skip) == 1 and C.canon_cond(skip[0].test, env) == C.mk_cmp('eq', C.atom(('n', i)), C.atom(('n', j)))
            acc_scope = lp.body
            if rng and not skip:
                # the same skip spelled as a guard: `if i != j: <accumulate>` (no else)
                guards = [s for s in lp.body if isinstance(s, ast.If) and not s.orelse]
                rest = [s for s in lp.body if not isinstance(s, ast.Pass) and s not in guards and
                        not (isinstance(s, ast.Assign) and isinstance(s.targets[0], ast.Name) and s.targets[0].id in other_names)]
                if len(guards) == 1 and not rest and \
                        C.canon_cond(guards[0].test, env) == C.mk_cmp('ne', C.atom(('n', i)), C.atom(('n', j))):
                    skip_ok = True
                    acc_scope = guards[0].body
                    other_names = other_names | {s_.targets[0].id for s_ in acc_scope if isinstance(s_, ast.Assign)
                                                 and isinstance(s_.targets[0], ast.Name) and ast.unparse(s_.value) in other_names}
            acc = [s for s in acc_scope if (isinstance(s, ast.AugAssign) and isinstance(s.target, ast.Name) and s.target.id == cname and isinstance(s.op, ast.Add))]
            acc_ok = False
            if len(acc) == 1 and isinstance(acc[0].value, ast.Call):
                a = [ast.unparse(x) for x in acc[0].value.args]
                acc_ok = len(a) >= 2 and a[0] in {f"{x}.spikes" for x in st_names} and a[1] in {f"{x}.spikes" for x in other_names}
            good = zi and rng and skip_ok and acc_ok
            detail = f"zeros init={zi} both loops visit all N trains by index={rng} skip i==j={skip_ok} accumulate(st, other)={acc_ok}"
    if good:
        obs.append(ok(rule2, t, f.loc(outer), construct=f"{fn}::accumulate"))
    else:
        obs.append(violation(rule2, t, f.loc(outer) if outer else f.loc(), key=f"{fn}::accumulate", detail=detail))
    # outputs on the original edges
    t = "filter_by_spike_sync: kept / removed spikes are wrapped in new SpikeTrain objects on the train's own [t_start, t_end]"
    ctor = [n for n in ast.walk(f.node) if isinstance(n, ast.Call) and isinstance(n.func, ast.Name) and n.func.id == 'SpikeTrain']
    owners = with_aliases(outer, all_of_trains(outer)[1]) if outer is not None else {'st'}
    edge_forms = {f"[{x}.t_start,{x}.t_end]" for x in owners} | {f"({x}.t_start,{x}.t_end)" for x in owners}
    if outer is not None:
        edge_forms |= {s_.targets[0].id for s_ in outer.body if isinstance(s_, ast.Assign) and len(s_.targets) == 1
                       and isinstance(s_.targets[0], ast.Name) and ast.unparse(s_.value).replace(' ', '') in edge_forms
                       and sum(1 for n in ast.walk(f.node) if isinstance(n, ast.Name) and n.id == s_.targets[0].id
                               and isinstance(n.ctx, ast.Store)) == 1}
    good = len(ctor) == 2 and all(len(c.args) == 2 and ast.unparse(c.args[1]).replace(' ', '') in edge_forms for c in ctor)
    if good:
        obs.append(ok(rule1, t, f.loc(ctor[0]), construct=f"{fn}::edges"))
    else:
        obs.append(violation(rule1, t, f.loc(), key=f"{fn}::output-edges", detail=str([ast.unparse(c) for c in ctor])))
    return obs


# ======================================================================================
# R20.1 multiset-preserving data paths
# ======================================================================================
PRESERVING_CALLS = {'np.concatenate', 'np.append', 'np.hstack', 'np.sort', 'np.array', 'np.asarray', 'np.copy', 'sorted', 'list'}
PRESERVING_METHODS = {'sort', 'copy', 'tolist'}
LOSSY = {'np.unique', 'set', 'np.histogram', 'np.intersect1d', 'np.union1d', 'np.setdiff1d'}


def r20_1_multiset(ctx, rule: str = 'R20.1') -> List[Ob]:
    repo = ctx.repo
    obs: List[Ob] = []
    # ---- merge_spike_trains
    f = repo.func('pyspike.spikes', 'merge_spike_trains')
    fn = _fn(f)
    p0 = f.node.args.args[0].arg
    ret = next((n for n in ast.walk(f.node) if isinstance(n, ast.Return)), None)
    t = "merge_spike_trains: the result's spikes come from the `.spikes` of every train of the list through concatenation and sorting only"
    good = False
    detail = ''
    if ret is not None and isinstance(ret.value, ast.Call) and ret.value.args:
        if isinstance(ret.value.args[0], ast.Name):
            var = ret.value.args[0].id
            defs = [n for n in f.node.body if isinstance(n, ast.Assign) and isinstance(n.targets[0], ast.Name) and n.targets[0].id == var]
        else:
            # the pooled array is built in the constructor call itself
            var = '<result>'
            defs = [ast.Assign(targets=[ast.Name(id=var, ctx=ast.Store())], value=ret.value.args[0])]
        ops = []
        src_ok = False
        for d in defs:
            v = d.value
            chain = []
            while isinstance(v, ast.Call):
                dn = C.dotted(v.func) or ast.unparse(v.func)
                chain.append(dn)
                v = v.args[0] if v.args else None
            ops += chain
            if isinstance(v, ast.ListComp) and len(v.generators) == 1 and isinstance(v.generators[0].iter, ast.Name) and \
                    v.generators[0].iter.id == p0 and not v.generators[0].ifs and ast.unparse(v.elt) == f"{v.generators[0].target.id}.spikes":
                src_ok = True
        meths = [n.value.func.attr for n in f.node.body if isinstance(n, ast.Expr) and isinstance(n.value, ast.Call) and
                 isinstance(n.value.func, ast.Attribute) and isinstance(n.value.func.value, ast.Name) and n.value.func.value.id == var]
        lossy = [o for o in ops if o in LOSSY] + [m for m in meths if m in ('clear', 'pop', 'remove', 'resize')]
        unknown = [o for o in ops if o not in LOSSY and o not in PRESERVING_CALLS] + \
                  [m for m in meths if m not in PRESERVING_METHODS and m not in ('clear', 'pop', 'remove', 'resize')]
        # any other statement touching var (slicing, masking)?
        others = [n for n in f.node.body if isinstance(n, ast.Assign) and n not in defs and any(isinstance(x, ast.Name) and x.id == var for x in ast.walk(n))]
        sorts = ('np.sort' in ops or 'sorted' in ops or 'sort' in meths)
        good = src_ok and not lossy and not others and sorts and 'np.concatenate' in ops and not unknown
        detail = f"source all trains={src_ok} ops={ops} methods={meths} sorted={sorts} lossy={lossy} unrecognised={unknown}"
        if not good and not lossy and (unknown or (not src_ok and not any(isinstance(x, ast.ListComp) and x.generators[0].ifs for d in defs for x in ast.walk(d)))) \
                and not others and sorts:
            obs.append(inconclusive(rule, t, f.loc(), detail, construct=f"{fn}::path"))
            good = None
    if good is True:
        obs.append(ok(rule, t, f.loc(), construct=f"{fn}::path", detail=detail))
    elif good is False:
        obs.append(violation(rule, t, f.loc(), key=f"{fn}::multiset-path", detail=detail))
    t = "merge_spike_trains: the merged train carries the first train's interval"
    edges_ok = ret is not None and len(ret.value.args) >= 2 and ast.unparse(ret.value.args[1]).replace(' ', '').replace('\n', '') == f"[{p0}[0].t_start,{p0}[0].t_end]"
    obs.append(ok(rule, t, f.loc(ret), construct=f"{fn}::edges") if edges_ok else violation(rule, t, f.loc(), key=f"{fn}::edges"))
    # ---- psth
    g = repo.func('pyspike.psth', 'psth')
    gn = _fn(g)
    q0, q1 = [a.arg for a in g.node.args.args[:2]]
    hist = next((n for n in ast.walk(g.node) if isinstance(n, ast.Call) and C.dotted(n.func) == 'np.histogram'), None)
    t = "psth: the histogram is taken over the spikes of every train (first train plus a loop over all the others, appended)"
    good = False
    detail = ''
    def pools_all(e) -> Optional[bool]:
        """`np.concatenate([<spikes of st> for st in trains])` (also hstack; the element may be wrapped in calls that keep
        every value: ravel, asarray, array): True / False (a filter or another source) / None (not this shape)"""
        if isinstance(e, ast.Call) and C.dotted(e.func) in ('np.concatenate', 'np.hstack') and e.args and \
                isinstance(e.args[0], (ast.ListComp, ast.GeneratorExp)) and all(
                    k_.arg == 'axis' and isinstance(k_.value, ast.Constant) and k_.value.value in (None, 0) for k_ in e.keywords):
            lc = e.args[0]
            if len(lc.generators) != 1:
                return False
            g_ = lc.generators[0]
            elt = lc.elt
            while isinstance(elt, ast.Call) and C.dotted(elt.func) in ('np.ravel', 'np.asarray', 'np.array', 'np.atleast_1d') and elt.args:
                elt = elt.args[0]
            return isinstance(g_.iter, ast.Name) and g_.iter.id == q0 and not g_.ifs and isinstance(g_.target, ast.Name) and \
                ast.unparse(elt) == f"{g_.target.id}.spikes"
        return None
    direct = pools_all(hist.args[0]) if hist is not None and hist.args else None
    if direct is None and hist is not None and hist.args:
        # pooled through a SpikeTrain: `np.histogram(SpikeTrain(<pool>, ...).spikes, ...)` - the constructor keeps every given
        # spike time (its own obligation, R20.5)
        e_ = hist.args[0]
        if isinstance(e_, ast.Attribute) and e_.attr == 'spikes':
            src_ = e_.value
            if isinstance(src_, ast.Name):
                defs_ = [n for n in g.node.body if isinstance(n, ast.Assign) and len(n.targets) == 1
                         and isinstance(n.targets[0], ast.Name) and n.targets[0].id == src_.id]
                src_ = defs_[0].value if len(defs_) == 1 else src_
            if isinstance(src_, ast.Call) and (C.dotted(src_.func) or '').split('.')[-1] == 'SpikeTrain' and src_.args:
                direct = pools_all(src_.args[0])
    if direct is not None:
        t_ = "psth: the histogram is taken over the spikes of every train (first train plus a loop over all the others, appended)"
        obs.append(ok(rule, t_, g.loc(), construct=f"{gn}::pool") if direct else
                   violation(rule, t_, g.loc(), key=f"{gn}::pool-all-trains", detail=ast.unparse(hist.args[0])[:200]))
    if direct is None and hist is not None and isinstance(hist.args[0], ast.Name):
        var = hist.args[0].id
        init = [n for n in g.node.body if isinstance(n, ast.Assign) and isinstance(n.targets[0], ast.Name) and n.targets[0].id == var]
        loops = [n for n in g.node.body if isinstance(n, ast.For)]
        penv = _top_env_of(g)
        penv.vals.pop(var, None)

        def spikes_of(idx):
            return C.atom(('attr', ('sub', ('n', q0), idx), 'spikes'))
        try:
            init_ok = bool(init) and C.canon_expr(init[0].value, penv) == spikes_of(C.ZERO)
        except C.CanonError:
            init_ok = False
        loop_ok = False
        if len(loops) == 1:
            lp = loops[0]
            try:
                want_rng = C.mk_call('range', (C.ONE, C.atom(('call', 'len', (C.atom(('n', q0)),)))), ())
                want_rng = want_rng if C.is_poly(want_rng) else C.atom(want_rng)
                rng = C.canon_expr(lp.iter, penv) == want_rng
                i = lp.target.id if isinstance(lp.target, ast.Name) else None
                body = [b_ for b_ in lp.body if not isinstance(b_, ast.Pass)]
                want_app = C.mk_call('np.append', (C.atom(('n', var)), spikes_of(C.atom(('n', i)))), ())
                want_app = want_app if C.is_poly(want_app) else C.atom(want_app)
                body_ok = len(body) == 1 and isinstance(body[0], ast.Assign) and ast.unparse(body[0].targets[0]) == var and \
                    C.canon_expr(body[0].value, penv) == want_app
            except C.CanonError:
                rng = body_ok = False
            loop_ok = rng and body_ok
            if not loop_ok and isinstance(lp.target, ast.Name):
                # the same loop over the elements: `for st in trains[1:]: pooled = np.append(pooled, st.spikes)`
                it = lp.iter
                tail = isinstance(it, ast.Subscript) and isinstance(it.value, ast.Name) and it.value.id == q0 and \
                    isinstance(it.slice, ast.Slice) and isinstance(it.slice.lower, ast.Constant) and it.slice.lower.value == 1 and \
                    it.slice.upper is None and it.slice.step is None
                body = [b_ for b_ in lp.body if not isinstance(b_, ast.Pass)]
                try:
                    want_el = C.mk_call('np.append', (C.atom(('n', var)), C.atom(('attr', ('n', lp.target.id), 'spikes'))), ())
                    want_el = want_el if C.is_poly(want_el) else C.atom(want_el)
                    penv2 = _top_env_of(g)
                    penv2.vals.pop(var, None)
                    penv2.vals.pop(lp.target.id, None)
                    el_ok = len(body) == 1 and isinstance(body[0], ast.Assign) and ast.unparse(body[0].targets[0]) == var and \
                        C.canon_expr(body[0].value, penv2) == want_el
                except C.CanonError:
                    el_ok = False
                loop_ok = tail and el_ok
        good = init_ok and loop_ok
        detail = f"init={init_ok} loop={loop_ok}"
        verdict = 'ok' if good else 'violation'
        if not good:
            # other spellings that pool every train
            alt = [n for n in g.node.body if isinstance(n, ast.Assign) and ast.unparse(n.targets[0]) == var and isinstance(n.value, ast.Call)
                   and C.dotted(n.value.func) in ('np.concatenate', 'np.hstack') and n.value.args and isinstance(n.value.args[0], ast.ListComp)]
            if alt:
                lc = alt[0].value.args[0]
                full = len(lc.generators) == 1 and isinstance(lc.generators[0].iter, ast.Name) and lc.generators[0].iter.id == q0 and \
                    not lc.generators[0].ifs and ast.unparse(lc.elt) == f"{lc.generators[0].target.id}.spikes"
                verdict = 'ok' if full else 'violation'
                detail = f"concatenate over comprehension, all trains={full}"
            elif not (init_ok and len(loops) == 1):
                verdict = 'inconclusive'
    elif direct is None:
        verdict = 'inconclusive'
    else:
        verdict = 'done'
    if verdict == 'done':
        pass
    elif verdict == 'ok':
        obs.append(ok(rule, t, g.loc(), construct=f"{gn}::pool"))
    elif verdict == 'violation':
        obs.append(violation(rule, t, g.loc(), key=f"{gn}::pool-all-trains", detail=detail))
    else:
        obs.append(inconclusive(rule, t, g.loc(), detail, construct=f"{gn}::pool"))
    t = "psth: bin edges are bin_count+1 equally spaced points from t_start to t_end and are what np.histogram uses"
    lin = next((n for n in ast.walk(g.node) if isinstance(n, ast.Call) and C.dotted(n.func) == 'np.linspace'), None)
    good = False
    if lin is not None and hist is not None and len(lin.args) == 3:
        bins_var = next((n.targets[0].id for n in g.node.body if isinstance(n, ast.Assign) and n.value is lin and isinstance(n.targets[0], ast.Name)), None)
        penv = _top_env_of(g)
        try:
            lo, hi = C.canon_expr(lin.args[0], penv), C.canon_expr(lin.args[1], penv)
            ts0 = C.atom(('attr', ('sub', ('n', q0), C.ZERO), 't_start'))
            te0 = C.atom(('attr', ('sub', ('n', q0), C.ZERO), 't_end'))
            # number of points = number of bins + 1, the number of bins being int((t_end - t_start) / bin_size)
            cpoly = C.canon_expr(lin.args[2], penv)
            bins_n = C.mk_call('int', (C.div(C.sub(te0, ts0), C.atom(('n', q1))),), ())
            bins_n = bins_n if C.is_poly(bins_n) else C.atom(bins_n)
            cnt_ok = cpoly == C.add(bins_n, C.ONE)
            uses_bins = len(hist.args) >= 2 and (
                (isinstance(hist.args[1], ast.Name) and hist.args[1].id == bins_var) or hist.args[1] is lin or
                (bins_var is not None and C.canon_expr(hist.args[1], penv) == penv.vals.get(bins_var)))
            good = lo == ts0 and hi == te0 and cnt_ok and uses_bins
        except C.CanonError:
            good = False
    obs.append(ok(rule, t, g.loc(), construct=f"{gn}::bins") if good else violation(rule, t, g.loc(), key=f"{gn}::bins"))
    return obs


def _top_env_of(fi) -> Env:
    """state after the once-assigned, side-effect free top-level definitions of a function (`n = len(xs)` ...)"""
    env = Env()
    stores: Dict[str, int] = {}
    for n in ast.walk(fi.node):
        if isinstance(n, ast.Name) and isinstance(n.ctx, ast.Store):
            stores[n.id] = stores.get(n.id, 0) + 1
    _params = {a_.arg for a_ in fi.node.args.args + fi.node.args.kwonlyargs}
    for st in fi.node.body:
        if isinstance(st, ast.Assign) and len(st.targets) == 1 and isinstance(st.targets[0], ast.Name) \
                and stores.get(st.targets[0].id) == 1 and st.targets[0].id not in _params:
            try:
                env.vals[st.targets[0].id] = C.canon_expr(st.value, env)
            except C.CanonError:
                pass
    return env


# ======================================================================================
# R13.3 reconcile shape
# ======================================================================================
def r13_3_reconcile_shape(ctx, rule: str = 'R13.3') -> List[Ob]:
    repo = ctx.repo
    obs: List[Ob] = []
    f = repo.func('pyspike.spikes', 'reconcile_spike_trains')
    fn = _fn(f)
    src = f.node
    p0 = src.args.args[0].arg
    # (a) sort + dedup of every train's spikes into new SpikeTrain objects
    t = "reconcile_spike_trains: every train is rebuilt as a new SpikeTrain over np.unique (sorted, duplicate-free) of its spikes"
    good = False
    for n in ast.walk(src):
        if isinstance(n, ast.ListComp) and isinstance(n.elt, ast.Call) and isinstance(n.elt.func, ast.Name) and n.elt.func.id == 'SpikeTrain' \
                and len(n.generators) == 1 and isinstance(n.generators[0].iter, ast.Name) and n.generators[0].iter.id == p0 and not n.generators[0].ifs:
            a0 = n.elt.args[0]
            if isinstance(a0, ast.Call) and C.dotted(a0.func) == 'np.unique' and ast.unparse(a0.args[0]) == f"{n.generators[0].target.id}.spikes":
                good = True
                # ... on the train's own edges (a single number as `edges` means [0, number])
                v_ = n.generators[0].target.id
                e_ = n.elt.args[1] if len(n.elt.args) > 1 else next((k.value for k in n.elt.keywords if k.arg == 'edges'), None)
                own_edges = isinstance(e_, (ast.List, ast.Tuple)) and [ast.unparse(x) for x in e_.elts] == [f"{v_}.t_start", f"{v_}.t_end"]
                t_e = "reconcile_spike_trains: every rebuilt train keeps its own edges [t_start, t_end] until the common interval is applied"
                obs.append(ok(rule, t_e, f.loc(n), construct=f"{fn}::own-edges") if own_edges else
                           violation(rule, t_e, f.loc(n), key=f"{fn}::own-edges", detail=f"edges argument: `{ast.unparse(e_) if e_ is not None else 'missing'}`"))
    obs.append(ok(rule, t, f.loc(), construct=f"{fn}::unique") if good else violation(rule, t, f.loc(), key=f"{fn}::sort-dedup"))
    # (a') the list of trains is only ever re-bound to per-train rebuilds: every element of the new list is a SpikeTrain made
    # from the spikes and the edges of the element it replaces.  An element substituted by something else (`s or
    # SpikeTrain([], other edges)` - a train without spikes is falsy -, a default object, a filtered list) takes a valid
    # train's own interval out of the common one
    t_r = ("reconcile_spike_trains: the train list is only re-bound element by element to SpikeTrain objects built from each "
           "element's own spikes and edges (no element is substituted, dropped or added before the common interval is computed)")
    n_rebinds = 0
    for n in ast.walk(src):
        if not (isinstance(n, ast.Assign) and any(isinstance(t_, ast.Name) and t_.id == p0 for t_ in n.targets)):
            continue
        n_rebinds += 1
        v = n.value
        problem = None
        if isinstance(v, ast.Call) and (C.dotted(v.func) or '') in ('list', 'tuple') and len(v.args) == 1 and isinstance(v.args[0], ast.Name) \
                and v.args[0].id == p0:
            pass                                            # a plain copy of the list
        elif isinstance(v, ast.ListComp) and len(v.generators) == 1 and not v.generators[0].ifs and isinstance(v.generators[0].iter, ast.Name) \
                and v.generators[0].iter.id == p0 and isinstance(v.generators[0].target, ast.Name):
            x = v.generators[0].target.id
            e = v.elt
            if isinstance(e, ast.Name) and e.id == x:
                pass
            elif isinstance(e, ast.Call) and isinstance(e.func, ast.Name) and e.func.id == 'SpikeTrain' and e.args:
                reads_own = any(isinstance(a_, ast.Attribute) and a_.attr == 'spikes' and isinstance(a_.value, ast.Name) and a_.value.id == x
                                for a_ in ast.walk(e.args[0]))
                if not reads_own:
                    problem = f"`{ast.unparse(e)[:80]}` is not built from the spikes of the element it replaces"
            elif isinstance(e, (ast.BoolOp, ast.IfExp)):
                problem = (f"`{ast.unparse(e)[:80]}` substitutes some elements by another object (a SpikeTrain without spikes is "
                           f"falsy: `len()` is its truth value)")
            else:
                problem = None if isinstance(e, ast.Call) else f"`{ast.unparse(e)[:80]}`"
                if isinstance(e, ast.Call):
                    obs.append(inconclusive(rule, t_r, f.loc(n), f"element expression `{ast.unparse(e)[:80]}`", construct=f"{fn}::rebind"))
                    continue
        elif isinstance(v, (ast.ListComp, ast.Call, ast.BinOp, ast.Subscript)):
            problem = f"`{ast.unparse(n)[:90]}` changes which trains take part"
        else:
            obs.append(inconclusive(rule, t_r, f.loc(n), f"`{ast.unparse(n)[:80]}`", construct=f"{fn}::rebind"))
            continue
        if problem:
            obs.append(violation(rule, t_r, f.loc(n), key=f"{fn}::list-rebound::{problem[:60]}", detail=problem))
        else:
            obs.append(ok(rule, t_r, f.loc(n), construct=f"{fn}::rebind::{n_rebinds}"))
    # (b) global edges: min of starts, max of ends
    env = Env()
    t = "reconcile_spike_trains: the common interval runs from the smallest start to the largest end"
    mins = [n for n in ast.walk(src) if isinstance(n, ast.Call) and isinstance(n.func, ast.Name) and n.func.id in ('min', 'max')]
    # lists that hold one entry per input train: the parameter and comprehensions over such a list without a filter
    per_train = {p0}
    grew = True
    while grew:
        grew = False
        for n in ast.walk(src):
            if isinstance(n, ast.Assign) and len(n.targets) == 1 and isinstance(n.targets[0], ast.Name) and isinstance(n.value, ast.ListComp) \
                    and len(n.value.generators) == 1 and not n.value.generators[0].ifs and isinstance(n.value.generators[0].iter, ast.Name) \
                    and n.value.generators[0].iter.id in per_train and n.targets[0].id not in per_train:
                per_train.add(n.targets[0].id)
                grew = True
    srcs = {}
    for n in ast.walk(src):
        if isinstance(n, ast.Assign) and isinstance(n.value, ast.ListComp) and isinstance(n.targets[0], ast.Name):
            e = ast.unparse(n.value.elt)
            if e.endswith('.t_start'):
                srcs[n.targets[0].id] = 'start'
            elif e.endswith('.t_end'):
                srcs[n.targets[0].id] = 'end'
    got = {}
    for m in mins:
        if m.args and isinstance(m.args[0], ast.Name) and m.args[0].id in srcs:
            got[srcs[m.args[0].id]] = m.func.id
        elif m.args and isinstance(m.args[0], (ast.ListComp, ast.GeneratorExp)) and not m.args[0].generators[0].ifs \
                and isinstance(m.args[0].generators[0].iter, ast.Name) and m.args[0].generators[0].iter.id in per_train:
            # the list of edges passed directly
            e = ast.unparse(m.args[0].elt)
            if e.endswith('.t_start'):
                got['start'] = m.func.id
            elif e.endswith('.t_end'):
                got['end'] = m.func.id
    good = got == {'start': 'min', 'end': 'max'}
    obs.append(ok(rule, t, f.loc(), construct=f"{fn}::edges") if good else violation(rule, t, f.loc(), key=f"{fn}::global-edges", detail=str(got)))
    # (c) clipping: keeps t with  start - eps < t < end + eps
    t = "reconcile_spike_trains: spikes are kept exactly when they lie inside the common interval (both bounds, with the small slack)"
    good = False

    def two_sided(conj, var) -> bool:
        """exactly two strict tests, one bounding `var` from below and one from above"""
        lo_ok = hi_ok = False
        for x in conj:
            if x[0] == 'cmp' and x[1] == 'lt':
                co = [cc for m_, cc in x[2][1] if m_ == (var if isinstance(var, tuple) else ('n', var),)]
                if co and co[0] < 0:
                    lo_ok = True      # bound - t < 0  => t > bound
                if co and co[0] > 0:
                    hi_ok = True      # t - bound < 0
        return lo_ok and hi_ok and len(conj) == 2
    # the bounds themselves: common start minus the slack, common end plus the slack, the slack being the constant 1e-6 of the
    # definition (a slack that scales with an edge changes sign with it and vanishes at 0)
    edge_names = {}
    for n in ast.walk(src):
        if isinstance(n, ast.Assign) and len(n.targets) == 1 and isinstance(n.targets[0], ast.Name) and isinstance(n.value, ast.Call) \
                and isinstance(n.value.func, ast.Name) and n.value.func.id in ('min', 'max'):
            edge_names.setdefault(n.value.func.id, n.targets[0].id)
    consts = {}
    stores_ = {}
    for n in ast.walk(src):
        if isinstance(n, ast.Name) and isinstance(n.ctx, ast.Store):
            stores_[n.id] = stores_.get(n.id, 0) + 1
    for n in ast.walk(src):
        if isinstance(n, ast.Assign) and len(n.targets) == 1 and isinstance(n.targets[0], ast.Name) and stores_.get(n.targets[0].id) == 1 \
                and not (isinstance(n.value, ast.Call) and isinstance(n.value.func, ast.Name) and n.value.func.id in ('min', 'max')) \
                and not isinstance(n.value, (ast.ListComp, ast.List, ast.GeneratorExp)):
            try:
                consts[n.targets[0].id] = C.canon_expr(n.value, env)
            except C.CanonError:
                pass
    # (module-level numeric constants, bound once, count as their value)
    try:
        mtree = repo.module('pyspike.spikes').tree
        mcount = {}
        for st_ in mtree.body:
            if isinstance(st_, ast.Assign):
                for tg_ in st_.targets:
                    if isinstance(tg_, ast.Name):
                        mcount[tg_.id] = mcount.get(tg_.id, 0) + 1
        for st_ in mtree.body:
            if isinstance(st_, ast.Assign) and len(st_.targets) == 1 and isinstance(st_.targets[0], ast.Name) \
                    and mcount.get(st_.targets[0].id) == 1 and st_.targets[0].id not in stores_ \
                    and isinstance(st_.value, ast.Constant) and isinstance(st_.value.value, (int, float)) \
                    and not isinstance(st_.value.value, bool):
                consts.setdefault(st_.targets[0].id, C.canon_expr(st_.value, Env()))
    except Exception:
        pass
    for k_, v_ in consts.items():
        env.set(k_, v_)
    bounds_detail = ''

    def bounds_ok(conj, var_src: str) -> bool:
        nonlocal bounds_detail
        if set(edge_names) != {'min', 'max'}:
            bounds_detail = 'common start / end not found as `x = min(...)` / `y = max(...)`'
            return False
        want_src = f"({edge_names['min']} - 1e-06 < {var_src}) and ({var_src} < {edge_names['max']} + 1e-06)"
        e2 = Env()
        want = C.canon_cond(ast.parse(want_src, mode='eval').body, e2)
        wconj = want[1] if want[0] == 'and' else [want]
        if set(wconj) == set(conj):
            return True
        bounds_detail = f"found {' and '.join(C.show(x) for x in conj)}; expected {' and '.join(C.show(x) for x in wconj)}"
        return False
    bounds_good = None
    for n in ast.walk(src):
        if isinstance(n, ast.ListComp) and n.generators and n.generators[0].ifs and isinstance(n.elt, ast.Name):
            try:
                c = C.canon_cond(n.generators[0].ifs[0], env)
            except C.CanonError:
                continue
            conj = c[1] if c[0] == 'and' else [c]
            good = two_sided(conj, n.elt.id)
            if good:
                bounds_good = bounds_ok(conj, n.elt.id)
        elif isinstance(n, ast.Subscript) and isinstance(n.value, (ast.Name, ast.Attribute)) and isinstance(n.ctx, ast.Load):
            # the same selection on an array: `x[(lo < x) & (x < hi)]` / `x[np.logical_and(lo < x, x < hi)]`
            m = n.slice
            parts = None
            if isinstance(m, ast.BinOp) and isinstance(m.op, ast.BitAnd):
                parts = [m.left, m.right]
            elif isinstance(m, ast.Call) and C.dotted(m.func) == 'np.logical_and' and len(m.args) == 2 and not m.keywords:
                parts = list(m.args)
            if parts and all(isinstance(p_, ast.Compare) and len(p_.ops) == 1 for p_ in parts):
                try:
                    conj = [C.canon_cond(p_, env) for p_ in parts]
                    base_atom = C.single_atom(C.canon_expr(n.value, env))
                except C.CanonError:
                    continue
                good = base_atom is not None and two_sided(conj, base_atom)
                if good:
                    bounds_good = bounds_ok(conj, ast.unparse(n.value))
    obs.append(ok(rule, t, f.loc(), construct=f"{fn}::clip") if good else violation(rule, t, f.loc(), key=f"{fn}::clipping"))
    if good:
        t2 = ("reconcile_spike_trains: the bounds of the selection are the common start minus and the common end plus the constant "
              "slack 1e-6 of the definition")
        obs.append(ok(rule, t2, f.loc(), construct=f"{fn}::clip-bounds") if bounds_good else
                   violation(rule, t2, f.loc(), key=f"{fn}::clipping-bounds", detail=bounds_detail))
    # (c') the selected spike times are what the new trains hold: between the selection and the SpikeTrain constructor (or
    # the attribute store that feeds it) nothing but copies - a call that maps the selected times to other values (np.clip,
    # np.round, arithmetic) can make two distinct times equal after the duplicates were removed
    parents = {}
    for n in ast.walk(src):
        for c_ in ast.iter_child_nodes(n):
            parents[id(c_)] = n
    nested_names = {d.name for d in ast.walk(src) if isinstance(d, ast.FunctionDef) and d is not src}
    t = "reconcile_spike_trains: the selected spike times reach the new trains unchanged (copies only between the selection and the constructor)"
    sel_nodes = []
    for n in ast.walk(src):
        if isinstance(n, ast.ListComp) and n.generators and n.generators[0].ifs and isinstance(n.elt, ast.Name):
            sel_nodes.append(n)
        elif isinstance(n, ast.Subscript) and isinstance(n.ctx, ast.Load) and (
                (isinstance(n.slice, ast.BinOp) and isinstance(n.slice.op, ast.BitAnd)) or
                (isinstance(n.slice, ast.Call) and C.dotted(n.slice.func) == 'np.logical_and')):
            sel_nodes.append(n)
    bad_wrap = None
    for n in sel_nodes:
        cur = n
        while id(cur) in parents:
            par = parents[id(cur)]
            if isinstance(par, ast.Call) and cur in par.args:
                fnm = C.dotted(par.func) or ast.unparse(par.func)
                if fnm in ('SpikeTrain',):
                    break
                if fnm in ('np.array', 'np.asarray', 'list', 'np.copy') or fnm in nested_names:
                    cur = par
                    continue
                bad_wrap = (par, fnm)
                break
            if isinstance(par, (ast.BinOp, ast.UnaryOp)) and not (isinstance(par, ast.BinOp) and isinstance(par.op, ast.BitAnd)):
                bad_wrap = (par, ast.unparse(par)[:40])
                break
            if isinstance(par, (ast.stmt, ast.comprehension)):
                break
            cur = par
        if bad_wrap:
            break
    if sel_nodes and bad_wrap is None:
        # ... and the carrier of the selection (`s.spikes = [t for ...]`, a local) is not re-bound to anything but a copy of
        # itself afterwards (`s.spikes = np.clip(s.spikes, lo, hi)` moves two distinct times onto one edge)
        order = {id(n): k for k, n in enumerate(ast.walk(src))}
        stmts = [n for n in ast.walk(src) if isinstance(n, (ast.Assign, ast.AugAssign))]
        for n in sel_nodes:
            st = n
            while id(st) in parents and not isinstance(st, ast.stmt):
                st = parents[id(st)]
            if not (isinstance(st, ast.Assign) and len(st.targets) == 1 and isinstance(st.targets[0], (ast.Name, ast.Attribute))):
                continue
            carrier = ast.unparse(st.targets[0])
            # (statements of the same loop body / block that follow the selection, and everything behind the loop)
            blk = parents.get(id(st))
            for st2 in stmts:
                if st2 is st:
                    continue
                tg = st2.targets if isinstance(st2, ast.Assign) else [st2.target]
                if not any(ast.unparse(t_) == carrier for t_ in tg):
                    continue
                same_block_later = blk is not None and any(st2 is x for b_ in ('body', 'orelse') for x in getattr(blk, b_, [])
                                                           ) and order[id(st2)] > order[id(st)]
                if not same_block_later:
                    continue
                v = st2.value
                while isinstance(v, ast.Call) and (C.dotted(v.func) or '') in ('np.array', 'np.asarray', 'list', 'np.copy') and v.args:
                    v = v.args[0]
                if isinstance(st2, ast.AugAssign) or ast.unparse(v) != carrier:
                    bad_wrap = (st2, ast.unparse(st2)[:40])
                    break
            if bad_wrap:
                break
    if sel_nodes:
        if bad_wrap is None:
            obs.append(ok(rule, t, f.loc(), construct=f"{fn}::selection-unchanged"))
        else:
            obs.append(violation(rule, t, f.loc(bad_wrap[0]), key=f"{fn}::selection-transformed::{bad_wrap[1]}",
                                 detail=f"`{ast.unparse(bad_wrap[0])[:120]}` changes the selected times before they are stored"))
    # (d) result: new SpikeTrain objects on the common interval
    t = "reconcile_spike_trains: returns new SpikeTrain objects, all on the common interval"
    inner_nodes = {id(x) for d in ast.walk(src) if isinstance(d, (ast.FunctionDef, ast.Lambda)) and d is not src for x in ast.walk(d)}
    rets = [n for n in ast.walk(src) if isinstance(n, ast.Return) and id(n) not in inner_nodes]
    good = len(rets) == 1 and isinstance(rets[0].value, ast.ListComp) and isinstance(rets[0].value.elt, ast.Call) and \
        getattr(rets[0].value.elt.func, 'id', '') == 'SpikeTrain' and not rets[0].value.generators[0].ifs
    obs.append(ok(rule, t, f.loc(), construct=f"{fn}::result") if good else violation(rule, t, f.loc(), key=f"{fn}::result"))
    g = repo.func('pyspike.spikes', 'reconcile_spike_trains_bi')
    t = "reconcile_spike_trains_bi: reconciles the pair through reconcile_spike_trains and returns both results in order"
    rets = [n for n in ast.walk(g.node) if isinstance(n, ast.Return)]
    gp_ = [a_.arg for a_ in g.node.args.args]
    once: Dict[str, ast.AST] = {}
    cnt: Dict[str, int] = {}
    for n in ast.walk(g.node):
        if isinstance(n, ast.Name) and isinstance(n.ctx, ast.Store):
            cnt[n.id] = cnt.get(n.id, 0) + 1
    for n in ast.walk(g.node):
        if isinstance(n, ast.Assign) and len(n.targets) == 1 and isinstance(n.targets[0], ast.Name) and cnt.get(n.targets[0].id) == 1:
            once[n.targets[0].id] = n.value

    def res(e, depth=0):
        while isinstance(e, ast.Name) and e.id in once and depth < 5:
            e, depth = once[e.id], depth + 1
        return e

    def is_call(e) -> bool:
        """reconcile_spike_trains([first parameter, second parameter])"""
        e = res(e)
        if not (isinstance(e, ast.Call) and isinstance(e.func, ast.Name) and e.func.id == 'reconcile_spike_trains' and len(e.args) == 1
                and not e.keywords):
            return False
        a_ = res(e.args[0])
        return isinstance(a_, (ast.List, ast.Tuple)) and [ast.unparse(x) for x in a_.elts] == gp_[:2] and len(gp_) == 2
    good = False
    if len(rets) == 1 and isinstance(rets[0].value, ast.Tuple) and len(rets[0].value.elts) == 2:
        e0, e1 = rets[0].value.elts
        if all(isinstance(e, ast.Subscript) and isinstance(e.slice, ast.Constant) for e in (e0, e1)):
            good = (e0.slice.value, e1.slice.value) == (0, 1) and ast.unparse(e0.value) == ast.unparse(e1.value) and is_call(e0.value)
        elif isinstance(e0, ast.Name) and isinstance(e1, ast.Name):
            # `a, b = reconcile_spike_trains([..]); return a, b`
            for n in ast.walk(g.node):
                if isinstance(n, ast.Assign) and len(n.targets) == 1 and isinstance(n.targets[0], ast.Tuple) \
                        and [ast.unparse(x) for x in n.targets[0].elts] == [e0.id, e1.id] and is_call(n.value) \
                        and cnt.get(e0.id) == 1 and cnt.get(e1.id) == 1 and e0.id != e1.id:
                    good = True
    elif len(rets) == 1 and is_call(rets[0].value):
        good = True       # the two-element list itself
    elif len(rets) == 1:
        rv = res(rets[0].value)
        if isinstance(rv, ast.Call) and isinstance(rv.func, ast.Name) and rv.func.id in ('tuple', 'list') and len(rv.args) == 1 \
                and not rv.keywords and is_call(rv.args[0]):
            good = True   # the same two results as a tuple / a fresh list
    obs.append(ok(rule, t, g.loc(), construct=f"{_fn(g)}::pair") if good else violation(rule, t, g.loc(), key=f"{_fn(g)}::pair"))
    return obs


# ======================================================================================
# R06.2 / R06.3 / R05.5
# ======================================================================================
def r06_aggregation(ctx, rule_dc: str = 'R06.2', rule_norm: str = 'R06.3') -> List[Ob]:
    repo = ctx.repo
    wm = wrapper_model(ctx)
    obs: List[Ob] = []
    env = Env()
    gp = repo.func('pyspike.generic', '_generic_profile_multi')
    fn = _fn(gp)
    # the sum over all pairs (recursive helper, leaves, combination, count): decided on values, see rules_reducer
    from .rules_reducer import r_pair_sum
    obs.extend(r_pair_sum(ctx, rule_dc, rule_norm))
    # normalisation in the multivariate profile wrappers
    for f in wm.funcs:
        calls = [n for n in ast.walk(f.node) if isinstance(n, ast.Call) and isinstance(n.func, ast.Name) and n.func.id == '_generic_profile_multi']
        if not calls or f.name.startswith('_generic'):
            continue
        # which class of profile?  through the pair function passed
        c = calls[0]
        pf = c.args[1] if len(c.args) > 1 else None
        target = None
        if isinstance(pf, ast.Call) and ast.unparse(pf.func) in ('partial', 'functools.partial') and pf.args:
            pf = pf.args[0]          # partial(pair_function, ...) passed directly
        if isinstance(pf, ast.Name):
            if pf.id in wm.partials.get(f.qual, {}):
                target = wm.partials[f.qual][pf.id][0]
            else:
                target = repo.resolve_symbol(f.module, pf.id)
        discrete = False
        if target is not None:
            for n in ast.walk(target.node):
                if isinstance(n, ast.Call) and isinstance(n.func, ast.Name) and n.func.id == 'DiscreteFunc':
                    discrete = True
        muls = [n for n in ast.walk(f.node) if isinstance(n, ast.Call) and isinstance(n.func, ast.Attribute) and n.func.attr == 'mul_scalar']
        fnn = _fn(f)
        if discrete:
            t = f"{f.name}: a multivariate discrete profile (values and multiplicities of all pairs summed) is NOT rescaled"
            if not muls:
                obs.append(ok(rule_norm, t, f.loc(), construct=f"{fnn}::no-scale"))
            else:
                obs.append(violation(rule_norm, t, f.loc(muls[0]), key=f"{fnn}::discrete-rescaled", detail=ast.unparse(muls[0])))
        else:
            t = f"{f.name}: the summed pair profiles are scaled by 1/M with M the number of pairs returned by _generic_profile_multi"
            good = False
            asg = [n for n in ast.walk(f.node) if isinstance(n, ast.Assign) and n.value is c and isinstance(n.targets[0], ast.Tuple)]
            if asg and len(muls) == 1 and len(muls[0].args) == 1:
                prof, M = [e.id for e in asg[0].targets[0].elts]
                try:
                    v = C.canon_expr(muls[0].args[0], env)
                    good = v == C.div(C.ONE, C.atom(('n', M))) and ast.unparse(muls[0].func.value) == prof
                except C.CanonError:
                    good = False
            if good:
                obs.append(ok(rule_norm, t, f.loc(muls[0]), construct=f"{fnn}::scale"))
            else:
                obs.append(violation(rule_norm, t, f.loc(), key=f"{fnn}::scale-by-pairs", detail=str([ast.unparse(m) for m in muls])))
    # scalar routes: mean over pairs / pooled sums
    gd = repo.func('pyspike.generic', '_generic_distance_multi')
    t = "_generic_distance_multi: the multivariate distance is the sum of the pair distances divided by the number of pairs"
    good = False
    rets = [n for n in gd.node.body if isinstance(n, ast.Return)]
    loops = [n for n in gd.node.body if isinstance(n, ast.For)]
    if rets and loops and isinstance(rets[-1].value, ast.BinOp) and isinstance(rets[-1].value.op, ast.Div):
        accn = ast.unparse(rets[-1].value.left)
        den = ast.unparse(rets[-1].value.right)
        lp = loops[-1]
        acc = [s for s in lp.body if (isinstance(s, ast.AugAssign) and isinstance(s.op, ast.Add) and ast.unparse(s.target) == accn) or
               (isinstance(s, ast.Assign) and ast.unparse(s.targets[0]) == accn and isinstance(s.value, ast.BinOp) and
                isinstance(s.value.op, ast.Add) and accn in (ast.unparse(s.value.left), ast.unparse(s.value.right)))]
        # the denominator: len(<the list iterated over>), spelled out or kept in a once-assigned local
        den_defs = [n for n in ast.walk(gd.node) if isinstance(n, ast.Assign) and len(n.targets) == 1 and
                    isinstance(n.targets[0], ast.Name) and n.targets[0].id == den]
        if len(den_defs) == 1:
            den = ast.unparse(den_defs[0].value)
        good = den == f"len({ast.unparse(lp.iter)})" and len(acc) == 1
        if not good:
            # the same sum written as two nested loops over the selection S - `for p in range(len(S) [- 1])`,
            # `for j in S[p+1:]` with the one accumulation inside - divided by the number of pairs n(n-1)/2, n = len(S)
            once = {}
            cnt = {}
            for n_ in ast.walk(gd.node):
                if isinstance(n_, ast.Name) and isinstance(n_.ctx, ast.Store):
                    cnt[n_.id] = cnt.get(n_.id, 0) + 1
            for n_ in ast.walk(gd.node):
                if isinstance(n_, ast.Assign) and len(n_.targets) == 1 and isinstance(n_.targets[0], ast.Name) and cnt.get(n_.targets[0].id) == 1:
                    once[n_.targets[0].id] = n_.value

            def res_(e):
                k_ = 0
                while isinstance(e, ast.Name) and e.id in once and k_ < 4:
                    e, k_ = once[e.id], k_ + 1
                return e

            def len_of(e):
                e = res_(e)
                if isinstance(e, ast.Call) and isinstance(e.func, ast.Name) and e.func.id == 'len' and len(e.args) == 1 \
                        and isinstance(e.args[0], ast.Name):
                    return e.args[0].id
                return None
            inner = [s_ for s_ in lp.body if isinstance(s_, ast.For)]
            rest = [s_ for s_ in lp.body if not isinstance(s_, ast.For)]
            it = lp.iter
            S = None
            if isinstance(it, ast.Call) and isinstance(it.func, ast.Name) and it.func.id == 'range' and len(it.args) == 1 \
                    and isinstance(lp.target, ast.Name):
                a0 = res_(it.args[0])
                S = len_of(a0)
                if S is None and isinstance(a0, ast.BinOp) and isinstance(a0.op, ast.Sub) and isinstance(a0.right, ast.Constant) \
                        and a0.right.value == 1:
                    S = len_of(a0.left)
            if S is not None and len(inner) == 1 and all(isinstance(s_, ast.Assign) and isinstance(s_.targets[0], ast.Name) for s_ in rest) \
                    and isinstance(inner[0].target, ast.Name) and not inner[0].orelse:
                it2 = inner[0].iter
                p_ = lp.target.id
                inner_ok = isinstance(it2, ast.Subscript) and isinstance(it2.value, ast.Name) and it2.value.id == S \
                    and isinstance(it2.slice, ast.Slice) and it2.slice.upper is None and it2.slice.step is None \
                    and it2.slice.lower is not None and ast.unparse(it2.slice.lower).replace(' ', '') in (f"{p_}+1", f"1+{p_}")
                acc2 = [s_ for s_ in inner[0].body if isinstance(s_, ast.AugAssign) and isinstance(s_.op, ast.Add) and ast.unparse(s_.target) == accn]
                d_ = res_(rets[-1].value.right)
                count_ok = False
                if isinstance(d_, ast.BinOp) and isinstance(d_.op, (ast.FloorDiv, ast.Div)) and isinstance(d_.right, ast.Constant) \
                        and d_.right.value == 2 and isinstance(d_.left, ast.BinOp) and isinstance(d_.left.op, ast.Mult):
                    for x_, y_ in ((d_.left.left, d_.left.right), (d_.left.right, d_.left.left)):
                        y2 = res_(y_) if isinstance(y_, ast.Name) else y_
                        if len_of(x_) == S and isinstance(y2, ast.BinOp) and isinstance(y2.op, ast.Sub) and len_of(y2.left) == S \
                                and isinstance(y2.right, ast.Constant) and y2.right.value == 1:
                            count_ok = True
                good = inner_ok and len(acc2) == 1 and len(inner[0].body) == len(acc2) + sum(
                    1 for s_ in inner[0].body if isinstance(s_, ast.Assign) and isinstance(s_.targets[0], ast.Name)) and count_ok
    obs.append(ok(rule_norm, t, gd.loc(), construct=f"{_fn(gd)}::mean") if good else violation(rule_norm, t, gd.loc(), key=f"{_fn(gd)}::mean-of-pairs"))
    for f in wm.funcs:
        # pooled (value, multiplicity) sums
        for lp in [n for n in ast.walk(f.node) if isinstance(n, ast.For)]:
            tups = [s for s in lp.body if isinstance(s, ast.Assign) and isinstance(s.targets[0], ast.Tuple) and len(s.targets[0].elts) == 2
                    and isinstance(s.value, ast.Call)]
            augs = [s for s in lp.body if isinstance(s, ast.AugAssign) and isinstance(s.op, ast.Add) and isinstance(s.value, ast.Name)
                    and isinstance(s.target, ast.Name)]
            if len(tups) == 1 and len(augs) == 2:
                v, m = [e.id for e in tups[0].targets[0].elts]
                accs = {a.value.id: a.target.id for a in augs if isinstance(a.target, ast.Name)}
                t = f"{f.name}: the (value, multiplicity) pairs of all train pairs are pooled by summing each component into its own accumulator"
                # the final ratio divides the value accumulator by the multiplicity accumulator
                ratio = []
                for n in ast.walk(f.node):
                    if isinstance(n, ast.BinOp) and isinstance(n.op, ast.Div):
                        try:
                            # (a factor 1.0 in front of the numerator is the numerator)
                            l_ = C.single_atom(C.to_poly(C.canon_expr(n.left, Env())))
                            r_ = C.single_atom(C.to_poly(C.canon_expr(n.right, Env())))
                        except C.CanonError:
                            continue
                        if l_ and r_ and l_[0] == 'n' and r_[0] == 'n':
                            ratio.append(ast.BinOp(left=ast.Name(id=l_[1], ctx=ast.Load()), op=ast.Div(),
                                                   right=ast.Name(id=r_[1], ctx=ast.Load())))
                good = set(accs) == {v, m} and any(r.left.id == accs[v] and r.right.id == accs[m] for r in ratio if v in accs and m in accs)
                if good:
                    obs.append(ok(rule_norm, t, f.loc(lp), construct=f"{_fn(f)}::pooled"))
                else:
                    obs.append(violation(rule_norm, t, f.loc(lp), key=f"{_fn(f)}::pooled-sums", detail=f"accumulators {accs}, ratios {[ast.unparse(r) for r in ratio]}"))
    return obs


# ======================================================================================
# R20.4 generate_poisson_spikes: sorted, inside the requested interval, on its edges
# ======================================================================================
def r20_4_poisson(ctx, rule: str = 'R20.4') -> List[Ob]:
    """The generated spike times are  T_start + cumsum(draws)  restricted to the values below T_end, handed to SpikeTrain
    together with the interval as given.  Decided on the value the returned train is built from:
        spikes = s + B[B' < U]   (s: what is added after the selection, possibly nothing)
    requires  B' == B,  B + s == T_start + cumsum(draws)  and  U + s == T_end  - then exactly the generated times below
    T_end are kept and none lies outside [T_start, T_end); the draws are non-negative (np.random.exponential), so the
    cumulated times are non-decreasing."""
    repo = ctx.repo
    if not repo.has_func('pyspike.spikes', 'generate_poisson_spikes'):
        return [inconclusive(rule, "generate_poisson_spikes is found", 'pyspike/spikes.py', construct='generate_poisson_spikes')]
    f = repo.func('pyspike.spikes', 'generate_poisson_spikes')
    fn = _fn(f)
    obs: List[Ob] = []
    t = ("generate_poisson_spikes: the train is built from T_start + cumsum(draws), restricted to the times below T_end (every "
         "generated time inside the requested interval, none beyond its end)")
    params = [a.arg for a in f.node.args.args]
    if len(params) < 2:
        return [inconclusive(rule, t, f.loc(), 'two parameters (rate, interval) expected', construct=fn)]
    iv = params[1]
    env = Env()
    # names bound inside compound statements (the interval unpacking under try/except, the top-up loop) stay symbolic
    ret = None
    for st in f.node.body:
        if isinstance(st, ast.Assign) and len(st.targets) == 1 and isinstance(st.targets[0], ast.Name):
            try:
                env.set(st.targets[0].id, C.canon_expr(st.value, env))
            except C.CanonError:
                env.unset(st.targets[0].id)
        elif isinstance(st, ast.Return):
            ret = st
        elif isinstance(st, ast.Expr):
            continue
        else:
            bound_here = []
            for n in ast.walk(st):
                if isinstance(n, ast.Name) and isinstance(n.ctx, ast.Store):
                    env.unset(n.id)
                    bound_here.append(n.id)
            # a name that is kept up to date - every definition of it in the function is the same expression E, and inside this
            # statement it is re-computed behind the last change of what E reads - equals E of the current values afterwards
            # (the running `elapsed = np.cumsum(intervals)` next to the growing `intervals`)
            for v in dict.fromkeys(bound_here):
                defs_v = [n for n in ast.walk(f.node) if isinstance(n, ast.Assign) and len(n.targets) == 1
                          and isinstance(n.targets[0], ast.Name) and n.targets[0].id == v]
                all_st = sum(1 for n in ast.walk(f.node) if isinstance(n, ast.Name) and n.id == v and isinstance(n.ctx, ast.Store))
                if len(defs_v) < 2 or all_st != len(defs_v) or len({ast.dump(d.value) for d in defs_v}) != 1:
                    continue
                reads = {x.id for x in ast.walk(defs_v[0].value) if isinstance(x, ast.Name)}
                inner = [d for d in defs_v if any(d is m for m in ast.walk(st))]
                okk = bool(inner)
                for blk_owner in ast.walk(st):
                    for fld in ('body', 'orelse'):
                        blk = getattr(blk_owner, fld, None)
                        if isinstance(blk, list) and any(d in blk for d in inner):
                            pos = max(i_ for i_, s_ in enumerate(blk) if s_ in inner)
                            for s_ in blk[pos + 1:]:
                                if any(isinstance(x, ast.Name) and x.id in reads and isinstance(x.ctx, ast.Store) for x in ast.walk(s_)):
                                    okk = False
                if okk and v not in reads:
                    try:
                        env.set(v, C.canon_expr(defs_v[0].value, env))
                    except C.CanonError:
                        pass
    if ret is None or not (isinstance(ret.value, ast.Call) and C.dotted(ret.value.func) == 'SpikeTrain' and len(ret.value.args) >= 2):
        return [inconclusive(rule, t, f.loc(), 'the function ends in `return SpikeTrain(<spikes>, <interval>)`', construct=fn)]
    # the two edges: the names the interval is unpacked into
    start = end = None
    for n in ast.walk(f.node):
        if isinstance(n, ast.Assign) and len(n.targets) == 1 and isinstance(n.targets[0], ast.Name) and isinstance(n.value, ast.Subscript) \
                and isinstance(n.value.value, ast.Name) and n.value.value.id == iv and isinstance(n.value.slice, ast.Constant):
            if n.value.slice.value == 0:
                start = n.targets[0].id
            elif n.value.slice.value == 1:
                end = n.targets[0].id
        elif isinstance(n, ast.Assign) and len(n.targets) == 1 and isinstance(n.targets[0], ast.Tuple) and isinstance(n.value, ast.Name) \
                and n.value.id == iv and len(n.targets[0].elts) == 2 and all(isinstance(e, ast.Name) for e in n.targets[0].elts):
            start, end = n.targets[0].elts[0].id, n.targets[0].elts[1].id
    if not start or not end:
        return [inconclusive(rule, t, f.loc(), 'the interval is unpacked into a start and an end name', construct=fn)]
    try:
        val = C.canon_expr(ret.value.args[0], env)
        edges = C.canon_expr(ret.value.args[1], env)
    except C.CanonError as e:
        return [inconclusive(rule, t, f.loc(), str(e), construct=fn)]
    S, E = C.atom(('n', start)), C.atom(('n', end))
    # spikes = s + 1 * sub(B, mask)
    sel = [(m, c) for m, c in val[1] if len(m) == 1 and m[0][0] == 'sub' and c == 1]
    if len(sel) != 1:
        obs.append(violation(rule, t, f.loc(ret), key=f"{fn}::poisson::no-truncation",
                             detail=f"the returned spike times are {C.show(val)[:200]}: no selection of the times below the end"))
        return obs
    subatom = sel[0][0][0]
    s_out = C.sub(val, C.atom(subatom))
    base, mask = subatom[1], subatom[2]
    B = base[1] if base[0] == 'expr' else C.atom(base)
    ma = C.single_atom(mask) if C.is_poly(mask) else mask
    good = False
    detail = f"spike times: {C.show(val)[:240]}"
    draws_name = None
    if ma is not None and ma[0] == 'cmp' and ma[1] in ('lt',):
        p = ma[2]                       # p < 0
        total = C.add(B, s_out)         # the values that end up in the train
        # p == total - T_end  (the selected values, as stored, are the ones below the end)
        cond_ok = p == C.sub(total, E)
        # total == T_start + cumsum(draws)
        cs = [m[0] for m, c in total[1] if len(m) == 1 and m[0][0] == 'call' and m[0][1] in ('np.cumsum', 'cumsum') and c == 1]
        shape_ok = len(cs) == 1 and C.sub(total, C.atom(cs[0])) == S
        if cs:
            a0 = cs[0][2][0] if cs[0][2] else None
            sa0 = C.single_atom(a0) if a0 is not None and C.is_poly(a0) else None
            draws_name = sa0[1] if sa0 and sa0[0] == 'n' else None
        good = cond_ok and shape_ok
        if not cond_ok:
            detail += f"\nkept when ({C.show(p)} < 0), but the stored values are below the end when ({C.show(C.sub(total, E))} < 0)"
        if not shape_ok:
            detail += f"\nstored values {C.show(total)[:160]} are not {start} + cumsum(draws)"
    obs.append(ok(rule, t, f.loc(ret), construct=f"{fn}::poisson::truncation") if good else
               violation(rule, t, f.loc(ret), key=f"{fn}::poisson::truncation", detail=detail))
    t2 = "generate_poisson_spikes: the train carries the requested interval as given"
    obs.append(ok(rule, t2, f.loc(ret), construct=f"{fn}::poisson::edges") if edges == C.atom(('n', iv)) else
               violation(rule, t2, f.loc(ret), key=f"{fn}::poisson::edges", detail=f"edges argument: {C.show(edges)[:120]}"))
    # the increments are non-negative draws: every definition of the cumulated array is np.random.exponential(..) or an
    # np.append of itself with such a draw
    t3 = "generate_poisson_spikes: the cumulated increments are exponential draws (non-negative), so the spike times are non-decreasing"
    if draws_name:
        defs = [n for n in ast.walk(f.node) if isinstance(n, ast.Assign) and len(n.targets) == 1 and isinstance(n.targets[0], ast.Name)
                and n.targets[0].id == draws_name]

        # an optional generator parameter (default None) that is replaced by np.random when it is not given
        gens = set()
        a_ = f.node.args
        defaults_ = dict(zip([x.arg for x in a_.args][len(a_.args) - len(a_.defaults):], a_.defaults))
        for pn, dv in defaults_.items():
            if isinstance(dv, ast.Constant) and dv.value is None:
                asg = [n for n in ast.walk(f.node) if isinstance(n, ast.Assign) and any(isinstance(t_, ast.Name) and t_.id == pn for t_ in n.targets)]
                if asg and all((C.dotted(n.value) or '') in ('np.random', 'numpy.random') for n in asg):
                    gens.add(pn)

        def is_draw(e) -> bool:
            if not isinstance(e, ast.Call):
                return False
            if (C.dotted(e.func) or '').endswith('random.exponential'):
                return True
            return isinstance(e.func, ast.Attribute) and e.func.attr == 'exponential' and isinstance(e.func.value, ast.Name) \
                and e.func.value.id in gens

        def okdef(v) -> bool:
            if is_draw(v):
                return True
            if isinstance(v, ast.Call) and (C.dotted(v.func) or '') in ('np.append', 'np.concatenate') and v.args:
                parts = v.args if (C.dotted(v.func) or '') == 'np.append' else (v.args[0].elts if isinstance(v.args[0], (ast.Tuple, ast.List)) else [])
                return bool(parts) and all(is_draw(x) or (isinstance(x, ast.Name) and x.id == draws_name) for x in parts)
            return False
        allok = bool(defs) and all(okdef(d.value) for d in defs)
        obs.append(ok(rule, t3, f.loc(), construct=f"{fn}::poisson::draws") if allok else
                   violation(rule, t3, f.loc(defs[0] if defs else None), key=f"{fn}::poisson::draws",
                             detail='; '.join(ast.unparse(d)[:80] for d in defs)))
    else:
        obs.append(inconclusive(rule, t3, f.loc(), 'the cumulated array is not a plain local', construct=f"{fn}::poisson::draws"))
    return obs


# ======================================================================================
# SpikeTrain.__init__: the spike times are stored as given (sorted when asked to), none dropped, none changed
# ======================================================================================
MULTISET_PRESERVING = {'np.array', 'np.asarray', 'np.sort', 'np.copy', 'np.asanyarray', 'np.ascontiguousarray', 'np.atleast_1d', 'sorted',
                       'list', 'tuple', 'np.float64'}


def r_spiketrain_ctor(ctx, rule: str) -> List[Ob]:
    repo = ctx.repo
    if not repo.has_func('pyspike.SpikeTrain', 'SpikeTrain.__init__'):
        return [inconclusive(rule, 'SpikeTrain.__init__ is found', 'pyspike/SpikeTrain.py', construct='SpikeTrain.__init__')]
    f = repo.func('pyspike.SpikeTrain', 'SpikeTrain.__init__')
    fn = _fn(f)
    ps = [a.arg for a in f.node.args.args]
    obs: List[Ob] = []
    if len(ps) < 3:
        return [inconclusive(rule, 'SpikeTrain.__init__(self, spike_times, edges, ...)', f.loc(), construct=fn)]
    me, spikes_p = ps[0], ps[1]
    local: Dict[str, List[ast.Assign]] = {}
    for n in ast.walk(f.node):
        if isinstance(n, ast.Assign) and len(n.targets) == 1 and isinstance(n.targets[0], ast.Name):
            local.setdefault(n.targets[0].id, []).append(n)

    stores: List[ast.Assign] = []

    def chain(e, depth=0, seen=frozenset()):
        """-> (list of wrapper names, root expression); a local with several definitions (`s = np.array(x)` ...
        `if not is_sorted: s = np.sort(s)`) contributes the wrappers of all of them, its root is their common root"""
        names = []
        while depth < 12:
            depth += 1
            if isinstance(e, ast.Call):
                d = C.dotted(e.func) or ast.unparse(e.func)
                if isinstance(e.func, ast.Attribute) and e.func.attr in ('copy', 'astype', 'tolist') and not isinstance(e.func.value, ast.Name):
                    names.append('.' + e.func.attr)
                    e = e.func.value
                    continue
                if isinstance(e.func, ast.Attribute) and e.func.attr in ('copy', 'astype') and isinstance(e.func.value, ast.Name) \
                        and e.func.value.id not in ('np', 'numpy'):
                    names.append('.' + e.func.attr)
                    e = e.func.value
                    continue
                if e.args:
                    names.append(d)
                    e = e.args[0]
                    continue
                return names, e
            if isinstance(e, ast.Name) and e.id in local and e.id != spikes_p:
                defs = [d_ for d_ in local[e.id] if id(d_) not in seen]
                if not defs:
                    return names, e
                roots = []
                for d_ in defs:
                    n_, r_ = chain(d_.value, depth, seen | {id(d_)})
                    names += n_
                    # a definition in terms of the local itself (s = np.sort(s)) has the root of the other definitions
                    if not (isinstance(r_, ast.Name) and r_.id == e.id):
                        roots.append(r_)
                if roots and all(ast.dump(r_) == ast.dump(roots[0]) for r_ in roots):
                    return names, roots[0]
                return names, e
            if isinstance(e, ast.IfExp):
                a1, r1 = chain(e.body, depth, seen)
                a2, r2 = chain(e.orelse, depth, seen)
                return names + a1 + a2, (r1 if ast.dump(r1) == ast.dump(r2) else e)
            if isinstance(e, ast.Attribute) and isinstance(e.value, ast.Name) and e.value.id == me and e.attr == 'spikes' \
                    and isinstance(e.ctx, ast.Load):
                # the attribute read back (`self.spikes = np.sort(self.spikes)`): its value is what the other stores left
                defs = [d_ for d_ in stores if id(d_) not in seen]
                roots = []
                for d_ in defs:
                    n_, r_ = chain(d_.value, depth, seen | {id(d_)})
                    names += n_
                    if not (isinstance(r_, ast.Attribute) and ast.unparse(r_) == ast.unparse(e)):
                        roots.append(r_)
                if roots and all(ast.dump(r_) == ast.dump(roots[0]) for r_ in roots):
                    return names, roots[0]
                return names, e
            return names, e
        return names, e
    stores += [n for n in ast.walk(f.node) if isinstance(n, ast.Assign) and any(
        isinstance(t_, ast.Attribute) and isinstance(t_.value, ast.Name) and t_.value.id == me and t_.attr == 'spikes' for t_ in n.targets)]
    t = ("SpikeTrain.__init__: the stored spike times are the given ones - converted to an array, sorted when `is_sorted` is False - "
         "none dropped, none altered (duplicates are the business of reconcile_spike_trains)")
    if not stores:
        return [inconclusive(rule, t, f.loc(), 'no store into self.spikes found', construct=f"{fn}::spikes")]
    bad = []
    sorts = False
    for st in stores:
        names, root = chain(st.value)
        other = [n_ for n_ in names if n_ not in MULTISET_PRESERVING and n_ not in ('.copy', '.astype')]
        if other or not (isinstance(root, ast.Name) and root.id == spikes_p):
            bad.append((st, other, ast.unparse(root)[:40]))
        if 'np.sort' in names or 'sorted' in names:
            sorts = True
    inplace_sort = any(isinstance(n, ast.Call) and isinstance(n.func, ast.Attribute) and n.func.attr == 'sort' for n in ast.walk(f.node))
    if bad:
        st, other, root = bad[0]
        obs.append(violation(rule, t, f.loc(st), key=f"{fn}::spikes-stored::{'/'.join(other) or root}",
                             detail=f"`{ast.unparse(st)[:120]}`: " + (f"{', '.join(other)} does not keep every given spike time"
                                                                      if other else f"the stored value does not come from `{spikes_p}`")))
    else:
        obs.append(ok(rule, t, f.loc(stores[0]), construct=f"{fn}::spikes"))
    t2 = "SpikeTrain.__init__: unsorted input (`is_sorted=False`) is sorted"
    obs.append(ok(rule, t2, f.loc(), construct=f"{fn}::sorts") if (sorts or inplace_sort) else
               violation(rule, t2, f.loc(), key=f"{fn}::no-sort"))
    return obs
