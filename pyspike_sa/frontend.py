"""Engine A: front end.

* ``pyx_to_py``: line-preserving rewriter for the tiny Cython dialect used by PySpike
  (typed ``def`` parameters, ``cdef <type> name[, ...]`` with or without initialiser,
  ``cdef [inline] <type> f(...) [nogil]:``, ``cimport``, ``with nogil:``).  Anything
  outside the dialect raises ``FrontEndError`` (-> ANALYSIS-ERROR, never a silent skip).
* ``Repo``: loads every module under ``pyspike/`` (+ ``setup.py``), builds per-module
  function tables and import tables, and resolves call targets.

Nothing from /repo is imported or executed: sources are read as text and parsed.
"""
from __future__ import annotations

import ast
import copy
import hashlib
import pickle
import io
import os
import re
import tokenize
import warnings
from dataclasses import dataclass, field
from typing import Dict, List, Optional, Tuple


class FrontEndError(Exception):
    pass


CTYPE = r"(?:unsigned\s+)?(?:double|int|long|float|bint)(?:\s*\[[^\]]*\])?"
RE_CDEF_FUNC = re.compile(
    r"^(?P<ind>\s*)cdef\s+(?:inline\s+)?(?P<rt>" + CTYPE + r")\s+(?P<name>\w+)\s*\(")
RE_CDEF_VAR = re.compile(r"^(?P<ind>\s*)cdef\s+(?P<ty>" + CTYPE + r")\s+(?P<rest>.+?)\s*$")
RE_DEF = re.compile(r"^(?P<ind>\s*)def\s+(?P<name>\w+)\s*\(")
RE_CIMPORT = re.compile(r"^\s*(?:from\s+[\w.]+\s+cimport\s+(?P<names>[\w, ]+)|cimport\s+[\w.]+(?:\s+as\s+\w+)?)\s*(#.*)?$")
RE_PARAM_TYPE = re.compile(r"(?<![\w.])(" + CTYPE + r")\s+(?=[A-Za-z_]\w*\s*(?:[,)=]|$))")


def _strip_comment(line: str) -> str:
    # good enough for the dialect: no '#' inside string literals on code lines of headers
    out = []
    q = None
    for ch in line:
        if q:
            out.append(ch)
            if ch == q:
                q = None
            continue
        if ch in "'\"":
            q = ch
            out.append(ch)
            continue
        if ch == '#':
            break
        out.append(ch)
    return ''.join(out)


@dataclass
class PyxInfo:
    cimports: List[str] = field(default_factory=list)
    # per function name: {var: ctype}
    ctypes: Dict[str, Dict[str, str]] = field(default_factory=dict)
    cdef_funcs: List[str] = field(default_factory=list)


def pyx_to_py(text: str, fname: str = '<pyx>') -> Tuple[str, PyxInfo]:
    lines = text.split('\n')
    out = list(lines)
    info = PyxInfo()
    n = len(lines)
    i = 0
    in_doc = None
    cur_func: Optional[str] = None
    cur_indent = 0
    while i < n:
        line = lines[i]
        code = _strip_comment(line)
        stripped = code.strip()
        # skip module-level / function-level docstrings spanning lines
        if in_doc:
            if in_doc in line:
                in_doc = None
            i += 1
            continue
        m3 = re.match(r'^\s*[rRuU]?("""|\'\'\')', line)
        if m3:
            q = m3.group(1)
            rest = line[m3.end():]
            if q not in rest:
                in_doc = q
            i += 1
            continue
        if not stripped:
            i += 1
            continue
        # leaving the current function?
        ind = len(code) - len(code.lstrip())
        if cur_func is not None and ind <= cur_indent and not stripped.startswith(')'):
            cur_func = None
        m = RE_CIMPORT.match(code)
        if m:
            if m.group('names'):
                info.cimports += [x.strip() for x in m.group('names').split(',')]
            out[i] = (' ' * ind) + 'pass  # ' + line.strip() if ind else '# ' + line.strip()
            mp_ = re.match(r"^\s*from\s+(pyspike[\w.]*)\s+cimport\s+([\w, ]+?)\s*(#.*)?$", code)
            if mp_ and not ind:
                # a C-level import from another module of the package: in the Python view an ordinary import, so that
                # helpers shared between .pyx files resolve like helpers shared between .py files
                out[i] = f"from {mp_.group(1)} import {mp_.group(2).strip()}  # cimport"
            i += 1
            continue
        mf = RE_CDEF_FUNC.match(code)
        md = RE_DEF.match(code)
        if mf or md:
            mm = mf or md
            name = mm.group('name')
            # find header extent
            depth = 0
            j = i
            while True:
                c = _strip_comment(lines[j])
                depth += c.count('(') + c.count('[') - c.count(')') - c.count(']')
                if depth <= 0 and c.rstrip().endswith(':'):
                    break
                j += 1
                if j >= n:
                    raise FrontEndError(f"{fname}:{i+1}: unterminated function header")
            types: Dict[str, str] = {}
            for k in range(i, j + 1):
                l = lines[k]
                c = _strip_comment(l)
                comment = l[len(c):]
                if k == i and mf:
                    c = mf.group('ind') + 'def ' + name + '(' + c[mf.end():]
                # record and strip parameter types
                for pm in re.finditer(r"(?<![\w.])(" + CTYPE + r")\s+([A-Za-z_]\w*)\s*(?=[,)=]|$)", c):
                    types[pm.group(2)] = re.sub(r"\s+", "", pm.group(1))
                c = RE_PARAM_TYPE.sub('', c)
                if k == j:
                    c = re.sub(r"\)\s*nogil\s*:\s*$", "):", c)
                out[k] = c + comment
            info.ctypes[name] = types
            if mf:
                info.cdef_funcs.append(name)
            cur_func = name
            cur_indent = len(mm.group('ind'))
            i = j + 1
            continue
        mv = RE_CDEF_VAR.match(code)
        if mv:
            rest = mv.group('rest')
            ty = re.sub(r"\s+", "", mv.group('ty'))
            comment = line[len(code):]
            tgt = info.ctypes.setdefault(cur_func or '<module>', {})
            if '=' in rest and not re.search(r"[=!<>]=", rest):
                nm = rest.split('=', 1)[0].strip()
                if not re.fullmatch(r"\w+", nm):
                    raise FrontEndError(f"{fname}:{i+1}: unsupported cdef initialiser: {line.strip()}")
                tgt[nm] = ty
                out[i] = mv.group('ind') + rest + comment
            else:
                names = [x.strip() for x in rest.split(',')]
                for nm in names:
                    if not re.fullmatch(r"\w+", nm):
                        raise FrontEndError(f"{fname}:{i+1}: unsupported cdef declaration: {line.strip()}")
                    tgt[nm] = ty
                out[i] = mv.group('ind') + 'pass  # ' + line.strip()
            i += 1
            continue
        if re.match(r"^\s*(cdef|cpdef|ctypedef|cimport|DEF|IF|include)\b", code) or ' cimport ' in code:
            raise FrontEndError(f"{fname}:{i+1}: Cython construct outside the supported dialect: {line.strip()}")
        i += 1
    return '\n'.join(out), info


C_MATH_NAMES = {'fmin', 'fmax', 'fabs', 'sqrt', 'floor', 'ceil', 'xrange'}


def _digest_of_normalizer() -> str:
    h = hashlib.sha1()
    here = os.path.dirname(os.path.abspath(__file__))
    for fn in ('normalize.py', 'frontend.py'):
        try:
            h.update(open(os.path.join(here, fn), 'rb').read())
        except OSError:
            pass
    return h.hexdigest()


_NORMALIZE_DIGEST = _digest_of_normalizer()


def _cache_dir() -> Optional[str]:
    d = os.environ.get('PYSPIKE_SA_CACHE')
    if d == 'off':
        return None
    if not d:
        import tempfile
        d = os.path.join(tempfile.gettempdir(), f"pyspike_sa_normal_forms_{os.getuid()}")
    try:
        os.makedirs(d, exist_ok=True)
        return d
    except OSError:
        return None


def _cache_get(key: str):
    d = _cache_dir()
    if not d:
        return None
    p = os.path.join(d, key + '.pickle')
    try:
        with open(p, 'rb') as fh:
            return pickle.load(fh)
    except Exception:
        return None


def _cache_put(key: str, tree):
    d = _cache_dir()
    if not d:
        return
    p = os.path.join(d, key + '.pickle')
    try:
        tmp = p + f".{os.getpid()}.tmp"
        with open(tmp, 'wb') as fh:
            pickle.dump(tree, fh, protocol=pickle.HIGHEST_PROTOCOL)
        os.replace(tmp, p)
    except Exception:
        pass


@dataclass
class FuncInfo:
    module: str            # dotted module name, e.g. pyspike.cython.python_backend
    path: str              # file path relative to repo root
    name: str              # function name (Class.method for methods, outer.inner for nested)
    node: ast.FunctionDef
    is_pyx: bool = False
    ctypes: Dict[str, str] = field(default_factory=dict)
    cls: Optional[str] = None

    @property
    def qual(self) -> str:
        return f"{self.module}.{self.name}"

    def loc(self, node: Optional[ast.AST] = None) -> str:
        n = node if node is not None else self.node
        return f"{self.path}:{getattr(n, 'lineno', self.node.lineno)}"


@dataclass
class ModuleInfo:
    name: str
    path: str
    tree: ast.Module
    source: str
    is_pyx: bool = False
    pyx: Optional[PyxInfo] = None
    functions: Dict[str, FuncInfo] = field(default_factory=dict)
    # local name -> (module dotted name, symbol or None)
    imports: Dict[str, Tuple[str, Optional[str]]] = field(default_factory=dict)


class Repo:
    """Parsed view of the repository working tree."""

    def __init__(self, root: str, level: int = 0):
        self.root = root
        self.level = level               # 0: source as written; 1: normal form (see normalize.py)
        self.modules: Dict[str, ModuleInfo] = {}
        self.files_read: List[str] = []
        self._load()
        if level >= 1:
            self._normalize()

    @staticmethod
    def _unbound_names(fn: ast.FunctionDef, module_names: set) -> set:
        import builtins
        bound = {a.arg for a in fn.args.args + fn.args.kwonlyargs + fn.args.posonlyargs}
        if fn.args.vararg:
            bound.add(fn.args.vararg.arg)
        if fn.args.kwarg:
            bound.add(fn.args.kwarg.arg)
        for n in ast.walk(fn):
            if isinstance(n, ast.Name) and isinstance(n.ctx, (ast.Store, ast.Del)):
                bound.add(n.id)
            elif isinstance(n, (ast.FunctionDef, ast.ClassDef)):
                bound.add(n.name)
                if isinstance(n, ast.FunctionDef):
                    bound |= {a.arg for a in n.args.args + n.args.kwonlyargs}
            elif isinstance(n, (ast.Import, ast.ImportFrom)):
                bound |= {(a.asname or a.name).split('.')[0] for a in n.names}
            elif isinstance(n, ast.ExceptHandler) and n.name:
                bound.add(n.name)
            elif isinstance(n, ast.Lambda):
                bound |= {a.arg for a in n.args.args}
        return {n.id for n in ast.walk(fn) if isinstance(n, ast.Name) and isinstance(n.ctx, ast.Load)
                and n.id not in bound and n.id not in module_names and not hasattr(builtins, n.id)}

    def _keep_well_formed(self, m: 'ModuleInfo', original: ast.Module):
        """Safety net for the rewriter: a function whose normal form reads a name that is bound nowhere (and that the
        source as written does not read either) is kept as written."""
        def module_names(tree):
            out = set()
            for n in ast.walk(tree):
                if isinstance(n, (ast.Import, ast.ImportFrom)):
                    out |= {(a.asname or a.name).split('.')[0] for a in n.names}
            for st in tree.body:
                if isinstance(st, (ast.FunctionDef, ast.ClassDef)):
                    out.add(st.name)
                elif isinstance(st, ast.Assign):
                    out |= {t.id for t in st.targets if isinstance(t, ast.Name)}
            return out
        names0, names1 = module_names(original), module_names(m.tree) | module_names(original)

        def index(tree):
            out = {}

            def visit(body, prefix):
                for st in body:
                    if isinstance(st, ast.FunctionDef):
                        out[prefix + st.name] = (body, st)
                    elif isinstance(st, ast.ClassDef):
                        visit(st.body, prefix + st.name + '.')
            visit(tree.body, '')
            return out
        i0, i1 = index(original), index(m.tree)
        # names the module as written reads without binding them (C functions that a .pyx file cimports, which the
        # front end drops): a helper's body may carry them into the function it is inlined into
        tolerated = set()
        for _, fn0 in i0.values():
            tolerated |= self._unbound_names(fn0, names0)
        for name, (body, fn) in i1.items():
            if name not in i0:
                continue
            bad = self._unbound_names(fn, names1) - tolerated
            if bad:
                k = next(i for i, st in enumerate(body) if st is fn)
                body[k] = i0[name][1]
                self.normal_form_rejected = getattr(self, 'normal_form_rejected', []) + [(m.path, name, sorted(bad))]

    def _flatten_module_attributes(self, mods):
        """`from . import _checks` ... `_checks.valid(x)` is `from ._checks import valid` ... `valid(x)`: a module of the
        package that is imported as a whole and only read through attributes that are its own top-level definitions (and
        whose names mean nothing else in the importing module) is imported name by name."""
        for m in mods:
            for local, (mod, sym) in list(m.imports.items()):
                target = (mod + '.' + sym) if sym else mod
                if sym is None and '.' in mod and local == mod.split('.')[0]:
                    continue                    # `import a.b` binds `a`
                tm = self.modules.get(target)
                if tm is None or tm is m or tm.path.endswith('__init__.py'):
                    continue
                top = set()
                for st in tm.tree.body:
                    if isinstance(st, ast.FunctionDef):
                        top.add(st.name)
                    elif isinstance(st, ast.Assign) and len(st.targets) == 1 and isinstance(st.targets[0], ast.Name) \
                            and isinstance(st.value, ast.Constant):
                        top.add(st.targets[0].id)
                rebound = sum(1 for n in ast.walk(tm.tree) if isinstance(n, ast.Name) and isinstance(n.ctx, (ast.Store, ast.Del)) and n.id in top)
                if rebound != sum(1 for st in tm.tree.body if isinstance(st, ast.Assign) and len(st.targets) == 1
                                  and isinstance(st.targets[0], ast.Name) and st.targets[0].id in top):
                    continue                    # a constant of that module is assigned again somewhere
                if any(isinstance(n, ast.Global) for n in ast.walk(tm.tree)):
                    continue
                uses = [n for n in ast.walk(m.tree) if isinstance(n, ast.Attribute) and isinstance(n.value, ast.Name)
                        and n.value.id == local]
                bases = {id(n.value) for n in uses}
                if not uses or any(isinstance(n, ast.Name) and n.id == local and id(n) not in bases for n in ast.walk(m.tree)) \
                        or any(isinstance(n, ast.arg) and n.arg == local for n in ast.walk(m.tree)) \
                        or any(not isinstance(n.ctx, ast.Load) for n in uses):
                    continue                    # the module object is used as a value / rebound / shadowed
                attrs = {n.attr for n in uses}
                names_in_m = {n.id for n in ast.walk(m.tree) if isinstance(n, ast.Name)} \
                    | {n.arg for n in ast.walk(m.tree) if isinstance(n, ast.arg)} \
                    | {n.name for n in ast.walk(m.tree) if isinstance(n, (ast.FunctionDef, ast.ClassDef))} \
                    | {(a.asname or a.name).split('.')[0] for n in ast.walk(m.tree) if isinstance(n, (ast.Import, ast.ImportFrom))
                       for a in n.names} \
                    | {k.arg for n in ast.walk(m.tree) if isinstance(n, ast.Call) for k in n.keywords if k.arg}
                if not attrs <= top or attrs & names_in_m:
                    continue

                class T(ast.NodeTransformer):
                    def visit_Attribute(self, node):
                        self.generic_visit(node)
                        if isinstance(node.value, ast.Name) and node.value.id == local and id(node.value) in bases:
                            return ast.copy_location(ast.Name(id=node.attr, ctx=ast.Load()), node)
                        return node
                T().visit(m.tree)
                imp = ast.ImportFrom(module=target, names=[ast.alias(name=a, asname=None) for a in sorted(attrs)], level=0)
                pos = 0
                while pos < len(m.tree.body) and (
                        (isinstance(m.tree.body[pos], ast.Expr) and isinstance(m.tree.body[pos].value, ast.Constant))
                        or (isinstance(m.tree.body[pos], ast.ImportFrom) and m.tree.body[pos].module == '__future__')):
                    pos += 1
                ast.copy_location(imp, m.tree.body[0])
                m.tree.body.insert(pos, imp)
                ast.fix_missing_locations(m.tree)
                for a in attrs:
                    m.imports[a] = (target, a)

    def _imported_constants(self, mods):
        """`from pyspike.generic import _UNBOUNDED` where that module binds the name once, at top level, to a numeric literal:
        the name is that literal in the importing module too (N29 across modules)."""
        consts: Dict[str, Dict[str, ast.expr]] = {}
        for m in mods:
            counts: Dict[str, int] = {}
            for n in ast.walk(m.tree):
                if isinstance(n, ast.Name) and isinstance(n.ctx, (ast.Store, ast.Del)):
                    counts[n.id] = counts.get(n.id, 0) + 1
                elif isinstance(n, (ast.Global, ast.Nonlocal)):
                    for g_ in n.names:
                        counts[g_] = counts.get(g_, 0) + 2
                elif isinstance(n, (ast.FunctionDef, ast.ClassDef)):
                    counts[n.name] = counts.get(n.name, 0) + 2
                elif isinstance(n, ast.alias):
                    k_ = (n.asname or n.name).split('.')[0]
                    counts[k_] = counts.get(k_, 0) + 2
                elif isinstance(n, ast.arg):
                    counts[n.arg] = counts.get(n.arg, 0) + 2
            out = {}
            for st in m.tree.body:
                if isinstance(st, ast.Assign) and len(st.targets) == 1 and isinstance(st.targets[0], ast.Name) \
                        and counts.get(st.targets[0].id) == 1:
                    v = st.value
                    if isinstance(v, ast.UnaryOp) and isinstance(v.op, ast.UAdd):
                        v = v.operand
                    w = v.operand if isinstance(v, ast.UnaryOp) and isinstance(v.op, ast.USub) else v
                    if isinstance(w, ast.Constant) and isinstance(w.value, (int, float)) and not isinstance(w.value, bool):
                        out[st.targets[0].id] = v
                    elif isinstance(v, ast.Constant) and (isinstance(v.value, (bool, str)) or v.value is None) \
                            and not st.targets[0].id.startswith('__'):
                        out[st.targets[0].id] = v
            consts[m.name] = out
            if out:
                # ... and in the module itself (N29, here also for True / False / None / text: helpers that other modules
                # inline carry the literal, not a name of this module)
                class T0(ast.NodeTransformer):
                    def visit_Name(self, node, out=out):
                        if isinstance(node.ctx, ast.Load) and node.id in out:
                            return ast.copy_location(copy.deepcopy(out[node.id]), node)
                        return node
                for st in m.tree.body:
                    if isinstance(st, (ast.FunctionDef, ast.ClassDef)):
                        T0().visit(st)
                ast.fix_missing_locations(m.tree)
        for m in mods:
            sub = {}
            for local, (mod, sym) in m.imports.items():
                if sym and sym in consts.get(mod, {}):
                    # bound by that one import only, nowhere else in this module
                    n_bind = sum(1 for n in ast.walk(m.tree) if (isinstance(n, ast.Name) and n.id == local and not isinstance(n.ctx, ast.Load))
                                 or (isinstance(n, ast.arg) and n.arg == local)
                                 or (isinstance(n, (ast.FunctionDef, ast.ClassDef)) and n.name == local)
                                 or (isinstance(n, (ast.Global, ast.Nonlocal)) and local in n.names))
                    n_imp = sum(1 for n in ast.walk(m.tree) if isinstance(n, (ast.Import, ast.ImportFrom))
                                for a in n.names if (a.asname or a.name).split('.')[0] == local)
                    if n_bind == 0 and n_imp == 1:
                        sub[local] = consts[mod][sym]
            if not sub:
                continue

            class T(ast.NodeTransformer):
                def visit_Name(self, node):
                    if isinstance(node.ctx, ast.Load) and node.id in sub:
                        return ast.copy_location(copy.deepcopy(sub[node.id]), node)
                    return node
            T().visit(m.tree)
            ast.fix_missing_locations(m.tree)

    def _normalize(self):
        from . import normalize
        mods = [m for m in self.modules.values() if m.name != 'setup']
        for m in mods:
            normalize._explicit_checks(m.tree)        # (before helpers are collected: they are inlined in this form)
        self._flatten_module_attributes(mods)
        self._imported_constants(mods)
        normalize.compute_mutators([m.tree for m in mods])
        # (a module whose own name starts with an underscore is private as a whole: all its small functions are helpers)
        helpers = {m.name: normalize._module_helpers(m.tree, backend='.cython.' in m.name,
                                                     private_module=m.name.rsplit('.', 1)[-1].startswith('_')
                                                     and not m.name.rsplit('.', 1)[-1].startswith('__'))
                   for m in mods}
        bindings = {m.name: normalize._module_bindings(m.tree) for m in mods}
        import builtins
        for m in mods:
            imported = {}
            # helpers this module imports, and - transitively - the helpers of the same module that those call
            todo = [(local, mod, sym) for local, (mod, sym) in m.imports.items()]
            seen_h = set()
            while todo:
                local, mod, sym = todo.pop(0)
                if (mod, sym) in seen_h:
                    continue
                seen_h.add((mod, sym))
                if sym and mod in helpers and sym in helpers[mod] and mod != m.name:
                    h = helpers[mod][sym]
                    for c_ in ast.walk(h):
                        if isinstance(c_, ast.Call) and isinstance(c_.func, ast.Name) and c_.func.id in helpers[mod] \
                                and c_.func.id != sym and c_.func.id not in m.imports \
                                and c_.func.id not in {n_.id for n_ in ast.walk(m.tree) if isinstance(n_, ast.Name)}:
                            todo.append((c_.func.id, mod, c_.func.id))
                    h_locals = normalize._fn_params(h) | normalize.mutated_names(h, calls=False) \
                        | normalize._comp_targets(h)
                    free = {n.id for n in ast.walk(h) if isinstance(n, ast.Name)} - h_locals
                    names_in_m = {n.id for n in ast.walk(m.tree) if isinstance(n, ast.Name)} | set(bindings[m.name])
                    same = True
                    needed = []
                    for x in free:
                        if hasattr(builtins, x):
                            continue
                        bx = bindings[mod].get(x)
                        if bx is not None and not bx.startswith('def ') and bx == bindings[m.name].get(x):
                            continue
                        if bx is None and bindings[m.name].get(x) is None and x in C_MATH_NAMES:
                            continue            # libc functions that .pyx files cimport (dropped by the front end)
                        if bx is not None and bx.startswith('def ') and bindings[m.name].get(x) == f'from {mod} import {x}':
                            continue            # a function of the helper's module that this module imports from there
                        if bx is not None and bx.startswith('def ') and x not in names_in_m:
                            needed.append((x, mod))         # ... or does not know at all: it gets `from <module> import x`
                            continue
                        if bx is not None and bx.startswith(('import ', 'from ')) and x not in names_in_m:
                            needed.append((x, mod))         # the importing module does not know the name at all:
                            continue                        # it gets the helper's own import (added below)
                        same = False
                    if same:
                        imported[local] = h
                        for x, src_mod in needed:
                            imp = next((st for st in ast.walk(self.modules[src_mod].tree)
                                        if isinstance(st, (ast.Import, ast.ImportFrom)) and
                                        any((a.asname or a.name.split('.')[0]) == x for a in st.names)), None)
                            if imp is None and bindings[src_mod].get(x, '').startswith('def '):
                                imp = ast.ImportFrom(module=src_mod, names=[ast.alias(name=x, asname=None)], level=0)
                            if imp is not None and not any(ast.dump(imp) == ast.dump(b) for b in m.tree.body):
                                new_imp = ast.parse(ast.unparse(imp)).body[0]
                                if isinstance(new_imp, ast.ImportFrom) and new_imp.level:
                                    # a relative import of the helper's module: make it absolute for the other module
                                    pkg = src_mod.rsplit('.', 1)[0] if '.' in src_mod else ''
                                    base = pkg
                                    for _ in range(new_imp.level - 1):
                                        base = base.rsplit('.', 1)[0] if '.' in base else ''
                                    new_imp.module = (base + '.' + new_imp.module) if new_imp.module else base
                                    new_imp.level = 0
                                new_imp.names = [a for a in new_imp.names if (a.asname or a.name.split('.')[0]) == x]
                                ast.copy_location(new_imp, m.tree.body[0])
                                ast.fix_missing_locations(new_imp)
                                pos = 0
                                while pos < len(m.tree.body) and (
                                        (isinstance(m.tree.body[pos], ast.Expr) and isinstance(m.tree.body[pos].value, ast.Constant))
                                        or (isinstance(m.tree.body[pos], ast.ImportFrom) and m.tree.body[pos].module == '__future__')):
                                    pos += 1        # after the docstring and the __future__ imports
                                m.tree.body.insert(pos, new_imp)
                                bindings[m.name][x] = bindings[mod][x]
            # the normal form of a module depends on its source, the helpers it imports and the repository-wide
            # mutators summary: cache it under that key (an accelerator only - rebuilt whenever it is missing)
            key = hashlib.sha1()
            key.update(_NORMALIZE_DIGEST.encode())
            key.update(m.source.encode())
            key.update(ast.dump(m.tree).encode())      # (module attributes already flattened)
            key.update(m.name.encode())
            key.update(repr(sorted((k, sorted(v)) for k, v in normalize.MUTATORS.items())).encode())
            key.update(repr(sorted(normalize.KNOWN_FUNCS)).encode())
            key.update(repr(sorted((k_, v_) for k_, v_ in normalize.SIGNATURES.items())).encode())
            key.update(repr(sorted((k_, sorted(v_)) for k_, v_ in normalize.FLAG_PARAMS.items())).encode())
            key.update(repr(sorted((k_, sum(1 for r_ in ast.walk(v_) if isinstance(r_, ast.Return) and isinstance(r_.value, ast.Tuple)),
                                    max([len(r_.value.elts) for r_ in ast.walk(v_) if isinstance(r_, ast.Return) and isinstance(r_.value, ast.Tuple)] or [0]))
                                   for k_, v_ in normalize.ARITY_HELPERS.items())).encode())
            key.update(repr(sorted((k_, sorted(v_)) for k_, v_ in normalize.IMPORT_ALIASES.items())).encode())
            for local in sorted(imported):
                key.update(local.encode())
                key.update(ast.dump(imported[local]).encode())
            cached = _cache_get(key.hexdigest())
            if cached is not None:
                m.tree = cached
            else:
                original = self._parse(m.source, m.path)
                normalize.normalize_module(m.tree, imported, backend='.cython.' in m.name)
                self._keep_well_formed(m, original)
                _cache_put(key.hexdigest(), m.tree)
            m.functions.clear()
            m.imports.clear()
            self._index(m)
        # helpers that were inlined at every call site are dead: drop their definitions (rules then see only the code
        # that is executed, in the functions that execute it)
        dropped = set()
        while True:                     # (to a fixed point: a helper that only a dropped helper called goes too)
            refs: Dict[str, int] = {}
            for m in mods:
                for n in ast.walk(m.tree):
                    if isinstance(n, ast.Name):
                        refs[n.id] = refs.get(n.id, 0) + 1
                    elif isinstance(n, ast.Attribute):
                        refs[n.attr] = refs.get(n.attr, 0) + 1
            any_dead = False
            for m in mods:
                dead = [st for st in m.tree.body if isinstance(st, ast.FunctionDef) and st.name in helpers.get(m.name, {})
                        and refs.get(st.name, 0) == 0]
                if dead:
                    any_dead = True
                    dropped |= {(m.name, st.name) for st in dead}
                    m.tree.body[:] = [st for st in m.tree.body if st not in dead]
                    m.functions.clear()
                    m.imports.clear()
                    self._index(m)
            if not any_dead:
                break
        if dropped:
            # imports of the dropped helpers (nothing uses them any more) go with them
            for m in mods:
                touched = False
                for st in list(ast.walk(m.tree)):
                    if isinstance(st, ast.ImportFrom) and st.module and any((st.module, a.name) in dropped or
                                                                             ('pyspike.' + st.module, a.name) in dropped for a in st.names):
                        keep = [a for a in st.names if (st.module, a.name) not in dropped and ('pyspike.' + st.module, a.name) not in dropped]
                        if keep:
                            st.names = keep
                        else:
                            st.names = [ast.alias(name=a.name, asname=a.asname) for a in st.names][:0] or st.names
                            for blk in [m.tree.body] + [b for n in ast.walk(m.tree) for b in
                                                        (getattr(n, 'body', None), getattr(n, 'orelse', None)) if isinstance(b, list)]:
                                if st in blk:
                                    blk.remove(st)
                                    if not blk:
                                        blk.append(ast.Pass())
                                    break
                        touched = True
                if touched:
                    ast.fix_missing_locations(m.tree)
                    m.functions.clear()
                    m.imports.clear()
                    self._index(m)

    # ------------------------------------------------------------------
    def _load(self):
        pkg = os.path.join(self.root, 'pyspike')
        if not os.path.isdir(pkg):
            raise FrontEndError(f"anchor vanished: {pkg} is not a directory")
        for dirpath, dirnames, filenames in os.walk(pkg):
            dirnames[:] = sorted(d for d in dirnames if d != '__pycache__')
            for fn in sorted(filenames):
                full = os.path.join(dirpath, fn)
                rel = os.path.relpath(full, self.root)
                if fn.endswith('.py'):
                    self._load_py(full, rel)
                elif fn.endswith('.pyx'):
                    self._load_pyx(full, rel)
        sp = os.path.join(self.root, 'setup.py')
        if os.path.isfile(sp):
            self._load_py(sp, 'setup.py', modname='setup')

    @staticmethod
    def _modname(rel: str) -> str:
        p = rel[:-3] if rel.endswith('.py') else rel[:-4]
        parts = p.split(os.sep)
        if parts[-1] == '__init__':
            parts = parts[:-1]
        return '.'.join(parts)

    def _parse(self, src: str, rel: str) -> ast.Module:
        with warnings.catch_warnings():
            warnings.simplefilter('ignore')
            try:
                return ast.parse(src, filename=rel)
            except SyntaxError as e:
                raise FrontEndError(f"{rel}:{e.lineno}: cannot parse: {e.msg}")

    def _load_py(self, full: str, rel: str, modname: Optional[str] = None):
        src = open(full, encoding='utf-8').read()
        self.files_read.append(rel)
        tree = self._parse(src, rel)
        mi = ModuleInfo(modname or self._modname(rel), rel, tree, src)
        self._index(mi)
        self.modules[mi.name] = mi

    def _load_pyx(self, full: str, rel: str):
        src = open(full, encoding='utf-8').read()
        self.files_read.append(rel)
        py, info = pyx_to_py(src, rel)
        if py.count('\n') != src.count('\n'):
            raise FrontEndError(f"{rel}: rewriter changed the line count")
        tree = self._parse(py, rel)
        mi = ModuleInfo(self._modname(rel), rel, tree, py, is_pyx=True, pyx=info)
        self._index(mi)
        self.modules[mi.name] = mi

    def _index(self, mi: ModuleInfo):
        pkg = mi.name.rsplit('.', 1)[0] if '.' in mi.name else ''
        is_pkg = mi.path.endswith('__init__.py')

        def resolve_rel(level: int, module: Optional[str]) -> str:
            if level == 0:
                return module or ''
            base = mi.name if is_pkg else pkg
            for _ in range(level - 1):
                base = base.rsplit('.', 1)[0] if '.' in base else ''
            return (base + '.' + module) if module else base

        def add_imports(node):
            for n in ast.walk(node):
                if isinstance(n, ast.Import):
                    for a in n.names:
                        mi.imports.setdefault(a.asname or a.name.split('.')[0], (a.name, None))
                elif isinstance(n, ast.ImportFrom):
                    mod = resolve_rel(n.level, n.module)
                    for a in n.names:
                        mi.imports.setdefault(a.asname or a.name, (mod, a.name))

        add_imports(mi.tree)

        def visit(body, prefix: str, cls: Optional[str]):
            for st in body:
                if isinstance(st, ast.FunctionDef):
                    nm = prefix + st.name
                    ct = {}
                    if mi.pyx:
                        ct = mi.pyx.ctypes.get(st.name, {})
                    mi.functions[nm] = FuncInfo(mi.name, mi.path, nm, st, mi.is_pyx, ct, cls)
                    visit(st.body, nm + '.', cls)
                elif isinstance(st, ast.ClassDef):
                    visit(st.body, prefix + st.name + '.', st.name)
                elif isinstance(st, (ast.If, ast.Try, ast.With, ast.For, ast.While)):
                    for fld in ('body', 'orelse', 'finalbody'):
                        visit(getattr(st, fld, []) or [], prefix, cls)
                    for h in getattr(st, 'handlers', []) or []:
                        visit(h.body, prefix, cls)

        visit(mi.tree.body, '', None)

    # ------------------------------------------------------------------
    def module(self, name: str) -> ModuleInfo:
        if name not in self.modules:
            raise FrontEndError(f"anchor vanished: module {name} not found in {self.root}")
        return self.modules[name]

    def func(self, module: str, name: str) -> FuncInfo:
        mi = self.module(module)
        if name not in mi.functions:
            # a function that was moved to another module of the package and is imported back under the same name is
            # still the function of that name of this module
            moved = self.resolve_symbol(module, name) if '.' not in name else None
            if moved is not None:
                return moved
            raise FrontEndError(f"anchor vanished: function {name} not found in {mi.path}")
        return mi.functions[name]

    def has_func(self, module: str, name: str) -> bool:
        if module in self.modules and name in self.modules[module].functions:
            return True
        return module in self.modules and '.' not in name and self.resolve_symbol(module, name) is not None

    def all_functions(self, pyx: Optional[bool] = None) -> List[FuncInfo]:
        out = []
        for mi in self.modules.values():
            if mi.name == 'setup':
                continue
            for f in mi.functions.values():
                if pyx is None or f.is_pyx == pyx:
                    out.append(f)
        return out

    def resolve_symbol(self, module: str, local: str, _depth: int = 0) -> Optional[FuncInfo]:
        """Resolve a name used in `module` to a function definition, following imports
        (including re-exports through pyspike/__init__.py)."""
        if _depth > 6 or module not in self.modules:
            return None
        mi = self.modules[module]
        if local in mi.functions:
            return mi.functions[local]
        if local in mi.imports:
            mod, sym = mi.imports[local]
            if sym is None:
                return None
            if mod in self.modules:
                r = self.resolve_symbol(mod, sym, _depth + 1)
                if r:
                    return r
            # from pkg import module ?
            sub = mod + '.' + sym
            if sub in self.modules:
                return None
        return None

    def resolve_class(self, module: str, local: str, _depth: int = 0) -> Optional[Tuple[str, str]]:
        """Resolve a name to (module, classname) if it denotes a class defined in the repo."""
        if _depth > 6 or module not in self.modules:
            return None
        mi = self.modules[module]
        for st in mi.tree.body:
            if isinstance(st, ast.ClassDef) and st.name == local:
                return (mi.name, local)
        if local in mi.imports:
            mod, sym = mi.imports[local]
            if sym is None:
                return None
            if mod in self.modules:
                r = self.resolve_class(mod, sym, _depth + 1)
                if r:
                    return r
            sub = mod + '.' + sym
            if sub in self.modules:
                # "from . import X" style module import where module X defines class X
                return self.resolve_class(sub, sym, _depth + 1)
        return None


def unparse(node: ast.AST) -> str:
    try:
        return ast.unparse(node)
    except Exception:  # pragma: no cover
        return ast.dump(node)
