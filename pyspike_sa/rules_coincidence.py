"""Rules about the coincidence window: R16.1 (bounded window, abstract interpretation), R03.5/R16.3 (uniform limit
derivation), R03.2 (strict window test after every get_tau call), R03.4/R15.5 (Interpolate on the 13 weak orderings)."""
from __future__ import annotations

import ast
import itertools
from fractions import Fraction
from typing import Dict, List, Optional, Set, Tuple

from . import canon as C
from .absint import UpperBound, TOP
from .canon import Env
from .frontend import Repo, FuncInfo
from .report import Ob, ok, violation, inconclusive, info


def _fn(fi: FuncInfo) -> str:
    return f"{fi.path}::{fi.name}"


def get_tau_copies(repo: Repo) -> List[FuncInfo]:
    out = []
    for f in repo.all_functions():
        if f.name == 'get_tau' or f.name.endswith('.get_tau'):
            out.append(f)
    return out


def get_tau_callers(repo: Repo) -> List[Tuple[FuncInfo, ast.Call]]:
    out = []
    for f in repo.all_functions():
        if f.name.split('.')[-1] == 'get_tau':
            continue
        for n in ast.walk(f.node):
            if isinstance(n, ast.Call) and isinstance(n.func, ast.Name) and n.func.id == 'get_tau':
                out.append((f, n))
    return out


def limit_position(repo: Repo) -> Optional[int]:
    """position of the `limit` argument of get_tau: the argument that callers derive from t_end - t_start"""
    pos: Set[int] = set()
    for f, call in get_tau_callers(repo):
        for k, a in enumerate(call.args):
            if isinstance(a, ast.Name):
                for n in ast.walk(f.node):
                    if isinstance(n, ast.Assign) and isinstance(n.targets[0], ast.Name) and n.targets[0].id == a.id and \
                            isinstance(n.value, ast.BinOp) and isinstance(n.value.op, ast.Sub) and \
                            isinstance(n.value.left, ast.Name) and n.value.left.id == 't_end':
                        pos.add(k)
    return next(iter(pos)) if len(pos) == 1 else None


def _helpers_for(repo: Repo, fi: FuncInfo) -> Dict[str, ast.FunctionDef]:
    mi = repo.module(fi.module)
    out = {}
    for nm, f in mi.functions.items():
        if f is not fi and '.' not in nm:
            out[nm] = f.node
    return out


def r16_1_bounded_window(ctx, rule: str = 'R16.1') -> List[Ob]:
    repo = ctx.repo
    obs: List[Ob] = []
    copies = get_tau_copies(repo)
    pos = limit_position(repo)
    if not copies or pos is None:
        return [inconclusive(rule, 'get_tau copies and the position of their limit argument found', 'pyspike/cython',
                             f"copies={len(copies)} pos={pos}")]
    for fi in copies:
        params = [a.arg for a in fi.node.args.args]
        if pos >= len(params):
            obs.append(inconclusive(rule, f"{fi.name}: has a limit parameter at position {pos}", fi.loc(), construct=_fn(fi)))
            continue
        ub = UpperBound(_helpers_for(repo, fi))
        bounds: List[Optional[Fraction]] = [TOP] * len(params)
        bounds[pos] = Fraction(1)
        rets = ub.run(fi.node, bounds)
        if not rets:
            obs.append(inconclusive(rule, f"{fi.name}: return statements found", fi.loc(), construct=_fn(fi)))
        for k, (b, node) in enumerate(rets):
            t = (f"{fi.name} ({'compiled' if fi.is_pyx else 'Python'} copy): the window returned on path {k} is at most "
                 f"`{params[pos]}`/2, i.e. at most max_tau when max_tau > 0 (upper-bound abstract interpretation)")
            if b is not TOP and b <= Fraction(1, 2):
                obs.append(ok(rule, t, fi.loc(node), construct=f"{_fn(fi)}::return{k}", detail=f"bound {b}*{params[pos]}"))
            else:
                obs.append(violation(rule, t, fi.loc(node), key=f"{_fn(fi)}::window-unbounded::return{k}",
                                     detail=f"`{ast.unparse(node)}`: upper bound is {'none' if b is TOP else str(b) + '*' + params[pos]}; "
                                            f"`{params[pos]}` only replaces missing neighbours, an existing neighbouring "
                                            f"interval is never capped, so spikes more than max_tau apart can be coincident"))
    return obs


def r03_5_limit_derivation(ctx, rule: str = 'R03.5') -> List[Ob]:
    """every caller of get_tau derives the limit as `t_end - t_start`, replaced by min(limit, 2*max_tau) exactly
    under `max_tau > 0`, and passes it at the limit position."""
    repo = ctx.repo
    obs: List[Ob] = []
    pos = limit_position(repo)
    seen: Set[str] = set()
    env = Env()
    for f, call in get_tau_callers(repo):
        if f.qual in seen:
            continue
        seen.add(f.qual)
        params = [a.arg for a in f.node.args.args]
        if pos is None or pos >= len(call.args) or not isinstance(call.args[pos], ast.Name):
            obs.append(inconclusive(rule, f"{f.name}: limit argument of get_tau is a local variable", f.loc(call), construct=_fn(f)))
            continue
        lim = call.args[pos].id
        assigns = [n for n in ast.walk(f.node) if isinstance(n, ast.Assign) and isinstance(n.targets[0], ast.Name)
                   and n.targets[0].id == lim]
        t = f"{f.name}: coincidence limit `{lim}` starts as t_end - t_start and becomes min(limit, 2*max_tau) exactly when max_tau > 0"
        good = False
        detail = ''
        if len(assigns) == 2 and len(params) >= 5:
            try:
                v0 = C.canon_expr(assigns[0].value, env)
                want0 = C.sub(C.atom(('n', params[3])), C.atom(('n', params[2])))
                v1 = C.canon_expr(assigns[1].value, env)
                want1 = C.mk_minmax('min', [C.atom(('n', lim)), C.scale(C.atom(('n', params[4])), 2)])
                # the second assignment sits directly under `if max_tau > 0:`
                guard_ok = False
                for n in ast.walk(f.node):
                    if isinstance(n, ast.If) and len(n.body) == 1 and n.body[0] is assigns[1] and not n.orelse:
                        g = C.canon_cond(n.test, env)
                        guard_ok = g == C.mk_cmp('gt', C.atom(('n', params[4])), C.ZERO)
                good = v0 == want0 and v1 == want1 and guard_ok
                detail = f"{lim} = {C.show(v0)}; under guard ok={guard_ok}: {lim} = {C.show(v1)}"
            except C.CanonError as e:
                detail = str(e)
        else:
            detail = f"{len(assigns)} assignments to {lim}"
        if not good and len(assigns) == 2 and len(params) >= 5:
            # the same derivation written as a selection: if max_tau > 0: lim = min(t_end - t_start, 2*max_tau) else: lim = t_end - t_start
            try:
                span = C.sub(C.atom(('n', params[3])), C.atom(('n', params[2])))
                want_b = C.mk_minmax('min', [span, C.scale(C.atom(('n', params[4])), 2)])
                for n in ast.walk(f.node):
                    if isinstance(n, ast.If) and len(n.body) == 1 and len(n.orelse) == 1 and {id(n.body[0]), id(n.orelse[0])} == {id(a_) for a_ in assigns}:
                        g = C.canon_cond(n.test, env)
                        pos_g = C.mk_cmp('gt', C.atom(('n', params[4])), C.ZERO)
                        vb, vo = C.canon_expr(n.body[0].value, env), C.canon_expr(n.orelse[0].value, env)
                        if (g == pos_g and vb == want_b and vo == span) or (g == C.mk_not(pos_g) and vo == want_b and vb == span):
                            good = True
                            detail = f"selection under {C.show(g)}: {C.show(vb)} / {C.show(vo)}"
            except C.CanonError as e:
                detail = str(e)
        if good:
            obs.append(ok(rule, t, f.loc(assigns[0]), construct=_fn(f), detail=detail))
        else:
            obs.append(violation(rule, t, f.loc(assigns[0]) if assigns else f.loc(), key=f"{_fn(f)}::limit-derivation", detail=detail))
        # all get_tau calls of this function pass (train1, train2, cursor1, cursor2, limit, MRTS)
        for n in ast.walk(f.node):
            if isinstance(n, ast.Call) and isinstance(n.func, ast.Name) and n.func.id == 'get_tau':
                args = [ast.unparse(a) for a in n.args]
                t2 = f"{f.name}: get_tau receives (train 1, train 2, cursor 1, cursor 2, limit, MRTS) in that order"
                exp_ok = len(args) == 6 and args[0] == params[0] and args[1] == params[1] and args[4] == lim and args[5] == params[5]
                if exp_ok:
                    obs.append(ok(rule, t2, f.loc(n), construct=f"{_fn(f)}::get_tau-call"))
                else:
                    obs.append(violation(rule, t2, f.loc(n), key=f"{_fn(f)}::get_tau-args::{','.join(args)}", detail=', '.join(args)))
    return obs


def r03_2_strict_tests(ctx, rule: str = 'R03.2') -> List[Ob]:
    """after every get_tau call the coincidence test is `guard and delta < tau` with a strict `<`, delta the
    difference (later - earlier, or its abs) of exactly the two spikes get_tau was asked about."""
    repo = ctx.repo
    obs: List[Ob] = []
    env = Env()
    for f in repo.all_functions():
        if f.name.split('.')[-1] == 'get_tau':
            continue
        params = [a.arg for a in f.node.args.args]
        blocks = []
        for n in ast.walk(f.node):
            for fld in ('body', 'orelse'):
                blk = getattr(n, fld, None)
                if isinstance(blk, list):
                    blocks.append(blk)
        for blk in blocks:
            for k, st in enumerate(blk):
                if not (isinstance(st, ast.Assign) and isinstance(st.value, ast.Call) and isinstance(st.value.func, ast.Name)
                        and st.value.func.id == 'get_tau' and isinstance(st.targets[0], ast.Name)):
                    continue
                tau = st.targets[0].id
                call = st.value
                # the test is the next use of the window in the same block: the condition of an `if`, or a boolean
                # that is assigned (`hit = guard and delta < tau`)
                nxt = None
                for s_ in blk[k + 1:]:
                    if not any(isinstance(x, ast.Name) and x.id == tau for x in ast.walk(s_)):
                        continue
                    if isinstance(s_, ast.If) and any(isinstance(x, ast.Name) and x.id == tau for x in ast.walk(s_.test)):
                        nxt = s_
                    elif isinstance(s_, ast.Assign) and isinstance(s_.value, (ast.BoolOp, ast.Compare)):
                        nxt = ast.If(test=s_.value, body=[s_], orelse=[])
                        ast.copy_location(nxt, s_)
                    break
                t = f"{f.name}: the window from get_tau is used in a strict test `delta < {tau}` (a tie with the window is not a coincidence)"
                if nxt is None or len(call.args) < 4:
                    obs.append(violation(rule, t, f.loc(st), key=f"{_fn(f)}::tau-unused::{k}", detail='no test follows'))
                    continue
                conj = nxt.test.values if isinstance(nxt.test, ast.BoolOp) and isinstance(nxt.test.op, ast.And) else [nxt.test]
                cmpn = [c for c in conj if isinstance(c, ast.Compare) and any(isinstance(x, ast.Name) and x.id == tau for x in ast.walk(c))]
                if len(cmpn) != 1:
                    obs.append(violation(rule, t, f.loc(nxt), key=f"{_fn(f)}::tau-test-shape::{ast.unparse(nxt.test)[:60]}",
                                         detail=ast.unparse(nxt.test)))
                    continue
                c = cmpn[0]
                try:
                    cc = C.canon_cond(c, env)
                except C.CanonError as e:
                    obs.append(inconclusive(rule, t, f.loc(nxt), str(e), construct=_fn(f)))
                    continue
                a1, a2, i1, i2 = [ast.unparse(x) for x in call.args[:4]]
                s1 = C.atom(('sub', ('n', a1), C.canon_expr(call.args[2], env)))
                s2 = C.atom(('sub', ('n', a2), C.canon_expr(call.args[3], env)))
                tau_p = C.atom(('n', tau))
                forms = {
                    'later-earlier (1 after 2)': C.mk_cmp('lt', C.sub(s1, s2), tau_p),
                    'later-earlier (2 after 1)': C.mk_cmp('lt', C.sub(s2, s1), tau_p),
                    'abs': C.mk_cmp('lt', C.mk_abs(C.sub(s1, s2)), tau_p),
                }
                which = [k_ for k_, v in forms.items() if v == cc]
                if which:
                    obs.append(ok(rule, t, f.loc(nxt), construct=f"{_fn(f)}::tau-test::{ast.unparse(c)}", detail=which[0]))
                else:
                    obs.append(violation(rule, t, f.loc(nxt), key=f"{_fn(f)}::tau-test::{ast.unparse(c)}",
                                         detail=f"found {C.show(cc)}; expected one of {[C.show(v) for v in forms.values()]}"))
                # cursor-validity guard conjoined when the other cursor may be -1
                guards = [g for g in conj if g is not c]
                other_ok = True
                t3 = f"{f.name}: the coincidence test is conjoined with the validity guard of the other train's cursor (`> -1`)"
                if isinstance(nxt.test, ast.BoolOp):
                    try:
                        g0 = C.canon_cond(guards[0], env)
                        want = [C.mk_cmp('gt', C.canon_expr(call.args[3], env), C.const(-1)),
                                C.mk_cmp('gt', C.canon_expr(call.args[2], env), C.const(-1))]
                        other_ok = g0 in want and conj[0] is guards[0]
                    except (C.CanonError, IndexError):
                        other_ok = False
                    if other_ok:
                        obs.append(ok(rule, t3, f.loc(nxt), construct=f"{_fn(f)}::tau-guard::{ast.unparse(guards[0])}"))
                    else:
                        obs.append(violation(rule, t3, f.loc(nxt), key=f"{_fn(f)}::tau-guard::{ast.unparse(nxt.test)[:60]}",
                                             detail=ast.unparse(nxt.test)))
    return obs


# ======================================================================================
# Interpolate on weak orderings (R03.4, R15.5)
# ======================================================================================
def _weak_orderings(n: int):
    """all assignments of ranks to n symbols (weak orderings), as tuples of small integers"""
    seen = set()
    for ranks in itertools.product(range(n), repeat=n):
        # normalise ranks to dense form
        order = sorted(set(ranks))
        dense = tuple(order.index(r) for r in ranks)
        if dense not in seen:
            seen.add(dense)
            yield dense


def eval_interpolate(fn: ast.FunctionDef, a: int, b: int, t: int) -> Optional[str]:
    """Evaluate a comparison-only function on integer ranks; returns which argument is returned ('a','b','t')."""
    params = [x.arg for x in fn.args.args]
    env = dict(zip(params, (('a', a), ('b', b), ('t', t))))

    def ev(e):
        if isinstance(e, ast.Name):
            return env[e.id]
        if isinstance(e, ast.Call) and isinstance(e.func, ast.Name) and e.func.id in ('min', 'fmin', 'max', 'fmax'):
            vals = [ev(x) for x in e.args]
            pick = min if 'min' in e.func.id else max
            # ties: the first minimal argument (value-equal anyway)
            best = vals[0]
            for v in vals[1:]:
                if (v[1] < best[1]) if pick is min else (v[1] > best[1]):
                    best = v
            return best
        if isinstance(e, (ast.Tuple, ast.List)):
            return [ev(x) for x in e.elts]
        if isinstance(e, ast.Call) and isinstance(e.func, ast.Name) and e.func.id == 'sorted' and len(e.args) == 1 and not e.keywords:
            vals = ev(e.args[0])
            if not isinstance(vals, list):
                raise ValueError('sorted of a scalar')
            return sorted(vals, key=lambda v: v[1])            # stable: ties keep their order (value-equal anyway)
        if isinstance(e, ast.Subscript) and isinstance(e.slice, ast.Constant) and isinstance(e.slice.value, int):
            vals = ev(e.value)
            if isinstance(vals, list):
                return vals[e.slice.value]
        if isinstance(e, ast.IfExp):
            return ev(e.body) if cond(e.test) else ev(e.orelse)
        raise ValueError(ast.dump(e))

    def cond(c):
        if isinstance(c, ast.BoolOp):
            vals = [cond(v) for v in c.values]
            return all(vals) if isinstance(c.op, ast.And) else any(vals)
        if isinstance(c, ast.Compare) and len(c.ops) == 1:
            l, r = ev(c.left)[1], ev(c.comparators[0])[1]
            op = c.ops[0]
            return {ast.Lt: l < r, ast.LtE: l <= r, ast.Gt: l > r, ast.GtE: l >= r, ast.Eq: l == r, ast.NotEq: l != r}[type(op)]
        raise ValueError(ast.dump(c))

    def run(body):
        for st in body:
            if isinstance(st, ast.Expr):
                continue
            if isinstance(st, ast.Assign) and isinstance(st.targets[0], ast.Name):
                env[st.targets[0].id] = ev(st.value)
            elif isinstance(st, ast.Assign) and isinstance(st.targets[0], (ast.Tuple, ast.List)) \
                    and all(isinstance(x, ast.Name) for x in st.targets[0].elts):
                vals = ev(st.value)
                if not isinstance(vals, list) or len(vals) != len(st.targets[0].elts):
                    raise ValueError('unpacking')
                for x, v in zip(st.targets[0].elts, vals):
                    env[x.id] = v
            elif isinstance(st, ast.If):
                r = run(st.body) if cond(st.test) else run(st.orelse)
                if r is not None:
                    return r
            elif isinstance(st, ast.Return):
                return ev(st.value)
            else:
                raise ValueError(type(st).__name__)
        return None
    try:
        r = run(fn.body)
    except (ValueError, KeyError):
        return None
    return r


def interpolate_copies(repo: Repo) -> List[FuncInfo]:
    """The thresholded-interpolation helpers, found by role: the three-argument function that a get_tau copy calls with
    its MRTS parameter as third argument (nested in get_tau or defined in the same module, whatever it is called)."""
    out: List[FuncInfo] = []
    seen = set()
    for g in get_tau_copies(repo):
        params = [a.arg for a in g.node.args.args]
        if not params:
            continue
        mrts = params[-1]
        # the threshold handed on: the MRTS parameter itself (re-scaled in place) or a local computed from it alone
        thr = {mrts}
        for n in ast.walk(g.node):
            if isinstance(n, ast.Assign) and len(n.targets) == 1 and isinstance(n.targets[0], ast.Name):
                used = {x.id for x in ast.walk(n.value) if isinstance(x, ast.Name)}
                if used == {mrts}:
                    thr.add(n.targets[0].id)
        names = []
        for n in ast.walk(g.node):
            if isinstance(n, ast.Call) and isinstance(n.func, ast.Name) and len(n.args) == 3 and not n.keywords \
                    and isinstance(n.args[2], ast.Name) and n.args[2].id in thr and n.func.id not in names:
                names.append(n.func.id)
        mi = repo.module(g.module)
        for nm in names:
            for cand in (f"{g.name}.{nm}", nm):
                f = mi.functions.get(cand)
                if f is not None and len(f.node.args.args) == 3 and id(f) not in seen:
                    seen.add(id(f))
                    out.append(f)
                    break
    if not out:
        out = [f for f in repo.all_functions() if f.name.split('.')[-1] == 'Interpolate']
    return out


def r03_4_interpolate(ctx, rule: str = 'R03.4') -> List[Ob]:
    """`Interpolate(a, b, t)` touches its arguments only through comparisons, so the 13 weak orderings of (a,b,t)
    are an exact finite abstraction.  Obligations: both copies return the same *value* on every ordering; the
    value equals the documented thresholded interpolation clamp(t, min(a,b), b) wherever min(a,b) <= b, i.e.
    min(a,b) for t below it, b for t above b, t in between; it is non-decreasing in t (R15.5); with t at or below
    both arguments (MRTS = 0 with non-negative durations) it is min(a,b)."""
    repo = ctx.repo
    obs: List[Ob] = []
    copies = interpolate_copies(repo)
    if len(copies) < 2:
        return [inconclusive(rule, 'two copies of Interpolate found', 'pyspike/cython', f"{len(copies)}")]
    orderings = list(_weak_orderings(3))
    tables: Dict[str, Dict[tuple, Optional[int]]] = {}
    for f in copies:
        tab = {}
        for (a, b, t) in orderings:
            r = eval_interpolate(f.node, a, b, t)
            tab[(a, b, t)] = None if r is None else r[1]
        tables[f.qual] = tab
        if any(v is None for v in tab.values()):
            obs.append(inconclusive(rule, f"{f.name} ({f.path}): body uses only comparisons, min/max, assignments and returns",
                                    f.loc(), construct=_fn(f)))
    if any(o.status == 'inconclusive' for o in obs):
        return obs
    ref = copies[0]
    for f in copies:
        tab = tables[f.qual]
        bad_spec, bad_mono, bad_zero = [], [], []
        for (a, b, t), v in tab.items():
            lo = min(a, b)
            want = lo if t < lo else (b if t > b else t)
            if v != want:
                bad_spec.append(((a, b, t), v, want))
            if t <= a and t <= b and v != lo:
                bad_zero.append(((a, b, t), v))
        # monotone in t: compare orderings that agree on (a,b) relation
        for (a, b, t), v in tab.items():
            for (a2, b2, t2), v2 in tab.items():
                pass
        # monotonicity on a refined grid: ranks 0..4 for a,b fixed, t sweeping
        for a in range(0, 5, 2):
            for b in range(0, 5, 2):
                prev = None
                for t in range(-1, 6):
                    r = eval_interpolate(f.node, a, b, t)
                    if r is None:
                        continue
                    if prev is not None and r[1] < prev:
                        bad_mono.append((a, b, t, r[1], prev))
                    prev = r[1]
        t1 = (f"Interpolate ({f.path}): on all 13 weak orderings of (a, b, t) the result is the documented thresholded "
              f"interpolation: min(a,b) if t < min(a,b), b if t > b, else t")
        if not bad_spec:
            obs.append(ok(rule, t1, f.loc(), construct=f"{_fn(f)}::spec", detail=f"{len(tab)} orderings"))
        else:
            obs.append(violation(rule, t1, f.loc(), key=f"{_fn(f)}::interpolate-spec",
                                 detail='; '.join(f"ranks(a,b,t)={o}: returns rank {v}, expected {w}" for o, v, w in bad_spec[:4])))
        t2 = f"Interpolate ({f.path}): non-decreasing in t (raising MRTS never shrinks a window) [R15.5]"
        if not bad_mono:
            obs.append(ok(rule, t2, f.loc(), construct=f"{_fn(f)}::monotone"))
        else:
            obs.append(violation(rule, t2, f.loc(), key=f"{_fn(f)}::interpolate-monotone", detail=str(bad_mono[:3])))
        t3 = f"Interpolate ({f.path}): with t at or below both arguments (MRTS = 0) the result is min(a, b)"
        if not bad_zero:
            obs.append(ok(rule, t3, f.loc(), construct=f"{_fn(f)}::zero"))
        else:
            obs.append(violation(rule, t3, f.loc(), key=f"{_fn(f)}::interpolate-zero", detail=str(bad_zero[:3])))
    # sibling agreement
    for f in copies[1:]:
        diff = [(o, tables[ref.qual][o], tables[f.qual][o]) for o in orderings if tables[ref.qual][o] != tables[f.qual][o]]
        t = f"Interpolate: {ref.path} and {f.path} return the same value on all 13 weak orderings"
        if not diff:
            obs.append(ok(rule, t, f"{ref.loc()} / {f.loc()}", construct=f"{_fn(ref)}~{_fn(f)}::interpolate"))
        else:
            obs.append(violation(rule, t, f"{ref.loc()} / {f.loc()}", key=f"{_fn(ref)}~{_fn(f)}::interpolate-differs",
                                 detail='; '.join(f"ranks(a,b,t)={o}: {x} vs {y}" for o, x, y in diff[:4])))
    return obs
