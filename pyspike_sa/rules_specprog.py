"""Reference programs: a routine is compared with a small specification program by engine C (the same lock-step
equivalence that compares the compiled sources with the Python fallback).  The specification is parsed and - when
the repository is analysed in its normal form - normalised by the same rewrites, so the comparison is insensitive
to the spelling of either side; what is established is equality of the returned values on every path."""
from __future__ import annotations

import ast
from typing import Dict, List, Optional, Set

from . import canon as C
from .compare import Comparer, Side, Inconclusive
from .frontend import FuncInfo, Repo
from .report import Ob, ok, violation, inconclusive


def spec_function(repo: Repo, src: str, name: Optional[str] = None) -> FuncInfo:
    tree = ast.parse(src)
    if getattr(repo, 'level', 0) >= 1:
        from . import normalize
        normalize.normalize_module(tree)
    fn = next(n for n in tree.body if isinstance(n, ast.FunctionDef) and (name is None or n.name == name))
    return FuncInfo('spec', f'<specification {fn.name}>', fn.name, fn)


def equal_to_spec(eng, fi: FuncInfo, spec_src: str, rule: str, what: str, key: str,
                  drop_params: Optional[Set[str]] = None, lens: Optional[dict] = None) -> List[Ob]:
    first = _equal_to_spec(eng, fi, spec_function(eng.repo, spec_src), rule, what, key, drop_params)
    if all(o.status == 'ok' for o in first):
        return first
    # second attempt on the alpha normal forms (canonical local names: insensitive to the choice and re-use of names)
    from . import normalize
    import dataclasses
    try:
        fa = dataclasses.replace(fi, node=normalize.alpha_normalize(fi.node))
        sp = spec_function(eng.repo, spec_src)
        sp = dataclasses.replace(sp, node=normalize.alpha_normalize(sp.node))
        second = _equal_to_spec(eng, fa, sp, rule, what, key, drop_params)
    except Exception:
        return first
    return second if all(o.status == 'ok' for o in second) else first


def _equal_to_spec(eng, fi: FuncInfo, spec: FuncInfo, rule: str, what: str, key: str,
                   drop_params: Optional[Set[str]] = None) -> List[Ob]:
    """fi(args) == spec(args) for all arguments (positional pairing of the parameters; `drop_params` are extra
    parameters of fi - e.g. an explicit length - that the specification derives itself)."""
    fn = f"{fi.path}::{fi.name}"
    title = f"{fi.name} ({fi.path}): {what}"
    drop = set(drop_params or ())
    pa = [a.arg for a in fi.node.args.args if a.arg not in drop]
    pb = [a.arg for a in spec.node.args.args]
    if len(pa) != len(pb):
        return [inconclusive(rule, title, fi.loc(), f"parameters {pa} cannot be paired with the specification's {pb}",
                             construct=f"{fn}::{key}")]
    ren = {b: a for a, b in zip(pa, pb) if a != b}
    # keep the specification's locals apart from the routine's
    locs_a = {n.id for n in ast.walk(fi.node) if isinstance(n, ast.Name)}
    for n in ast.walk(spec.node):
        if isinstance(n, ast.Name) and n.id not in ren and n.id not in pb and n.id in locs_a and n.id not in pa:
            pass
    a = Side(fi, label='routine')
    b = Side(spec, rename=ren, label='specification')
    ad = eng._adapters([], rule)
    a.call_adapters = ad
    b.call_adapters = ad
    if drop:
        arrp = next((p for p in [x.arg for x in fi.node.args.args] if fi.ctypes.get(p, '').startswith('double[')), None)
        if arrp:
            a.init = {e: C.atom(('call', 'len', (C.atom(('n', arrp)),))) for e in drop}
    cmp = Comparer(a, b, title=f"{fi.name} ~ specification")
    cmp.extra_params_a = drop
    try:
        cmp.run()
        if cmp.mismatches:
            better = eng._retry_with_local_pairings(fi, spec, a, b, [], f"{fi.name} ~ specification", drop, None)
            if better is not None:
                cmp = better
    except (Inconclusive, C.CanonError) as e:
        return [inconclusive(rule, title, fi.loc(), str(e), construct=f"{fn}::{key}")]
    if not cmp.mismatches:
        return [ok(rule, title, fi.loc(), construct=f"{fn}::{key}", detail=f"{cmp.points} aligned points", points=cmp.points)]
    out = []
    seen = set()
    for m in cmp.mismatches:
        k = m.key()
        if k in seen:
            continue
        seen.add(k)
        out.append(violation(rule, f"{title}: {m.what}", f"{m.loc_a}", key=f"{fn}::{key}::{m.kind}::{m.what}",
                             detail=f"routine:       {m.form_a}\nspecification: {m.form_b}\nin: {m.ctx}"))
    return out
