"""Obligations, findings, known-findings handling and evidence files."""
from __future__ import annotations

import hashlib
import json
import os
import time
from dataclasses import dataclass, field, asdict
from typing import Dict, List, Optional

VERIF = os.path.dirname(os.path.dirname(os.path.abspath(__file__)))
EVIDENCE_DIR = os.path.join(VERIF, 'evidence')
KNOWN_FILE = os.path.join(VERIF, 'known_findings.json')


@dataclass
class Ob:
    """One rule instance (obligation) examined on the current tree."""
    rule: str                 # e.g. 'R12.2'
    title: str                # what is required
    status: str               # ok | violation | inconclusive | info
    where: str = ''           # file:line (or file:line / file:line)
    detail: str = ''          # canonical forms, guard chain, ...
    key: str = ''             # stable identity of the construct (no line numbers)
    construct: str = ''       # (file, function, role) for distinctness counting
    extra: dict = field(default_factory=dict)

    def ident(self) -> str:
        return f"{self.rule}|{self.key or self.construct or self.title}"


def ok(rule, title, where='', construct='', detail='', **extra) -> Ob:
    return Ob(rule, title, 'ok', where, detail, '', construct or where, extra)


def violation(rule, title, where, key, detail='', construct='', **extra) -> Ob:
    return Ob(rule, title, 'violation', where, detail, key, construct or key, extra)


def inconclusive(rule, title, where='', detail='', construct='') -> Ob:
    return Ob(rule, title, 'inconclusive', where, detail, '', construct or where)


def info(rule, title, where='', detail='') -> Ob:
    return Ob(rule, title, 'info', where, detail)


class KnownFindings:
    def __init__(self, path: str = KNOWN_FILE):
        self.path = path
        self.findings: List[dict] = []
        self.fixed: List[str] = []
        if os.path.isfile(path):
            data = json.load(open(path))
            self.findings = data.get('findings', [])
            self.fixed = data.get('fixed', [])

    def match(self, prop: str, ob: Ob) -> Optional[dict]:
        for f in self.findings:
            if f.get('property') == prop and f.get('rule') == ob.rule and f.get('key') == ob.key:
                return f
        return None


def write_replay(prop: str, ob: Ob) -> str:
    import sys as _sys
    d = os.path.join(_sys.modules[__name__].EVIDENCE_DIR, 'replay')
    os.makedirs(d, exist_ok=True)
    dig = hashlib.sha1(ob.ident().encode()).hexdigest()[:12]
    path = os.path.join(d, f"{prop}-{dig}.json")
    with open(path, 'w') as f:
        json.dump({'property': prop, 'rule': ob.rule, 'title': ob.title, 'where': ob.where,
                   'key': ob.key, 'detail': ob.detail, 'extra': ob.extra}, f, indent=1, default=str)
    return path


def write_evidence(prop: str, tier: str, level: str, obs: List[Ob], wall: float, explanation: str,
                   assumptions: List[str], n_viol: int, extra_cov: Optional[dict] = None,
                   seed: int = 0) -> str:
    import sys as _sys
    ev_dir = _sys.modules[__name__].EVIDENCE_DIR
    os.makedirs(ev_dir, exist_ok=True)
    decided = [o for o in obs if o.status in ('ok', 'violation')]
    constructs = {o.construct or o.where for o in decided}
    samples = []
    seen_rules = set()
    for o in obs:
        if o.status == 'info':
            continue
        if o.rule in seen_rules and len(samples) >= 12:
            continue
        if o.rule in seen_rules and sum(1 for s in samples if s['rule'] == o.rule) >= 2:
            continue
        seen_rules.add(o.rule)
        samples.append({'rule': o.rule, 'obligation': o.title, 'status': o.status, 'where': o.where,
                        'detail': o.detail[:600]})
    per_rule: Dict[str, Dict[str, int]] = {}
    for o in obs:
        d = per_rule.setdefault(o.rule, {})
        d[o.status] = d.get(o.status, 0) + 1
    cov = {
        'explanation': explanation,
        'obligations': len(decided),
        'discharged': sum(1 for o in decided if o.status == 'ok'),
        'evaluations': len(decided),
        'distinct_nontrivial': len(constructs),
        'rule': 'one evaluation per rule instance found by role in the parsed tree; distinct = distinct '
                '(file, function, role) constructs among them; an instance is non-trivial when it carries '
                'a comparison of canonical forms, a dataflow fact or a typing judgement (all counted ones do)',
        'samples': samples[:40],
        'per_rule': per_rule,
        'info': [f"{o.rule}: {o.title} {o.where} {o.detail}"[:300] for o in obs if o.status == 'info'][:40],
        'exhaustive': True,
    }
    if extra_cov:
        cov.update(extra_cov)
    ev = {
        'property_id': prop,
        'tier': tier,
        'seed': seed,
        'level': level,
        'coverage': cov,
        'assumptions': assumptions,
        'wall_s': round(wall, 3),
        'violations': n_viol,
    }
    path = os.path.join(ev_dir, f"{prop}.json")
    tmp = path + '.tmp'
    with open(tmp, 'w') as f:
        json.dump(ev, f, indent=1, default=str)
    os.replace(tmp, path)
    return path
