"""Spec-table and extent rules on the measure kernels (both copies), per path through prologue / loop body / epilogue
(syntax-directed path walk with symbolic value numbering, no solver):

R01.2  one breakpoint per iteration, stored at the running index, equal to the spike just consumed
R01.3  ISI value is |a-b| / max(a, b, MRTS) with the same a, b in numerator and denominator       (also R07.4)
R01.4  ISI edge rules (first / last interval: max of edge distance and neighbouring ISI; one-spike variant)
R02.2  dist_at_t equals the documented plain / RI / adaptive formula
R02.3  tie branch stores 0 on both sides of the breakpoint
R02.5  auxiliary spikes of the SPIKE kernels (mirrored outside the edges)
R02.6  nearest-spike helper shape and call roles
R02.8  every nearest-spike distance is defined by the search (or is a copy / the 0 of a shared spike)
R03.3  constants stored by the discrete kernels (tie = (2,2) / 0 with multiplicity 2; coincidence marks both events)
R04.2  leader = +1 sign table
R07.3  discrete entries bounded by their multiplicity
R18.3  written-extent: no unwritten np.empty cell is returned; length relations of the returned slices
R18.2  constant subscripts [1], [N-2] are dominated by N > 1
R18.5  framing: first breakpoint t_start, last t_end
"""
from __future__ import annotations

import ast
from typing import Dict, List, Optional, Set, Tuple

from . import canon as C
from .canon import Env
from .compare import Side, Inconclusive
from .frontend import FuncInfo
from .ir import IRBuilder, assigned_names
from .report import Ob, ok, violation, inconclusive, info
from .rules_projection import PathExec, _split_at_loop, _returned_names
from .rules_siblings import SiblingEngine, _fn


def _env_for(side: Side) -> Env:
    e = Env()
    e.call_adapters = side.call_adapters
    return e


def _paths(eng: SiblingEngine, fi: FuncInfo, items: list, env: Optional[Env] = None, returns: bool = False):
    side = Side(fi, label=fi.name)
    side.call_adapters = eng._adapters([], 'spec')
    pe = PathExec(side)
    pe.returns = returns
    return list(pe.paths(items, env if env is not None else _env_for(side), [], []))


def _parts(fi: FuncInfo):
    bld = IRBuilder()
    items = bld.build(fi.node.body)
    return _split_at_loop(items)


def _alloc_kinds(fi: FuncInfo) -> Dict[str, str]:
    out = {}
    for n in ast.walk(fi.node):
        if isinstance(n, ast.Assign) and len(n.targets) == 1 and isinstance(n.targets[0], ast.Name) and isinstance(n.value, ast.Call):
            d = C.dotted(n.value.func)
            if d in ('np.zeros', 'np.ones', 'np.empty', 'np.empty_like', 'np.zeros_like', 'np.ones_like'):
                out.setdefault(n.targets[0].id, d[3:].replace('_like', ''))
    return out


def _cond_txt(conds) -> str:
    return ' and '.join(C.show(c) for c in conds[:3])[:120]


# ======================================================================================
# ISI kernels
# ======================================================================================
def _ratio_shape(v: C.Term, mrts: str) -> Optional[Tuple[C.Term, C.Term]]:
    """v == |A - B| / max(A, B, MRTS)  ->  (A, B) (unordered), else None"""
    sa = C.single_atom(v)
    if sa is None or sa[0] != 'div':
        return None
    num, den = sa[1], sa[2]
    na, da = C.single_atom(num), C.single_atom(den)
    if na is None or na[0] != 'abs' or da is None or da[0] != 'max':
        return None
    args = list(da[1])
    m = C.atom(('n', mrts))
    if m not in args or len(args) != 3:
        return None
    rest = [a for a in args if a != m]
    d = na[1]
    if C.sub(rest[0], rest[1]) in (d, C.neg(d)):
        return rest[0], rest[1]
    return None


def _ratio_of(a: C.Term, b: C.Term, mrts: str) -> C.Term:
    """|a - b| / max(a, b, MRTS) in canonical form"""
    return C.div(C.mk_abs(C.sub(a, b)), C.mk_minmax('max', [a, b, C.atom(('n', mrts))]))


def _ratio_pair(v: C.Term, env, mrts: str, hint: Optional[Tuple[str, str]] = None) -> Optional[Tuple[str, str]]:
    """Names of two variables x, y of the state with v == |x - y| / max(x, y, MRTS) (by value: nested and flat
    spellings of the maximum, and interval values that are themselves maxima, all agree)."""
    names = [k for k, val in env.vals.items() if C.is_poly(val)]
    pairs = [hint] if hint else [(x, y) for i, x in enumerate(names) for y in names[i + 1:]]
    for x, y in pairs:
        vx, vy = C.to_poly(env.get(x)), C.to_poly(env.get(y))
        if C.is_const(vx) or C.is_const(vy):
            continue
        try:
            if _ratio_of(vx, vy, mrts) == v:
                return x, y
        except Exception:
            continue
    return None


def isi_spec(eng: SiblingEngine, fi: FuncInfo, profile: bool) -> List[Ob]:
    obs: List[Ob] = []
    fn = _fn(fi)
    roles, _ = eng.roles_of(fi)
    if roles is None or not roles.ok:
        return [inconclusive('R01.3', f"{fi.name}: merge idiom established (premise)", fi.loc(), construct=fn)]
    params = [a.arg for a in fi.node.args.args]
    if len(params) < 5:
        return [inconclusive('R01.3', f"{fi.name}: has (s1, s2, t_start, t_end, MRTS) parameters", fi.loc(), construct=fn)]
    s1, s2, t_start, t_end, mrts = params[:5]
    pre, loop, post = _parts(fi)
    c1, c2, n1, n2 = roles.c1, roles.c2, roles.n1, roles.n2
    N = {1: C.atom(('call', 'len', (C.atom(('n', s1)),))), 2: C.atom(('call', 'len', (C.atom(('n', s2)),)))}
    S = {1: s1, 2: s2}

    def sub(k, idx):
        return C.atom(('sub', ('n', S[k]), idx))
    ts, te = C.atom(('n', t_start)), C.atom(('n', t_end))
    gt1 = {k: C.mk_cmp('gt', N[k], C.ONE) for k in (1, 2)}
    # ---- prologue: find the two interval variables from the first stored value / first ratio
    pro = _paths(eng, fi, pre)
    ret = _returned_names(fi)
    val_name = None     # variable or array holding the current ratio
    nu: Dict[int, str] = {}
    for env, stores, conds in pro:
        # candidate: any stored value or scalar with the ratio shape
        cands = [(k, r[2]) for k, r in stores if r[0] == 'store' and C.is_poly(r[2])] + \
                [(k, v) for k, v in env.vals.items() if C.is_poly(v)]
        for key, v in cands:
            pr = _ratio_pair(v, env, mrts)
            if pr:
                val_name = key
                for nm in pr:
                    uses1 = ('n', s1) in C.atoms_of(C.to_poly(env.get(nm)))
                    nu[1 if uses1 else 2] = nm
                break
        break
    if val_name is None or len(nu) != 2:
        return [violation('R01.3', f"{fi.name} ({fi.path}): the first value of the profile is |a-b| / max(a, b, MRTS) with a, b the "
                          f"current inter-spike intervals of the two trains", fi.loc(), key=f"{fn}::isi-ratio::prologue",
                          detail=f"no stored/assigned value has that shape on the first prologue path")]
    # ---- prologue values (R01.4a) on every prologue path
    for n_path, (env, stores, conds) in enumerate(pro):
        for k in (1, 2):
            on_edge = C.mk_cmp('gt', sub(k, C.ZERO), ts) not in conds     # s[0] > t_start failed
            first = C.mk_cmp('gt', sub(k, C.ZERO), ts) in conds
            if not first and C.mk_not(C.mk_cmp('gt', sub(k, C.ZERO), ts)) not in conds:
                obs.append(inconclusive('R01.4', f"{fi.name}: prologue branches on `s{k}[0] > t_start`", fi.loc(), construct=fn))
                continue
            d10 = C.sub(sub(k, C.ONE), sub(k, C.ZERO))
            if first:
                want = C.atom(('ifexp', gt1[k], C.mk_minmax('max', [C.sub(sub(k, C.ZERO), ts), d10]), C.sub(sub(k, C.ZERO), ts)))
                wantc = C.const(-1)
                what = f"first interval of train {k} (first spike after t_start): max(s[0]-t_start, s[1]-s[0]) if N>1 else s[0]-t_start; cursor -1"
            else:
                want = C.atom(('ifexp', gt1[k], d10, C.sub(te, sub(k, C.ZERO))))
                wantc = C.ZERO
                what = f"first interval of train {k} (first spike on t_start): s[1]-s[0] if N>1 else t_end-s[0]; cursor 0"
            got = C.resolve_ifexp(C.to_poly(env.get(nu[k])), conds)
            want = C.resolve_ifexp(want, conds)
            gotc = C.to_poly(env.get(c1 if k == 1 else c2))
            t = f"{fi.name} ({fi.path}): {what}"
            if got == want and gotc == wantc:
                obs.append(ok('R01.4', t, fi.loc(), construct=f"{fn}::init::{k}::{'first' if first else 'edge'}"))
            else:
                obs.append(violation('R01.4', t, fi.loc(), key=f"{fn}::isi-init::train{k}::{'first' if first else 'edge'}",
                                     detail=f"{nu[k]} = {C.show(got)}, cursor = {C.show(gotc)}; expected {C.show(want)}, {C.show(wantc)}"))
    # ---- loop body paths
    body = loop[2]
    seed = _env_for(Side(fi))
    seed.call_adapters = eng._adapters([], 'spec')
    seed.vals[n1] = N[1]
    seed.vals[n2] = N[2]
    lp = _paths(eng, fi, body, seed)
    time_arr = ret[0] if profile and ret else None
    counter = None
    for n_path, (env, stores, conds) in enumerate(lp):
        ptxt = _cond_txt(conds)
        adv = {k: C.to_poly(env.get(c)) != C.atom(('n', c)) for k, c in ((1, c1), (2, c2))}
        # R01.3 ratio
        cur = None
        if profile:
            vs = [r for k, r in stores if k == val_name and r[0] == 'store']
            cur = vs[-1][2] if vs else None
        else:
            cur = env.vals.get(val_name)
        want_pair = {C.to_poly(env.get(nu[1])), C.to_poly(env.get(nu[2]))}
        t = f"{fi.name} ({fi.path}): value of the new piece is |v1-v2| / max(v1, v2, MRTS) over the updated intervals (path {n_path}: {ptxt})"
        if cur is not None and C.is_poly(cur) and _ratio_of(C.to_poly(env.get(nu[1])), C.to_poly(env.get(nu[2])), mrts) == cur:
            obs.append(ok('R01.3', t, fi.loc(loop[-1]), construct=f"{fn}::ratio::{n_path}"))
        else:
            obs.append(violation('R01.3', t, fi.loc(loop[-1]), key=f"{fn}::isi-ratio::path{n_path}",
                                 detail=f"value = {C.show(cur) if cur is not None else 'not stored'}; intervals {[C.show(x) for x in want_pair]}"))
        # R01.4 b/c interval updates
        for k, cur_name, nname in ((1, c1, n1), (2, c2, n2)):
            got = C.to_poly(env.get(nu[k]))
            cnew = C.add(C.atom(('n', cur_name)), C.ONE)
            if not adv[k]:
                t = f"{fi.name} ({fi.path}): interval of train {k} is unchanged when train {k} does not advance (path {n_path})"
                if got == C.atom(('n', nu[k])):
                    obs.append(ok('R01.4', t, fi.loc(loop[-1]), construct=f"{fn}::keep::{k}::{n_path}"))
                else:
                    obs.append(violation('R01.4', t, fi.loc(loop[-1]), key=f"{fn}::isi-keep::train{k}::path{n_path}", detail=C.show(got)))
                continue
            not_last = C.mk_cmp('lt', cnew, C.sub(N[k], C.ONE))
            if not_last in conds:
                want = [C.sub(sub(k, C.add(cnew, C.ONE)), sub(k, cnew))]
                what = f"next ISI s[c+1]-s[c] after advancing train {k} to an interior spike"
            elif C.mk_not(not_last) in conds:
                last = C.sub(N[k], C.ONE)
                e_dist = C.sub(te, sub(k, last))
                explicit = C.atom(('ifexp', gt1[k], C.mk_minmax('max', [e_dist, C.sub(sub(k, last), sub(k, C.sub(last, C.ONE)))]), e_dist))
                # the compiled spelling: max(t_end - s[c], previous interval) with c pinned to N-1 (lemma L2)
                e_c = C.sub(te, sub(k, cnew))
                reuse = C.atom(('ifexp', gt1[k], C.mk_minmax('max', [e_c, C.atom(('n', nu[k]))]), e_c))
                want = [explicit, reuse]
                what = (f"last interval of train {k}: max(t_end-s[N-1], s[N-1]-s[N-2]) if N>1 else t_end-s[N-1] "
                        f"(or the L2 spelling re-using the previous interval)")
            else:
                obs.append(inconclusive('R01.4', f"{fi.name}: advance of train {k} is followed by the `c < N-1` test (path {n_path})",
                                        fi.loc(loop[-1]), construct=f"{fn}::adv::{k}::{n_path}"))
                continue
            t = f"{fi.name} ({fi.path}): {what} (path {n_path})"
            # pin the cursor for comparison with the explicit spelling
            got = C.resolve_ifexp(got, conds)
            want = [C.resolve_ifexp(w, conds) for w in want]
            got_pinned = C.subst_atoms(got, {('n', cur_name): C.sub(N[k], C.const(2))}) if len(want) == 2 else got
            if got in want or got_pinned in want:
                obs.append(ok('R01.4', t, fi.loc(loop[-1]), construct=f"{fn}::adv::{k}::{n_path}"))
            else:
                obs.append(violation('R01.4', t, fi.loc(loop[-1]), key=f"{fn}::isi-advance::train{k}::path{n_path}",
                                     detail=f"{nu[k]} = {C.show(got)}; expected {' or '.join(C.show(w) for w in want)}"))
        # R01.2 one breakpoint per iteration
        if profile and time_arr:
            tst = [r for k, r in stores if k == time_arr and r[0] == 'store']
            t = (f"{fi.name} ({fi.path}): exactly one breakpoint is emitted per iteration, at the running index, and it is the spike "
                 f"just consumed (path {n_path})")
            good = len(tst) == 1
            detail = f"{len(tst)} stores into {time_arr}"
            if good:
                idx, T = tst[0][1], tst[0][2]
                nm = C.names_of(idx)
                counter = next(iter(nm)) if len(nm) == 1 else None
                consumed = []
                if adv[1]:
                    consumed.append(sub(1, C.add(C.atom(('n', c1)), C.ONE)))
                if adv[2]:
                    consumed.append(sub(2, C.add(C.atom(('n', c2)), C.ONE)))
                good = counter is not None and idx == C.atom(('n', counter)) and T in consumed and \
                    C.to_poly(env.get(counter)) == C.add(C.atom(('n', counter)), C.ONE)
                vst = [r for k, r in stores if k == val_name and r[0] == 'store']
                good = good and len(vst) == 1 and vst[0][1] == idx
                detail = f"{time_arr}[{C.show(idx)}] = {C.show(T)}; consumed {[C.show(x) for x in consumed]}"
            if good:
                obs.append(ok('R01.2', t, fi.loc(loop[-1]), construct=f"{fn}::breakpoint::{n_path}"))
            else:
                obs.append(violation('R01.2', t, fi.loc(loop[-1]), key=f"{fn}::breakpoints::path{n_path}", detail=detail))
    return obs


# ======================================================================================
# SPIKE helpers
# ======================================================================================
def dist_at_t_spec(eng: SiblingEngine, fi: FuncInfo) -> List[Ob]:
    obs: List[Ob] = []
    fn = _fn(fi)
    ps = [a.arg for a in fi.node.args.args]
    if len(ps) != 6:
        return [inconclusive('R02.2', f"dist_at_t ({fi.path}): has six parameters", fi.loc(), construct=fn)]
    isi1, isi2, s1, s2, M, RI = [C.atom(('n', p)) for p in ps]
    m = C.scale(C.add(isi1, isi2), '1/2')
    L = C.mk_minmax('max', [M, m])
    want_ri = C.div(C.scale(C.add(s1, s2), '1/2'), L)
    want_plain = C.div(C.scale(C.add(C.mul(s1, isi2), C.mul(s2, isi1)), '1/2'), C.mul(m, L))
    bld = IRBuilder()
    items = bld.build(fi.node.body)
    side = Side(fi)
    pe = PathExec(side)
    rets = []

    def walk(items, env, conds):
        # paths with returns
        for k, it in enumerate(items):
            if it[0] == 'simple':
                from .compare import Region
                pe.cmp.exec_simple(it[1], env, Region(), side)
            elif it[0] == 'if':
                failed = []
                for test, body, node in it[1]:
                    c = C.canon_cond(test, env)
                    walk(body + items[k + 1:], env.copy(), conds + [C.mk_not(f) for f in failed] + [c])
                    failed.append(c)
                walk(it[2] + items[k + 1:], env.copy(), conds + [C.mk_not(f) for f in failed])
                return
            elif it[0] == 'return':
                rets.append((C.canon_expr(it[1], env), conds, it[-1]))
                return
    try:
        walk(items, Env(), [])
    except (C.CanonError, Inconclusive) as e:
        return [inconclusive('R02.2', f"dist_at_t ({fi.path}): body is straight-line with one RI branch", fi.loc(), str(e), construct=fn)]
    ri_true = ('truth', RI)
    for v, conds, node in rets:
        is_ri = any(c == ri_true for c in conds)
        want = want_ri if is_ri else want_plain
        t = (f"dist_at_t ({fi.path}): " + ("rate-independent value is 1/2 (s1+s2) / max(MRTS, mean ISI)" if is_ri else
             "value is 1/2 (s1*isi2 + s2*isi1) / (mean ISI * max(MRTS, mean ISI))"))
        if v == want:
            obs.append(ok('R02.2', t, fi.loc(node), construct=f"{fn}::{'RI' if is_ri else 'plain'}"))
        else:
            obs.append(violation('R02.2', t, fi.loc(node), key=f"{fn}::dist_at_t::{'RI' if is_ri else 'plain'}",
                                 detail=f"found {C.show(v)}\nexpected {C.show(want)}"))
    if len(rets) != 2:
        obs.append(inconclusive('R02.2', f"dist_at_t ({fi.path}): two return paths (RI / plain)", fi.loc(), f"{len(rets)}", construct=fn))
    return obs


GET_MIN_DIST_SPEC = """
def get_min_dist(spike_time, spike_train, start_index, t_lower, t_upper):
    # distance from spike_time to the nearest element of spike_train[start_index:] (a sorted array), where the two
    # auxiliary times t_lower / t_upper stand for the spikes before the first and after the last one
    d = abs(spike_time - t_lower)
    if start_index < 0:
        start_index = 0
    while start_index < len(spike_train):
        d_next = abs(spike_time - spike_train[start_index])
        if d_next > d:
            return d              # sorted array: the distances only grow from here on
        d = d_next
        start_index += 1
    d_next = abs(t_upper - spike_time)
    if d_next > d:
        return d
    return d_next
"""


def get_min_dist_spec(eng: SiblingEngine, fi: FuncInfo) -> List[Ob]:
    """the nearest-spike helper equals the reference search: start from |t - lower aux|, clamp a negative start,
    scan upward and return on the first strict increase, finish with |upper aux - t|"""
    from .rules_specprog import equal_to_spec
    extra = eng._helper_extra.get(fi.qual, set())
    if not extra:
        # compiled helpers take the array length as an explicit parameter (typed int, not an array/double)
        ps = [a.arg for a in fi.node.args.args]
        if len(ps) == 6:
            extra = {p for p in ps if fi.ctypes.get(p, '') == 'int' and p not in (ps[2],)} or set()
            extra = {p for p in extra if p != ps[2]}
            if len(extra) != 1:
                extra = set()
    return equal_to_spec(eng, fi, GET_MIN_DIST_SPEC, 'R02.6',
                         'nearest-spike search equals the reference: starts from the distance to the lower auxiliary time, '
                         'clamps a negative start index, returns on the first strict increase, ends with the upper auxiliary time',
                         'get_min_dist', drop_params=extra)


def _const_cells_over_paths(pro, returned, splitters) -> Dict[str, Dict[int, C.Term]]:
    """Values stored through constant indices into non-returned local arrays in the prologue, merged over the prologue
    paths: a cell that receives different values on different paths is `a if c else b` when one of the `splitters`
    conditions c separates the paths (the same array cells filled by `x[0] = a if c else b` or under `if c:`)."""
    per: Dict[str, Dict[int, List[tuple]]] = {}
    for env, stores, conds in pro:
        if C.contradictory(conds):
            continue            # one decision tested twice with different outcomes: not a path of the function
        for key, r in stores:
            if r[0] == 'store' and C.is_poly(r[1]) and C.is_const(r[1]) and key not in returned:
                idx = int(C.const_value(r[1]))
                per.setdefault(key, {}).setdefault(idx, [])
                # the last store of a path wins
                per[key][idx] = [e for e in per[key][idx] if e[0] is not conds] + [(conds, r[2])]
    out: Dict[str, Dict[int, C.Term]] = {}
    for key, cells in per.items():
        for idx, entries in cells.items():
            vals = list(dict.fromkeys(v for _, v in entries))
            if len(vals) == 1:
                out.setdefault(key, {})[idx] = vals[0]
                continue
            for c in splitters:
                yes = list(dict.fromkeys(v for cs, v in entries if c in cs))
                no = list(dict.fromkeys(v for cs, v in entries if C.mk_not(c) in cs))
                rest = [v for cs, v in entries if c not in cs and C.mk_not(c) not in cs]
                if len(yes) == 1 and len(no) == 1 and not rest:
                    out.setdefault(key, {})[idx] = C.atom(('ifexp', c, yes[0], no[0]))
                    break
    return out


def _const_scalars_over_paths(pro, names, splitters) -> Dict[str, C.Term]:
    """Values of the given locals at the end of the prologue, merged over its paths like `_const_cells_over_paths`."""
    per: Dict[str, List[tuple]] = {}
    for env, stores, conds in pro:
        if C.contradictory(conds):
            continue
        for nm in names:
            v = C.to_poly(env.get(nm))
            if v == C.atom(env.name_atom(nm)):
                continue            # not bound on this path
            per.setdefault(nm, []).append((conds, v))
    out: Dict[str, C.Term] = {}
    for nm, entries in per.items():
        vals = list(dict.fromkeys(v for _, v in entries))
        if len(vals) == 1:
            out[nm] = vals[0]
            continue
        for c in splitters:
            yes = list(dict.fromkeys(v for cs, v in entries if c in cs))
            no = list(dict.fromkeys(v for cs, v in entries if C.mk_not(c) in cs))
            rest = [v for cs, v in entries if c not in cs and C.mk_not(c) not in cs]
            if len(yes) == 1 and len(no) == 1 and not rest:
                out[nm] = C.atom(('ifexp', c, yes[0], no[0]))
                break
    return out


def scalar_aux_pairs(fi: FuncInfo, pro, splitters) -> Dict[Tuple[str, str], Dict[str, C.Term]]:
    """(lower, upper) pairs of plain locals that are passed as the auxiliary bounds of nearest-spike searches, bound in the
    prologue only: {(lower name, upper name): {name: value at the end of the prologue, merged over its paths}}"""
    params = {a.arg for a in fi.node.args.args}
    top_loops = [s for s in fi.node.body if isinstance(s, (ast.While, ast.For))]
    later = fi.node.body[fi.node.body.index(top_loops[0]):] if top_loops else []
    rebound = {m.id for s in later for m in ast.walk(s) if isinstance(m, ast.Name) and isinstance(m.ctx, ast.Store)}
    out: Dict[Tuple[str, str], Dict[str, C.Term]] = {}
    for n in ast.walk(fi.node):
        if isinstance(n, ast.Call) and isinstance(n.func, ast.Name) and 'min_dist' in n.func.id and len(n.args) in (5, 6) \
                and isinstance(n.args[-2], ast.Name) and isinstance(n.args[-1], ast.Name):
            pr = (n.args[-2].id, n.args[-1].id)
            if pr not in out and not (set(pr) & rebound) and not (set(pr) & params):
                vals = _const_scalars_over_paths(pro, pr, splitters)
                if len(vals) == 2:
                    out[pr] = vals
    return out


def spike_spec(eng: SiblingEngine, fi: FuncInfo, profile: bool) -> List[Ob]:
    """R02.3 tie zeros, R02.5 auxiliary spikes, R02.6 call roles of the nearest-spike helper."""
    obs: List[Ob] = []
    fn = _fn(fi)
    roles, _ = eng.roles_of(fi)
    if roles is None or not roles.ok:
        return [inconclusive('R02.3', f"{fi.name}: merge idiom established (premise)", fi.loc(), construct=fn)]
    params = [a.arg for a in fi.node.args.args]
    t_start, t_end = params[2], params[3]
    pre, loop, post = _parts(fi)
    arr = {1: roles.arr1, 2: roles.arr2}
    # resolve aliases (t1 = spikes1)
    alias = {}
    for it in pre:
        if it[0] == 'simple' and isinstance(it[1], ast.Assign) and isinstance(it[1].value, ast.Name) and \
                isinstance(it[1].targets[0], ast.Name):
            alias[it[1].targets[0].id] = it[1].value.id
    base = {k: alias.get(arr[k], arr[k]) for k in (1, 2)}
    pro = _paths(eng, fi, pre)
    ts, te = C.atom(('n', t_start)), C.atom(('n', t_end))

    def sub(k, idx):
        return C.atom(('sub', ('n', base[k]), idx))
    N = {k: C.atom(('call', 'len', (C.atom(('n', base[k])),))) for k in (1, 2)}
    # ---- R02.5 auxiliary spikes: arrays of size 2 whose two cells are stored in the prologue
    env0, stores0, _c = pro[0]
    aux = _const_cells_over_paths(pro, _returned_names(fi), [C.mk_cmp('gt', N[1], C.ONE), C.mk_cmp('gt', N[2], C.ONE)])
    found = 0
    for key, cells in sorted(aux.items()):
        if set(cells) != {0, 1}:
            continue
        for k in (1, 2):
            gt1 = C.mk_cmp('gt', N[k], C.ONE)
            last = C.sub(N[k], C.ONE)
            lo = C.atom(('ifexp', gt1, C.mk_minmax('min', [ts, C.sub(C.scale(sub(k, C.ZERO), 2), sub(k, C.ONE))]), ts))
            hi = C.atom(('ifexp', gt1, C.mk_minmax('max', [te, C.sub(C.scale(sub(k, last), 2), sub(k, C.sub(last, C.ONE)))]), te))
            if ('n', base[k]) in C.atoms_of(cells[0]) or ('n', base[k]) in C.atoms_of(cells[1]):
                found += 1
                t = (f"{fi.name} ({fi.path}): auxiliary spikes of train {k} are min(t_start, s[0]-(s[1]-s[0])) and "
                     f"max(t_end, s[N-1]+(s[N-1]-s[N-2])) if N>1, else the edges")
                if cells[0] == lo and cells[1] == hi:
                    obs.append(ok('R02.5', t, fi.loc(), construct=f"{fn}::aux::{k}"))
                else:
                    obs.append(violation('R02.5', t, fi.loc(), key=f"{fn}::aux-spikes::train{k}",
                                         detail=f"lower = {C.show(cells[0])}\nupper = {C.show(cells[1])}"))
    # the same pair kept in two scalars (bound once, in the prologue) and passed to the nearest-spike searches by name
    pair_of: Dict[Tuple[str, str], int] = {}       # spelling of (lower, upper) arguments -> train they belong to
    for key, cells in aux.items():
        if set(cells) == {0, 1}:
            for k in (1, 2):
                if ('n', base[k]) in C.atoms_of(cells[0]) or ('n', base[k]) in C.atoms_of(cells[1]):
                    pair_of[(f"{key}[0]", f"{key}[1]")] = k
    splitters = [C.mk_cmp('gt', N[1], C.ONE), C.mk_cmp('gt', N[2], C.ONE)]
    scalar_vals = scalar_aux_pairs(fi, pro, splitters)
    for pr, vals in scalar_vals.items():
        for k in (1, 2):
            gt1 = C.mk_cmp('gt', N[k], C.ONE)
            last = C.sub(N[k], C.ONE)
            lo = C.atom(('ifexp', gt1, C.mk_minmax('min', [ts, C.sub(C.scale(sub(k, C.ZERO), 2), sub(k, C.ONE))]), ts))
            hi = C.atom(('ifexp', gt1, C.mk_minmax('max', [te, C.sub(C.scale(sub(k, last), 2), sub(k, C.sub(last, C.ONE)))]), te))
            if ('n', base[k]) in C.atoms_of(vals[pr[0]]) or ('n', base[k]) in C.atoms_of(vals[pr[1]]):
                found += 1
                pair_of[pr] = k
                t = (f"{fi.name} ({fi.path}): auxiliary spikes of train {k} are min(t_start, s[0]-(s[1]-s[0])) and "
                     f"max(t_end, s[N-1]+(s[N-1]-s[N-2])) if N>1, else the edges")
                if vals[pr[0]] == lo and vals[pr[1]] == hi:
                    obs.append(ok('R02.5', t, fi.loc(), construct=f"{fn}::aux::{k}"))
                else:
                    obs.append(violation('R02.5', t, fi.loc(), key=f"{fn}::aux-spikes::train{k}",
                                         detail=f"lower = {C.show(vals[pr[0]])}\nupper = {C.show(vals[pr[1]])}"))
    if found != 2:
        obs.append(inconclusive('R02.5', f"{fi.name}: two auxiliary-spike pairs found in the prologue", fi.loc(), f"{found}", construct=fn))
    # ---- R02.6 call roles: every nearest-spike call passes the OTHER train, its cursor (or 0 before the scan) and its aux pair
    helper_names = {h.name for h, _ in eng.helpers} | {p.name for _, p in eng.helpers}
    n_calls = 0
    for n in ast.walk(fi.node):
        if isinstance(n, ast.Call) and isinstance(n.func, ast.Name) and 'min_dist' in n.func.id:
            n_calls += 1
            args = list(n.args)
            if len(args) == 6:      # compiled spelling with explicit length
                ln = args.pop(2)
            else:
                ln = None
            tnode, trn, start, lo, hi = args
            tname = ast.unparse(tnode)
            m = [k for k in (1, 2) if tname.endswith(str(k))]
            t = f"{fi.name} ({fi.path}): nearest-spike search for a time of one train scans the other train, from the other train's cursor, with the other train's auxiliary spikes"
            if not m:
                obs.append(inconclusive('R02.6', t, fi.loc(n), f"time argument `{tname}` has no train suffix", construct=f"{fn}::gmd"))
                continue
            own = m[0]
            oth = 3 - own
            other_arr = arr[oth]
            cur_o = roles.c1 if oth == 1 else roles.c2
            good = isinstance(trn, ast.Name) and trn.id == other_arr and ast.unparse(start) in (cur_o, '0') and \
                pair_of.get((ast.unparse(lo), ast.unparse(hi))) == oth
            if ln is not None:
                good = good and ast.unparse(ln) == (roles.n1 if oth == 1 else roles.n2)
            if good:
                obs.append(ok('R02.6', t, fi.loc(n), construct=f"{fn}::gmd::{n.lineno - fi.node.lineno}"))
            else:
                obs.append(violation('R02.6', t, fi.loc(n), key=f"{fn}::min-dist-call::{ast.unparse(n)}", detail=ast.unparse(n)))
    if n_calls < 8:
        obs.append(inconclusive('R02.6', f"{fi.name}: at least 8 nearest-spike calls found", fi.loc(), f"{n_calls}", construct=fn))
    # ---- R02.8 every nearest-spike distance comes from the search: a variable that holds the result of the nearest-spike
    # helper anywhere in the kernel is, at each of its definitions, such a result, a copy of another such variable, or
    # the literal 0 of a shared spike time.  An arithmetic shortcut (a difference of two particular times) is the
    # distance to ONE spike, not to the nearest one.
    dvars = set()
    for n in ast.walk(fi.node):
        if isinstance(n, ast.Assign) and len(n.targets) == 1 and isinstance(n.targets[0], ast.Name) and isinstance(n.value, ast.Call) \
                and isinstance(n.value.func, ast.Name) and 'min_dist' in n.value.func.id:
            dvars.add(n.targets[0].id)
    grew = True
    while grew:                 # a local that is copied INTO such a variable holds such a distance too
        grew = False
        for n in ast.walk(fi.node):
            if isinstance(n, ast.Assign) and len(n.targets) == 1 and isinstance(n.targets[0], ast.Name) and isinstance(n.value, ast.Name) \
                    and n.targets[0].id in dvars and n.value.id not in dvars and n.value.id not in params:
                dvars.add(n.value.id)
                grew = True
    for n in ast.walk(fi.node):
        if not (isinstance(n, (ast.Assign, ast.AugAssign, ast.AnnAssign))):
            continue
        tg = n.targets[0] if isinstance(n, ast.Assign) and len(n.targets) == 1 else getattr(n, 'target', None)
        if not (isinstance(tg, ast.Name) and tg.id in dvars) or getattr(n, 'value', None) is None:
            continue
        v = n.value
        t = (f"{fi.name} ({fi.path}): `{tg.id}` (a distance to the nearest spike of the other train) is defined by the nearest-spike "
             f"search, a copy of such a distance, or 0 at a shared spike time")
        if isinstance(n, ast.Assign) and ((isinstance(v, ast.Call) and isinstance(v.func, ast.Name) and 'min_dist' in v.func.id)
                                          or (isinstance(v, ast.Name) and v.id in dvars)
                                          or (isinstance(v, ast.Constant) and v.value in (0, 0.0) and not isinstance(v.value, bool))):
            obs.append(ok('R02.8', t, fi.loc(n), construct=f"{fn}::dist-def::{tg.id}::{n.lineno - fi.node.lineno}"))
        elif isinstance(n, ast.Assign) and isinstance(v, ast.Call):
            obs.append(inconclusive('R02.8', t, fi.loc(n), f"`{ast.unparse(n)[:100]}`: unknown routine", construct=f"{fn}::dist-def::{tg.id}"))
        else:
            obs.append(violation('R02.8', t, fi.loc(n), key=f"{fn}::dist-def::{tg.id}::{ast.unparse(v)[:60]}",
                                 detail=f"`{ast.unparse(n)[:120]}` computes the distance to one particular spike without the search"))
    # ---- R02.4 inter-spike interval of a train at the edges (same rule as the ISI kernels, R01.4): on every prologue
    # path and on every loop path on which a train steps onto its last spike, some local holds the edge-corrected
    # interval.  Values are compared on the path: conditional expressions are resolved by the path conditions, the
    # cursor is pinned to N-1 on a last-spike path, `s[0]` equals `t_start` on an on-edge path (valid trains), and
    # max(0, d) is d for a difference d of later and earlier times.
    def simp(tm, conds, facts):
        tm = C.resolve_ifexp(C.subst_atoms(tm, facts), [C.subst_atoms(c_, facts) if False else c_ for c_ in conds])
        tm = C.subst_atoms(tm, facts)

        def f(a):
            if a[0] == 'max' and C.ZERO in a[1] and len(a[1]) == 2:
                other = [x for x in a[1] if x != C.ZERO][0]
                its = other[1] if C.is_poly(other) else ()
                # a difference `later - earlier`: one atom with +1, one with -1
                if len(its) == 2 and sorted(c_ for _, c_ in its) == [-1, 1]:
                    return other
            return None
        return C.rebuild(tm, f)

    def holds_somewhere(env, want, conds, facts, split=None) -> Tuple[bool, List[str]]:
        """some local equals `want` on this path - compared separately under `split` and under its negation when the
        path does not decide it (a value `a if c else b` and a value computed from such parts then agree case by case)"""
        cases = [list(conds)]
        if split is not None and split not in conds and C.mk_not(split) not in conds:
            cases = [list(conds) + [split], list(conds) + [C.mk_not(split)]]
        seen = []
        for nm, v in env.vals.items():
            if not C.is_poly(v) or C.is_const(v):
                continue
            if all(simp(C.to_poly(v), cs, facts) == simp(want, cs, facts) for cs in cases):
                return True, []
            g = simp(C.to_poly(v), cases[0], facts)
            if ('n', t_end) in C.atoms_of(g) or ('n', t_start) in C.atoms_of(g):
                seen.append(f"{nm} = {C.show(g)}")
        return False, seen[:6]
    for n_path, (env, stores, conds) in enumerate(pro):
        if C.contradictory(conds):
            continue
        for k in (1, 2):
            gt1 = C.mk_cmp('gt', N[k], C.ONE)
            first_c = C.mk_cmp('gt', sub(k, C.ZERO), ts)
            d10 = C.sub(sub(k, C.ONE), sub(k, C.ZERO))
            if first_c in conds:
                want = C.atom(('ifexp', gt1, C.mk_minmax('max', [C.sub(sub(k, C.ZERO), ts), d10]), C.sub(sub(k, C.ZERO), ts)))
                facts = {}
                what = f"first interval of train {k} when its first spike lies after t_start: max(s[0]-t_start, s[1]-s[0]) if N>1 else s[0]-t_start"
            elif C.mk_not(first_c) in conds:
                want = C.atom(('ifexp', gt1, d10, C.sub(te, sub(k, C.ZERO))))
                facts = {C.single_atom(ts): sub(k, C.ZERO)}       # s[0] == t_start on this path
                what = f"first interval of train {k} when its first spike sits on t_start: s[1]-s[0] if N>1 else t_end-s[0]"
            else:
                continue
            good, seen = holds_somewhere(env, want, conds, facts, gt1)
            t = f"{fi.name} ({fi.path}): {what} (prologue path {n_path})"
            if good:
                obs.append(ok('R02.4', t, fi.loc(), construct=f"{fn}::isi-init::{k}::{n_path}"))
            else:
                obs.append(violation('R02.4', t, fi.loc(), key=f"{fn}::spike-isi-init::train{k}::{'first' if first_c in conds else 'edge'}",
                                     detail=f"no local holds {C.show(simp(want, conds, facts))} on the path {_cond_txt(conds)}; "
                                            f"candidates: {seen}"))
    # ---- R02.3 tie branch
    body = loop[2]
    seed_l = _env_for(Side(fi))
    seed_l.call_adapters = eng._adapters([], 'spec')
    for a_, b_ in alias.items():
        seed_l.vals[a_] = C.atom(('n', b_))          # `t1 = spikes1` aliases of the prologue
    lp = _paths(eng, fi, body, seed_l)
    ret = _returned_names(fi)
    for n_path, (env, stores, conds) in enumerate(lp):
        if C.contradictory(conds):
            continue
        for k, cur in ((1, roles.c1), (2, roles.c2)):
            if C.to_poly(env.get(cur)) == C.atom(('n', cur)):
                continue            # train k does not advance on this path
            cnew = C.add(C.atom(('n', cur)), C.ONE)
            nname = roles.n1 if k == 1 else roles.n2
            Nk = C.atom(('n', nname))
            not_last = C.mk_cmp('lt', cnew, C.sub(Nk, C.ONE))
            if not_last in conds:
                continue
            if C.mk_not(not_last) not in conds:
                # the advance is not followed by a visible `cursor < N-1` test (e.g. hidden in a helper): undecided here
                obs.append(inconclusive('R02.4', f"{fi.name}: the advance of train {k} is followed by the `cursor < N-1` test "
                                        f"(loop path {n_path})", fi.loc(loop[-1]), construct=f"{fn}::isi-last::{k}::{n_path}"))
                continue
            gt1 = C.mk_cmp('gt', Nk, C.ONE)
            last = C.sub(Nk, C.ONE)
            e_dist = C.sub(te, sub(k, last))
            want = C.atom(('ifexp', gt1, C.mk_minmax('max', [e_dist, C.sub(sub(k, last), sub(k, C.sub(last, C.ONE)))]), e_dist))
            facts = {('n', cur): C.sub(Nk, C.const(2)), C.single_atom(N[k]): Nk}
            good, seen = holds_somewhere(env, want, conds, facts, gt1)
            t = (f"{fi.name} ({fi.path}): when train {k} steps onto its last spike its interval becomes "
                 f"max(t_end-s[N-1], s[N-1]-s[N-2]) if N>1 else t_end-s[N-1] (loop path {n_path})")
            if good:
                obs.append(ok('R02.4', t, fi.loc(loop[-1]), construct=f"{fn}::isi-last::{k}::{n_path}"))
            else:
                obs.append(violation('R02.4', t, fi.loc(loop[-1]), key=f"{fn}::spike-isi-last::train{k}::path{n_path}",
                                     detail=f"no local holds {C.show(simp(want, conds, facts))} on the path {_cond_txt(conds)}; "
                                            f"candidates: {seen}"))
    for n_path, (env, stores, conds) in enumerate(lp):
        both = C.to_poly(env.get(roles.c1)) != C.atom(('n', roles.c1)) and C.to_poly(env.get(roles.c2)) != C.atom(('n', roles.c2))
        if not both:
            continue
        t = f"{fi.name} ({fi.path}): where both trains spike together the profile is 0 on both sides of the breakpoint (path {n_path})"
        if profile:
            vals = [r[2] for k, r in stores if k in ret[1:] and r[0] == 'store']
            good = len(vals) == 2 and all(v == C.ZERO for v in vals)
            detail = str([C.show(v) for v in vals])
        else:
            # single pass: the end value used for the finished piece and the start value of the next are literal 0
            zeros = [nm for nm, v in env.vals.items() if v == C.ZERO and nm.startswith('y')]
            good = len(zeros) >= 1
            detail = f"zeroed: {zeros}"
        if good:
            obs.append(ok('R02.3', t, fi.loc(loop[-1]), construct=f"{fn}::tie::{n_path}"))
        else:
            obs.append(violation('R02.3', t, fi.loc(loop[-1]), key=f"{fn}::tie-zero::path{n_path}", detail=detail))
    return obs


# ======================================================================================
# discrete kernels: constants, leader table, bounded by multiplicity
# ======================================================================================
def discrete_spec(eng: SiblingEngine, fi: FuncInfo, kind: str) -> List[Ob]:
    """kind: 'sync' | 'order' | 'dir' (profile kernels) | 'sync1' | 'order1' | 'dir1' (single-pass)."""
    obs: List[Ob] = []
    fn = _fn(fi)
    roles, _ = eng.roles_of(fi)
    if roles is None or not roles.ok:
        return [inconclusive('R03.3', f"{fi.name}: merge idiom established (premise)", fi.loc(), construct=fn)]
    pre, loop, post = _parts(fi)
    lp = _paths(eng, fi, loop[2])
    ret = _returned_names(fi)
    kinds = _alloc_kinds(fi)
    c1, c2 = roles.c1, roles.c2
    rule_c = 'R03.3' if kind.startswith('sync') else 'R04.2'
    for n_path, (env, stores, conds) in enumerate(lp):
        a1 = C.to_poly(env.get(c1)) != C.atom(('n', c1))
        a2 = C.to_poly(env.get(c2)) != C.atom(('n', c2))
        branch = 'tie' if (a1 and a2) else ('A' if a1 else 'B')
        # is this the coincident sub-path?  a strict test against tau among the path conditions
        flat = []
        for c in conds:
            flat.extend(c[1] if c[0] == 'and' else [c])
        coincident = any(c[0] == 'cmp' and c[1] == 'lt' and any(a[0] == 'n' and a[1].startswith('tau') or
                         (a[0] == 'call' and a[1] == 'get_tau') for a in C.atoms_of(c[2])) for c in flat)
        consts: Dict[str, List[Tuple[str, C.Term]]] = {}
        for key, r in stores:
            if r[0] == 'store' and C.is_poly(r[2]) and C.is_const(r[2]):
                consts.setdefault(key, []).append((C.show(r[1]), r[2]))
        incs = {nm: C.sub(C.to_poly(v), C.atom(('n', nm))) for nm, v in env.vals.items()
                if nm not in (c1, c2) and C.is_poly(v) and C.is_const(C.sub(C.to_poly(v), C.atom(('n', nm))))}
        ptxt = f"branch {branch}{' coincident' if coincident else ''} (path {n_path})"

        def req(rule, title, good, detail, keypart):
            if good:
                obs.append(ok(rule, f"{fi.name} ({fi.path}): {title} [{ptxt}]", fi.loc(loop[-1]), construct=f"{fn}::{keypart}::{n_path}"))
            else:
                obs.append(violation(rule, f"{fi.name} ({fi.path}): {title} [{ptxt}]", fi.loc(loop[-1]),
                                     key=f"{fn}::{keypart}::{branch}{'-coinc' if coincident else ''}", detail=detail))
        vals = {k: [float(C.const_value(v)) for _, v in lst] for k, lst in consts.items()}
        if kind == 'sync':
            carr, mparr = ret[1], ret[2]
            if branch == 'tie':
                req('R03.3', 'a shared spike time is one event with value 2 and multiplicity 2',
                    vals.get(carr) == [2.0] and vals.get(mparr) == [2.0], str(vals), 'tie')
            elif coincident:
                req('R03.3', 'a coincidence marks the current and the previous event with 1',
                    vals.get(carr) == [1.0, 1.0] and mparr not in vals, str(vals), 'coinc')
            else:
                req('R03.3', 'a non-coincident spike stores no mark (value 0, multiplicity 1 from the allocation)',
                    carr not in vals and mparr not in vals and kinds.get(carr) == 'zeros' and kinds.get(mparr) == 'ones', str(vals), 'plain')
            # R07.3: entry <= multiplicity
            mx = max(vals.get(carr, [0.0]))
            mpv = max(vals.get(mparr, [1.0]))
            req('R07.3', 'every stored coincidence value is between 0 and the multiplicity of its entry', 0 <= mx <= mpv, str(vals), 'bounded')
        elif kind == 'order':
            aarr, mparr = ret[1], ret[2]
            if branch == 'tie':
                req('R04.2', 'simultaneous spikes are one event with value 0 and multiplicity 2',
                    vals.get(aarr, [0.0]) == [0.0] and vals.get(mparr) == [2.0], str(vals), 'tie')
            elif coincident:
                want = -1.0 if branch == 'A' else 1.0     # branch A: train 1's spike is the later one -> train 1 follows -> -1
                req('R04.2', f"coincident pair gets {'+1' if want > 0 else '-1'} on both entries (first train {'leads' if want > 0 else 'follows'})",
                    vals.get(aarr) == [want, want], str(vals), 'coinc')
            else:
                req('R04.2', 'a non-coincident spike stores nothing (value 0)', aarr not in vals and kinds.get(aarr) == 'zeros', str(vals), 'plain')
            mx = max([abs(x) for x in vals.get(aarr, [0.0])])
            mpv = max(vals.get(mparr, [1.0]))
            req('R07.3', 'every stored order value lies between -multiplicity and +multiplicity', mx <= mpv, str(vals), 'bounded')
        elif kind == 'dir':
            d1, d2 = ret[0], ret[1]
            if branch == 'tie':
                req('R04.2', 'simultaneous spikes get 0 in both trains', vals.get(d1, [0.0]) == [0.0] and vals.get(d2, [0.0]) == [0.0], str(vals), 'tie')
            elif coincident:
                w1 = -1.0 if branch == 'A' else 1.0
                req('R04.2', f"the leading spike gets +1 and the following spike -1 (train 1 {'follows' if w1 < 0 else 'leads'})",
                    vals.get(d1) == [w1] and vals.get(d2) == [-w1], str(vals), 'coinc')
            else:
                req('R04.2', 'a non-coincident spike stores nothing (value 0)', d1 not in vals and d2 not in vals, str(vals), 'plain')
        elif kind in ('sync1', 'order1', 'dir1'):
            inc = {k: float(C.const_value(v)) for k, v in incs.items() if C.const_value(v) != 0}
            acc = ret[0]
            if kind == 'sync1':
                mpn = ret[1]
                if branch == 'tie':
                    req('R03.3', 'a shared spike time adds 2 coincidences and multiplicity 2', inc.get(acc) == 2 and inc.get(mpn) == 2, str(inc), 'tie')
                elif coincident:
                    req('R03.3', 'a coincidence adds 2 (both spikes) and multiplicity 1 for the current spike', inc.get(acc) == 2 and inc.get(mpn) == 1, str(inc), 'coinc')
                else:
                    req('R03.3', 'a non-coincident spike adds multiplicity 1 only', acc not in inc and inc.get(mpn) == 1, str(inc), 'plain')
            elif kind == 'order1':
                mpn = ret[1]
                if branch == 'tie':
                    req('R04.2', 'simultaneous spikes add multiplicity 2 and no order', acc not in inc and inc.get(mpn) == 2, str(inc), 'tie')
                elif coincident:
                    want = -2.0 if branch == 'A' else 2.0
                    req('R04.2', f"a coincident pair adds {want:+.0f} (both spikes; first train {'follows' if want < 0 else 'leads'})",
                        inc.get(acc) == want and inc.get(mpn) == 1, str(inc), 'coinc')
                else:
                    req('R04.2', 'a non-coincident spike adds multiplicity 1 only', acc not in inc and inc.get(mpn) == 1, str(inc), 'plain')
            else:
                if branch == 'tie' or not coincident:
                    req('R04.2', 'no contribution without a coincidence', acc not in inc, str(inc), 'plain')
                else:
                    want = -1.0 if branch == 'A' else 1.0
                    req('R04.2', f"a coincidence adds {want:+.0f} for train 1 ({'follows' if want < 0 else 'leads'})", inc.get(acc) == want, str(inc), 'coinc')
    # ---- framing of discrete profile kernels (R03.3 edges, R18.5)
    if kind in ('sync', 'order'):
        obs.extend(_discrete_framing(eng, fi, post, ret, roles))
    return obs


def _discrete_framing(eng, fi, post, ret, roles) -> List[Ob]:
    obs: List[Ob] = []
    fn = _fn(fi)
    params = [a.arg for a in fi.node.args.args]
    t_start, t_end = params[2], params[3]
    paths = _paths(eng, fi, [it for it in post if it[0] != 'return'], returns=True)
    st, va, mp = ret[0], ret[1], ret[2]
    for n_path, (env, stores, conds) in enumerate(paths):
        # trimming: every returned array is the prefix [0, counter+2) of the array the scan filled - framing entry 0, the
        # `counter` events recorded in the loop, framing entry counter+1 - with one counter for all three
        t = (f"{fi.name} ({fi.path}): the returned arrays are the prefixes [:counter+2] of the scanned arrays: the start entry, every "
             f"event recorded by the scan, the end entry (path {n_path})")
        uppers = []
        good = True
        ret_item = env.returned or next((it for it in post if it[0] == 'return'), None)
        ret_elts = list(ret_item[1].elts) if ret_item is not None and isinstance(ret_item[1], ast.Tuple) else []
        finals = {}
        for k_, r in enumerate(ret[:3]):
            v = env.get(r)
            if k_ < len(ret_elts):
                # the trimming may be part of the return expression (`return st[:last+1], ...`)
                try:
                    v = C.canon_expr(ret_elts[k_], env)
                except C.CanonError:
                    v = None
            finals[r] = v
        for r in ret[:3]:
            v = finals[r]
            sa = C.single_atom(v) if v is not None and C.is_poly(v) else None
            if not (sa is not None and sa[0] == 'sub' and sa[1] == ('n', r) and isinstance(sa[2], tuple) and sa[2] and sa[2][0] == 'slice'
                    and (sa[2][1] is None or sa[2][1] == C.ZERO) and sa[2][2] is not None and (len(sa[2]) < 4 or sa[2][3] is None)):
                good = False
                continue
            uppers.append(sa[2][2])
        if good and len(set(uppers)) == 1:
            cnt = C.sub(uppers[0], C.const(2))
            good = C.single_atom(cnt) is not None and C.single_atom(cnt)[0] == 'n'
        else:
            good = False
        if good:
            obs.append(ok('R03.6', t, fi.loc(), construct=f"{fn}::trim::{n_path}"))
        else:
            obs.append(violation('R03.6', t, fi.loc(), key=f"{fn}::trim::{'|'.join(C.show(finals[r])[:40] if finals[r] is not None and C.is_poly(finals[r]) else '?' for r in ret[:3])}",
                                 detail='; '.join(f"{r} = {C.show(finals[r]) if finals[r] is not None and C.is_poly(finals[r]) else '?'}" for r in ret[:3])))
        nonempty = any(c[0] == 'cmp' and c[1] == 'lt' for c in conds)   # N1+N2 > 0  ==  -(N1+N2) < 0
        byarr: Dict[str, List[tuple]] = {}
        for key, r in stores:
            base = key.split('[')[0]
            byarr.setdefault(base, []).append(r)
        # time axis
        tst = byarr.get(st, [])
        t = f"{fi.name} ({fi.path}): the two framing entries of the time axis are t_start and t_end (path {n_path})"
        ok_t = len(tst) == 2 and tst[0][1] == C.ZERO and tst[0][2] == C.atom(('n', t_start)) and tst[1][2] == C.atom(('n', t_end))
        if ok_t:
            obs.append(ok('R18.5', t, fi.loc(), construct=f"{fn}::frame-time::{n_path}"))
        else:
            obs.append(violation('R18.5', t, fi.loc(), key=f"{fn}::frame-time::path{n_path}",
                                 detail=str([(C.show(r[1]), C.show(r[2])) for r in tst])))
        vst, mst = byarr.get(va, []), byarr.get(mp, [])
        t = (f"{fi.name} ({fi.path}): edge entries of value and multiplicity are copies of their neighbours when there are spikes; "
             f"with no spikes at all the edge values are the literal 1 (path {n_path})")
        if nonempty:
            good = len(vst) == 2 and len(mst) == 2 and all(_is_neighbour_copy(r) for r in vst + mst)
        else:
            good = len(vst) == 2 and all(C.is_poly(r[2]) and r[2] == C.ONE for r in vst) and not mst
        if good:
            obs.append(ok('R03.3', t, fi.loc(), construct=f"{fn}::frame-values::{n_path}"))
        else:
            obs.append(violation('R03.3', t, fi.loc(), key=f"{fn}::frame-values::{'nonempty' if nonempty else 'empty'}",
                                 detail=str([(C.show(r[1]), C.show(r[2])) for r in vst + mst])))
    return obs


def _is_neighbour_copy(r) -> bool:
    """store a[0] = a[1]  or  a[len-1] = a[len-2]"""
    if r[0] != 'store' or not C.is_poly(r[2]):
        return False
    sa = C.single_atom(r[2])
    if sa is None or sa[0] != 'sub':
        return False
    d = C.sub(C.to_poly(sa[2]), r[1])
    return C.is_const(d) and abs(C.const_value(d)) == 1


# ======================================================================================
# written extent (R18.3) and guarded constant subscripts (R18.2)
# ======================================================================================
def written_extent(eng: SiblingEngine, fi: FuncInfo, rule: str = 'R18.3', length_delta: Optional[int] = 1) -> List[Ob]:
    """For kernels that allocate their results with np.empty: along every prologue / loop-body / epilogue path the
    stores extend a contiguous written prefix; every returned slice ends inside it; returned lengths are related
    as the function classes require (breakpoints = values + length_delta)."""
    obs: List[Ob] = []
    fn = _fn(fi)
    kinds = _alloc_kinds(fi)
    ret = _returned_names(fi)
    arrays = [r for r in ret if kinds.get(r) == 'empty']
    if not arrays:
        return obs
    pre, loop, post = _parts(fi)
    lens = {}
    roles, _ = eng.roles_of(fi)
    side = Side(fi, label=fi.name)
    side.call_adapters = eng._adapters([], rule)
    fam = eng.family_of(fi)
    from .rules_siblings import add_kernel_lens, _lens_for
    if fam is not None:
        rel = add_kernel_lens(fam)
        if rel:
            side.lens = _lens_for(fi, rel, {})
    pe = PathExec(side)

    def env0():
        e = Env()
        e.call_adapters = side.call_adapters
        for nm, f in side.lens.items():
            e.lens[('n', nm)] = f(e)
        # once-assigned length names of the function (`N = len(x)` at its top level) are known in every part
        for st in fi.node.body:
            if isinstance(st, ast.Assign) and len(st.targets) == 1 and isinstance(st.targets[0], ast.Name) \
                    and isinstance(st.value, ast.Call) and isinstance(st.value.func, ast.Name) and st.value.func.id == 'len' \
                    and sum(1 for n in ast.walk(fi.node) if isinstance(n, ast.Name) and n.id == st.targets[0].id
                            and isinstance(n.ctx, ast.Store)) == 1:
                try:
                    e.vals[st.targets[0].id] = C.canon_expr(st.value, e)
                except C.CanonError:
                    pass
        return e

    def apply(stores, W: Dict[str, Optional[Tuple[C.Term, C.Term]]], where: str) -> Optional[str]:
        """W[array] = (lo, hi): cells [lo, hi) are written (None: nothing yet)."""
        for key, r in stores:
            if key not in W:
                continue
            if r[0] == 'store':
                p, n = r[1], C.ONE
            else:
                p, n = C.subst_atoms(r[2], {('n', '%K'): C.ZERO}), r[1]
            if W[key] is None:
                W[key] = (p, C.add(p, n))
                continue
            lo, hi = W[key]
            if C.sub(p, hi) == C.ZERO:
                W[key] = (lo, C.add(hi, n))
            elif C.sub(C.add(p, n), lo) == C.ZERO:
                W[key] = (p, hi)
            else:
                d_lo, d_hi = C.sub(p, lo), C.sub(C.add(p, n), hi)
                inside = C.is_const(d_lo) and C.const_value(d_lo) >= 0 and C.is_const(d_hi) and C.const_value(d_hi) <= 0
                if inside:
                    continue
                if C.is_const(d_lo) and C.const_value(d_lo) >= 0 and C.is_const(C.sub(p, hi)) and C.const_value(C.sub(p, hi)) < 0 \
                        and C.is_const(d_hi) and C.const_value(d_hi) > 0:
                    W[key] = (lo, C.add(p, n))       # overlapping extension
                    continue
                return (f"{where}: store into {key} at [{C.show(p)}, {C.show(C.add(p, n))}) is not adjacent to the written "
                        f"cells [{C.show(lo)}, {C.show(hi)})")
        return None

    pro = list(pe.paths(pre, env0(), [], []))
    problems: List[str] = []
    W0 = None
    pro_env = None
    for env, stores, conds in pro:
        W = {a: None for a in arrays}
        pb = apply(stores, W, 'prologue')
        if pb:
            problems.append(pb)
        if W0 is None:
            W0, pro_env = W, env
        elif W != W0:
            problems.append('prologue paths leave different written cells')
    if W0 is None:
        return [inconclusive(rule, f"{fi.name}: prologue paths found", fi.loc(), construct=fn)]
    body = loop[2]
    lp = list(pe.paths(body, env0(), [], []))
    idx_names: Set[str] = set()
    first_pos: Dict[str, C.Term] = {}
    for env, stores, conds in lp:
        for key, r in stores:
            if key in arrays:
                pos = r[1] if r[0] == 'store' else C.subst_atoms(r[2], {('n', '%K'): C.ZERO})
                idx_names |= C.names_of(pos)
                first_pos.setdefault(key, pos)
    idx_names = {n for n in idx_names if n in assigned_names(body) and n != '%K'}
    cands = [n for n in idx_names if all(C.is_const(C.sub(C.to_poly(env.get(n)), C.atom(('n', n)))) for env, _s, _c in lp)]
    counter = None
    for n in sorted(cands):
        if all(a in first_pos and C.is_const(C.sub(first_pos[a], C.atom(('n', n)))) for a in arrays):
            counter = n
    if counter is None:
        return [inconclusive(rule, f"{fi.name}: output position counter identified", fi.loc(), f"candidates {sorted(idx_names)}", construct=fn)]
    c0 = C.to_poly(pro_env.get(counter))
    off = {a: C.sub(first_pos[a], C.atom(('n', counter))) for a in arrays}
    lo: Dict[str, C.Term] = {}
    for a in arrays:
        if W0[a] is None:
            lo[a] = C.add(c0, off[a])                # nothing written yet: empty interval at loop entry
        else:
            lo[a] = W0[a][0]
            if W0[a][1] != C.add(c0, off[a]):
                problems.append(f"prologue leaves {a} written up to {C.show(W0[a][1])} but the first loop store goes to "
                                f"{C.show(C.add(c0, off[a]))}")
    t = (f"{fi.name} ({fi.path}): loop invariant `cells [lo, {counter} + c) of each result array are written` is established by the "
         f"prologue and preserved by every path of the loop body")
    for n_path, (env, stores, conds) in enumerate(lp):
        W = {a: (lo[a], C.add(C.atom(('n', counter)), off[a])) for a in arrays}
        pb = apply(stores, W, f'loop path {n_path}')
        if pb:
            problems.append(pb)
            continue
        cout = C.to_poly(env.get(counter))
        for a in arrays:
            if W[a] != (lo[a], C.add(cout, off[a])):
                problems.append(f"loop path {n_path}: after the iteration {a} is written on [{C.show(W[a][0])}, {C.show(W[a][1])}) but "
                                f"the invariant needs [{C.show(lo[a])}, {C.show(C.add(cout, off[a]))})")
    if problems:
        obs.append(violation(rule, t, fi.loc(loop[-1]), key=f"{fn}::extent::invariant::{problems[0][:80]}", detail='\n'.join(problems[:4])))
        return obs
    obs.append(ok(rule, t, fi.loc(loop[-1]), construct=f"{fn}::extent::invariant",
                  detail=f"hi = {counter} + {{{', '.join(f'{a}: {C.show(o)}' for a, o in off.items())}}}; {len(lp)} loop paths"))
    epi_items = [it for it in post if it[0] != 'return']
    ret_top = next((it for it in post if it[0] == 'return'), None)
    pe.returns = True
    epi_paths = list(pe.paths(epi_items, env0(), [], []))
    pe.returns = False
    if any(env.returned is None for env, _s, _c in epi_paths) and ret_top is None:
        return obs + [inconclusive(rule, f"{fi.name}: return statement after the loop", fi.loc(), construct=fn)]
    for n_path, (env, stores, conds) in enumerate(epi_paths):
        ret_item = env.returned or ret_top
        W = {a: (lo[a], C.add(C.atom(('n', counter)), off[a])) for a in arrays}
        pb = apply(stores, W, f'epilogue path {n_path}')
        t2 = f"{fi.name} ({fi.path}): every returned slice lies inside the written cells (epilogue path {n_path}: {_cond_txt(conds)})"
        if pb:
            obs.append(violation(rule, t2, fi.loc(ret_item[-1]), key=f"{fn}::extent::epilogue-gap::{n_path}", detail=pb))
            continue
        rv = C.canon_expr(ret_item[1], env)
        sa = C.single_atom(rv) if C.is_poly(rv) else rv
        comps = list(sa[1]) if sa is not None and sa[0] == 'tuple' else [rv]
        uppers: Dict[str, C.Term] = {}
        bad = []
        for comp in comps:
            ca = C.single_atom(comp) if C.is_poly(comp) else comp
            if ca is None or ca[0] != 'sub' or not (isinstance(ca[2], tuple) and ca[2] and ca[2][0] == 'slice'):
                continue
            root = ca[1]
            if root[0] != 'n' or root[1] not in arrays:
                continue
            hi = ca[2][2]
            uppers[root[1]] = hi
            wl, wh = W[root[1]]
            d = C.sub(hi, wh)
            if not (C.is_const(d) and C.const_value(d) <= 0):
                bad.append(f"{root[1]}[:{C.show(hi)}] but written up to {C.show(wh)}")
            if wl != C.ZERO:
                bad.append(f"{root[1]}[0:...] returned but cells below {C.show(wl)} were never written")
        if bad:
            obs.append(violation(rule, t2, fi.loc(ret_item[-1]), key=f"{fn}::extent::unwritten-returned::{bad[0][:60]}", detail='; '.join(bad)))
        else:
            obs.append(ok(rule, t2, fi.loc(ret_item[-1]), construct=f"{fn}::extent::return::{n_path}"))
        if length_delta is not None and len(uppers) >= 2:
            first = uppers.get(ret[0])
            t3 = (f"{fi.name} ({fi.path}): returned breakpoint array is {length_delta} longer than each value array"
                  if length_delta else f"{fi.name} ({fi.path}): returned arrays have equal length") + f" (epilogue path {n_path})"
            good = first is not None and all(C.sub(first, u) == C.const(length_delta) for a, u in uppers.items() if a != ret[0])
            if good:
                obs.append(ok(rule, t3, fi.loc(ret_item[-1]), construct=f"{fn}::extent::lengths::{n_path}"))
            else:
                obs.append(violation(rule, t3, fi.loc(ret_item[-1]), key=f"{fn}::extent::length-relation",
                                     detail=str({a: C.show(u) for a, u in uppers.items()})))
    return obs


def guarded_subscripts(fi: FuncInfo, rule: str = 'R18.2', arrays: Optional[Set[str]] = None) -> List[Ob]:
    """a subscript `s[1]`, `s[N-2]`, `s[-2]` of a spike array is inside the N>1 side of a test on that array's length"""
    obs: List[Ob] = []
    fn = _fn(fi)
    lens: Dict[str, str] = {}     # length var -> array
    for n in ast.walk(fi.node):
        if isinstance(n, ast.Assign) and isinstance(n.targets[0], ast.Name) and isinstance(n.value, ast.Call) and \
                isinstance(n.value.func, ast.Name) and n.value.func.id == 'len' and isinstance(n.value.args[0], ast.Name):
            lens[n.targets[0].id] = n.value.args[0].id
    arr_len = {a: l for l, a in lens.items()}
    # aliases (t1 = spikes1)
    for n in ast.walk(fi.node):
        if isinstance(n, ast.Assign) and isinstance(n.targets[0], ast.Name) and isinstance(n.value, ast.Name) and n.value.id in arr_len:
            arr_len[n.targets[0].id] = arr_len[n.value.id]
    for a in list(arr_len):
        pass
    par = {}
    for n in ast.walk(fi.node):
        for c in ast.iter_child_nodes(n):
            par[c] = n

    def needs_two(sub: ast.Subscript) -> bool:
        s = sub.slice
        if isinstance(s, ast.Constant) and isinstance(s.value, int) and (s.value >= 1 or s.value <= -2):
            return True
        if isinstance(s, ast.UnaryOp) and isinstance(s.op, ast.USub) and isinstance(s.operand, ast.Constant) and s.operand.value >= 2:
            return True
        if isinstance(s, ast.BinOp) and isinstance(s.op, ast.Sub) and isinstance(s.left, ast.Name) and s.left.id in lens and \
                isinstance(s.right, ast.Constant) and s.right.value == 2:
            return True
        return False

    def guard_ok(node, arr) -> bool:
        ln = arr_len.get(arr)
        cur = node
        facts: Set[str] = set()
        while cur in par:
            p = par[cur]
            test = None
            pos = None
            if isinstance(p, ast.IfExp):
                test = p.test
                pos = 'body' if cur is p.body else ('orelse' if cur is p.orelse else None)
            elif isinstance(p, ast.If):
                test = p.test
                pos = 'body' if any(cur is s for s in p.body) else ('orelse' if any(cur is s for s in p.orelse) else None)
            if test is not None and pos:
                # N > 1  /  len(a) > 1 : body ;  N == 1 / N < 2: orelse
                try:
                    c = C.canon_cond(test, Env())
                except C.CanonError:
                    c = None
                names = [ln] if ln else []
                for nm in names:
                    gt = C.mk_cmp('gt', C.atom(('n', nm)), C.ONE)
                    if c == gt and pos == 'body':
                        return True
                    if c == C.mk_not(gt) and pos == 'orelse':
                        return True
                    # `N != 1` together with `N > 0` (two nested tests) is `N > 1`
                    L_ = C.atom(('n', nm))
                    if (c == C.mk_cmp('eq', L_, C.ONE) and pos == 'orelse') or (c == C.mk_cmp('ne', L_, C.ONE) and pos == 'body'):
                        facts.add('ne1')
                    if (c == C.mk_cmp('gt', L_, C.ZERO) and pos == 'body') or (c == C.mk_cmp('eq', L_, C.ZERO) and pos == 'orelse') \
                            or (c == C.mk_cmp('ne', L_, C.ZERO) and pos == 'body'):
                        facts.add('pos')
                    if facts >= {'ne1', 'pos'}:
                        return True
                if ln is None:
                    glen = C.mk_cmp('gt', C.atom(('call', 'len', (C.atom(('n', arr)),))), C.ONE)
                    if c == glen and pos == 'body':
                        return True
            # an earlier statement of an enclosing block leaves the function when the train has a single spike:
            # `if N == 1: ... return` (also `N < 2`, `N <= 1`)
            for fld in ('body', 'orelse'):
                blk = getattr(p, fld, None)
                if isinstance(blk, list) and any(cur is s_ for s_ in blk):
                    k_ = [i_ for i_, s_ in enumerate(blk) if s_ is cur][0]
                    for s_ in blk[:k_]:
                        if isinstance(s_, ast.If) and s_.body and isinstance(s_.body[-1], (ast.Return, ast.Raise)):
                            try:
                                c_ = C.canon_cond(s_.test, Env())
                            except C.CanonError:
                                continue
                            L_ = C.atom(('n', ln)) if ln else C.atom(('call', 'len', (C.atom(('n', arr)),)))
                            if c_ in (C.mk_cmp('eq', L_, C.ONE), C.mk_cmp('lt', L_, C.const(2)), C.mk_cmp('le', L_, C.ONE),
                                      C.mk_not(C.mk_cmp('gt', L_, C.ONE))):
                                return True
            cur = p
        return False
    for n in ast.walk(fi.node):
        if isinstance(n, ast.Subscript) and isinstance(n.value, ast.Name) and isinstance(n.ctx, ast.Load):
            arr = n.value.id
            if arrays is not None and arr not in arrays:
                continue
            if arrays is None and arr not in arr_len:
                continue
            if not needs_two(n):
                continue
            t = f"{fi.name} ({fi.path}): `{ast.unparse(n)}` (needs at least two spikes) is only evaluated under `N > 1` for that train"
            if guard_ok(n, arr):
                obs.append(ok(rule, t, fi.loc(n), construct=f"{fn}::sub::{ast.unparse(n)}::{n.lineno - fi.node.lineno}"))
            else:
                obs.append(violation(rule, t, fi.loc(n), key=f"{fn}::unguarded-subscript::{ast.unparse(n)}",
                                     detail="raises IndexError (or reads a wrong element) for a one-spike train"))
    return obs
