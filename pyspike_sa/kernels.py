"""Kernel families, discovered from the dispatch sites (never from a hard-wired name list).

A *family* groups, for one measure: the wrapper that dispatches, the compiled profile kernel,
its Python fallback and (where a single-pass site routes back to that wrapper) the compiled
single-pass kernel.
"""
from __future__ import annotations

import ast
from dataclasses import dataclass, field
from typing import Dict, List, Optional, Tuple

from .frontend import Repo, FuncInfo, FrontEndError
from .dispatch import DispatchSite, find_dispatch_sites


@dataclass
class Family:
    name: str                      # derived from the python fallback symbol
    wrapper: FuncInfo
    site: DispatchSite
    pyx: FuncInfo
    py: FuncInfo
    single_site: Optional[DispatchSite] = None
    single: Optional[FuncInfo] = None
    single_wrapper: Optional[FuncInfo] = None


def called_functions(repo: Repo, fi: FuncInfo, node: ast.AST) -> List[FuncInfo]:
    out = []
    for c in ast.walk(node):
        if isinstance(c, ast.Call):
            f = c.func
            if isinstance(f, ast.Name):
                r = repo.resolve_symbol(fi.module, f.id)
                if r:
                    out.append(r)
    return out


def reaches_paired_wrapper(repo: Repo, fi: FuncInfo, calls: List[ast.Call], paired: Dict[str, DispatchSite],
                           depth: int = 0) -> Optional[DispatchSite]:
    """Follow resolved calls (depth <= 4) from the handler of a single-pass site to a wrapper that owns
    a paired dispatch site."""
    if depth > 4:
        return None
    for c in calls:
        f = c.func
        # strip trailing method call: X(...).avrg(...)
        while isinstance(f, ast.Attribute) and isinstance(f.value, ast.Call):
            f = f.value.func
        if not isinstance(f, ast.Name):
            continue
        tgt = repo.resolve_symbol(fi.module, f.id)
        if tgt is None:
            continue
        if tgt.qual in paired:
            return paired[tgt.qual]
        sub_calls = [x for x in ast.walk(tgt.node) if isinstance(x, ast.Call)]
        r = reaches_paired_wrapper(repo, tgt, sub_calls, paired, depth + 1)
        if r:
            return r
    return None


def discover_families(repo: Repo) -> Tuple[List[Family], List[DispatchSite]]:
    sites = find_dispatch_sites(repo)
    fams: List[Family] = []
    paired: Dict[str, DispatchSite] = {}
    for s in sites:
        if s.kind == 'paired':
            pyx = repo.func(s.compiled_module, s.compiled_symbol)
            py = repo.func(s.fallback_module, s.fallback_symbol)
            fams.append(Family(s.fallback_symbol, s.fi, s, pyx, py))
            paired[s.fi.qual] = s
    by_site = {id(f.site): f for f in fams}
    for s in sites:
        if s.kind != 'single':
            continue
        tgt = reaches_paired_wrapper(repo, s.fi, s.fallback_calls or [], paired)
        if tgt is None:
            continue
        fam = by_site[id(tgt)]
        fam.single_site = s
        fam.single = repo.func(s.compiled_module, s.compiled_symbol)
        fam.single_wrapper = s.fi
    return fams, sites


def helper_pairs(repo: Repo, fams: List[Family]) -> List[Tuple[FuncInfo, FuncInfo]]:
    """Helpers called from the compiled kernels that have a Python counterpart: resolved by name in the
    pyx module (or through its cimports) and by `name` / `name` minus `_cython` in the Python backend."""
    out: List[Tuple[FuncInfo, FuncInfo]] = []
    seen = set()
    for fam in fams:
        kernels = [fam.pyx] + ([fam.single] if fam.single else [])
        for k in kernels:
            mi = repo.module(k.module)
            for c in ast.walk(k.node):
                if not (isinstance(c, ast.Call) and isinstance(c.func, ast.Name)):
                    continue
                nm = c.func.id
                hx = None
                if nm in mi.functions and mi.functions[nm] is not k:
                    hx = mi.functions[nm]
                elif mi.pyx and nm in mi.pyx.cimports:
                    # find the defining pyx module
                    for m2 in repo.modules.values():
                        if m2.is_pyx and nm in m2.functions and m2.name != mi.name and \
                                m2.pyx and nm in m2.pyx.cdef_funcs:
                            hx = m2.functions[nm]
                if hx is None:
                    continue
                pym = repo.module(fam.py.module)
                cand = [nm, nm[:-7] if nm.endswith('_cython') else None]
                hp = None
                for cn in cand:
                    if cn and cn in pym.functions:
                        hp = pym.functions[cn]
                        break
                    if cn and cn in pym.imports:
                        r = repo.resolve_symbol(pym.name, cn)
                        if r:
                            hp = r
                            break
                if hp is None:
                    continue
                key = (hx.qual, hp.qual)
                if key not in seen:
                    seen.add(key)
                    out.append((hx, hp))
    return out
